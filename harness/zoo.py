"""
A fixed collection of small, diverse simulation configurations (harness/impl.py format) — one or two unusual-but-valid
dimensions each — that the simulation-level oracles of every property run through on EVERY check, next to their own
random generators.  Three rounds of independently seeded changes showed that almost every miss was a configuration family
no generator reached (a module on its own timestep, a day/week/month-unit sim, per-network betas, a population object
supplied by the user, deaths requested by an intervention in a sim without diseases, mixing pools, burn-in, leap years,
fractional scale factors, two instances of one class, …).  The oracles re-derive the property statement from observed
state, so they apply to any configuration.

    zoo.configs(tags=None, exclude=None) -> [(name, cfg)]      every entry runs on the unchanged tree (checked by `selftest`)
"""
import copy

Y = dict(unit='year', start=2000)


def _c(name, tags, **kw):
    cfg = dict(n_agents=120, rand_seed=11, unit='year', dt=1.0, start=2000, dur=8, diseases=[], networks=[], demographics=[])
    cfg.update(kw)
    return name, set(tags), cfg


SIR = dict(type='sir', beta=0.3, init_prev=0.1, dur_inf=4, p_death=0.05)
SIR0 = dict(type='sir', beta=0.3, init_prev=0.1, dur_inf=4, p_death=0)
SIS = dict(type='sis', beta=0.3, init_prev=0.1, dur_inf=3, waning=0.1)
RND = dict(type='random', n_contacts=4, dur=0)

ZOO = [
    _c('plain-sir', {'basic'}, diseases=[SIR], networks=[RND]),
    _c('sis-mf-quarter', {'basic', 'dt'}, dt=0.25, dur=3, diseases=[SIS], networks=[dict(type='mf', duration=3)]),
    _c('two-diseases-deaths', {'multi', 'deaths'}, diseases=[SIS, SIR], networks=[RND], demographics=[dict(type='deaths', death_rate=30)]),
    _c('two-sir-strains', {'multi'}, diseases=[dict(SIR, name='sir'), dict(SIR, name='sir2', beta=0.15)], networks=[RND],
       demographics=[dict(type='deaths', death_rate=20)]),
    _c('sis-before-sir-with-deaths', {'multi', 'deaths'}, dt=0.5, dur=5, diseases=[SIS, dict(SIR, p_death=0.3)], networks=[RND],
       demographics=[dict(type='deaths', death_rate=40)]),
    # units
    _c('day-unit', {'unit'}, unit='day', dt=1, start='2020-01-01', dur=12, diseases=[SIS], networks=[RND]),
    _c('day-unit-dt7', {'unit', 'dt'}, unit='day', dt=7, start='2020-02-20', dur=70, diseases=[SIR], networks=[RND], demographics=[dict(type='deaths', death_rate=30)]),
    _c('week-unit', {'unit'}, unit='week', dt=1, start='2021-01-04', dur=10, diseases=[SIS], networks=[RND]),
    _c('leap-century-day', {'unit', 'calendar'}, unit='day', dt=1, start='2099-12-24', dur=14, diseases=[SIS], networks=[RND]),
    _c('year-dt-tenth', {'dt'}, dt=0.1, dur=1.2, diseases=[SIR], networks=[RND], demographics=[dict(type='deaths', death_rate=50)]),
    _c('fractional-start', {'dt'}, start=2010.5, dt=0.5, dur=4, diseases=[SIS], networks=[RND]),
    _c('default-start', {'dt'}, start=None, dt=0.5, dur=4, diseases=[SIS], networks=[RND]),
    _c('start-zero', {'dt'}, start=0, dt=1.0, dur=8, diseases=[SIR], networks=[RND], demographics=[dict(type='deaths', death_rate=30)]),
    _c('numeric-day-unit', {'unit', 'dt'}, unit='day', start=0, dt=1, dur=30, diseases=[SIS], networks=[RND], demographics=[dict(type='deaths', death_rate=3000)]),
    _c('numeric-week-unit', {'unit', 'dt'}, unit='week', start=10, dt=2, dur=40, diseases=[SIR0], networks=[RND], use_aging=True),
    # modules on their own timelines
    _c('sis-finer-than-sim', {'own-dt'}, dt=1.0, dur=10, diseases=[dict(SIS, dt=0.5)], networks=[RND]),
    _c('sir-coarser-than-sim', {'own-dt'}, dt=0.5, dur=6, diseases=[dict(SIR, dt=1.0)], networks=[RND]),
    _c('deaths-own-dt', {'own-dt', 'deaths'}, dt=0.25, dur=3, diseases=[SIS], networks=[RND], demographics=[dict(type='deaths', death_rate=60, dt=1.0)]),
    _c('deaths-finer', {'own-dt', 'deaths'}, dt=1.0, dur=6, diseases=[SIS], networks=[RND], demographics=[dict(type='deaths', death_rate=60, dt=0.5)]),
    _c('deaths-window', {'own-dt', 'deaths'}, dt=1.0, dur=12, diseases=[SIS], networks=[RND], demographics=[dict(type='deaths', death_rate=60, start=2004, stop=2009)]),
    _c('births-own-dt', {'own-dt', 'births', 'global-rng'}, dt=0.5, dur=4, diseases=[SIS], networks=[RND], demographics=[dict(type='births', birth_rate=40, dt=1.0)]),
    _c('week-module-in-year-sim', {'own-dt', 'unit'}, start=2003.0, dt=0.25, dur=2.0, diseases=[dict(SIS, unit='week', dt=4)], networks=[RND]),
    _c('randomnet-own-dt', {'own-dt', 'network'}, dt=0.5, dur=5, diseases=[SIS], networks=[dict(type='random', n_contacts=4, dur=0, dt=1.0)]),
    _c('module-later-start-date-sim', {'own-dt', 'unit', 'calendar'}, unit='day', dt=1, start='2020-01-01', dur=40, diseases=[dict(SIS, start='2020-01-15')], networks=[RND]),
    _c('module-points-past-sim-end', {'own-dt', 'dt'}, dt=1.0, dur=4.5, diseases=[dict(SIS, dt=0.5)], networks=[RND]),
    _c('routine-vx-own-dt', {'own-dt', 'intervention'}, dt=0.5, dur=8, diseases=[SIR0], networks=[RND],
       interventions=[dict(type='sir_vx', prob=0.4, efficacy=0.8, start_year=2002, end_year=2006, dt=1.0)]),
    # demographics
    _c('births-deaths', {'births', 'deaths', 'global-rng'}, dt=0.5, dur=5, diseases=[SIR], networks=[RND],
       demographics=[dict(type='births', birth_rate=40), dict(type='deaths', death_rate=30)]),
    _c('pregnancy-deaths-maternal', {'pregnancy', 'deaths'}, dt=0.25, dur=3, diseases=[SIS], networks=[RND, dict(type='maternal')],
       demographics=[dict(type='pregnancy', fertility_rate=120, p_maternal_death=0.1, p_neonatal_death=0.2, burnin=True), dict(type='deaths', death_rate=40)]),
    _c('pregnancy-no-burnin', {'pregnancy'}, dt=0.5, dur=4, diseases=[SIS], networks=[dict(type='mf', duration=3)],
       demographics=[dict(type='pregnancy', fertility_rate=100, burnin=False)]),
    _c('pregnancy-monthly', {'pregnancy', 'dt'}, dt=1 / 12, dur=1.0, diseases=[SIS], networks=[RND],
       demographics=[dict(type='pregnancy', fertility_rate=150, burnin=True), dict(type='deaths', death_rate=60)]),
    _c('pregnancy-gestation-in-days', {'pregnancy', 'unit'}, dt=0.2, dur=2.0, diseases=[SIS], networks=[RND, dict(type='maternal')],
       demographics=[dict(type='pregnancy', fertility_rate=150, dur_pregnancy=(270, 'day'), burnin=True), dict(type='deaths', death_rate=40)]),
    _c('pregnancy-fifth-year-steps', {'pregnancy', 'dt'}, dt=0.2, dur=2.4, diseases=[SIS], networks=[dict(type='mf', duration=3), dict(type='maternal')],
       demographics=[dict(type='pregnancy', fertility_rate=150, p_neonatal_death=0.3, burnin=True), dict(type='deaths', death_rate=60)]),
    _c('pregnancy-own-dt', {'pregnancy', 'own-dt'}, dt=0.5, dur=3.0, diseases=[SIS], networks=[RND],
       demographics=[dict(type='pregnancy', fertility_rate=150, dt=0.25, burnin=True)]),
    # networks and routes
    _c('dict-beta-zero-entry', {'network', 'dict-beta'}, diseases=[dict(SIS, beta=dict(static=0.1, random=0.3, mf=0.0))],     # (keys in another order than the networks)
       networks=[RND, dict(type='mf', duration=3), dict(type='static', n_contacts=2)]),
    _c('static-deaths', {'network', 'deaths'}, diseases=[SIR], networks=[dict(type='static', n_contacts=4)], demographics=[dict(type='deaths', death_rate=50)]),
    _c('disk-births-deaths', {'network', 'births', 'deaths', 'global-rng'}, dt=0.5, dur=4, diseases=[SIS], networks=[dict(type='disk', r=0.2, v=0.1)],
       demographics=[dict(type='births', birth_rate=60), dict(type='deaths', death_rate=60)]),
    _c('erdosrenyi-deaths', {'network', 'deaths'}, diseases=[SIR], networks=[dict(type='erdosrenyi', p=0.05)], demographics=[dict(type='deaths', death_rate=40)]),
    _c('timed-edges-half-step', {'network', 'dt'}, dt=0.5, dur=5, diseases=[SIS], networks=[dict(type='random', n_contacts=2, dur=1.5)]),
    _c('timed-edges-two-step', {'network', 'dt'}, dt=2.0, dur=16, diseases=[SIS], networks=[dict(type='random', n_contacts=2, dur=6)]),
    _c('msm', {'network'}, dt=0.5, dur=5, diseases=[SIS], networks=[dict(type='msm', duration=2)], demographics=[dict(type='deaths', death_rate=30)]),
    _c('embedding', {'network'}, dt=0.5, dur=5, diseases=[SIS], networks=[dict(type='embedding', duration=2)]),
    _c('age-mixing-pools', {'network', 'pools'}, dt=0.5, dur=5, diseases=[dict(SIS, beta=0.2)], networks=[dict(type='agepools', cut=15, beta=0.3)],
       demographics=[dict(type='deaths', death_rate=30)]),
    # scaling, user-supplied objects
    _c('pop-scale-fraction', {'scale', 'births', 'deaths', 'global-rng'}, pop_scale=2.5, diseases=[SIR], networks=[RND], demographics=[dict(type='births', birth_rate=30), dict(type='deaths', death_rate=30)]),
    _c('total-pop-odd', {'scale'}, total_pop=1234, diseases=[SIS], networks=[RND], demographics=[dict(type='deaths', death_rate=30)]),
    _c('own-people', {'user-objects', 'global-rng'}, own_people=True, diseases=[SIS], networks=[RND], demographics=[dict(type='births', birth_rate=30)]),
    _c('user-dist-weibull', {'user-objects'}, diseases=[dict(SIR0, dur_inf=dict(dist='weibull', pars=dict(c=2.0, scale=6.0), preview=3))], networks=[RND]),
    # interventions
    _c('routine-vx', {'intervention'}, dur=8, diseases=[SIR0], networks=[RND], interventions=[dict(type='sir_vx', prob=0.4, efficacy=0.8, start_year=2002, end_year=2006)]),
    _c('routine-vx-half-year', {'intervention', 'dt'}, dt=0.5, dur=6, diseases=[SIR0], networks=[RND],
       interventions=[dict(type='sir_vx', prob=0.4, efficacy=0.8, start_year=2001, end_year=2004)]),
    _c('killer-only', {'intervention', 'deaths', 'no-disease'}, dur=6, networks=[RND], interventions=[dict(type='killer', p=0.08)]),
    _c('killer-with-sis', {'intervention', 'deaths'}, dt=0.5, dur=4, diseases=[SIS], networks=[RND], interventions=[dict(type='killer', p=0.06)]),
    _c('deaths-table', {'deaths', 'table'}, dt=0.5, dur=6, diseases=[SIS], networks=[RND], demographics=[dict(type='deaths', death_table=dict(scale=40.0))]),
    _c('pool-two-diseases', {'network', 'pools', 'multi'}, dt=0.5, dur=5, diseases=[dict(SIS, beta=0.1), dict(SIR, beta=0.1)],
       networks=[dict(type='agepools', cut=15, beta=0.3, diseases=['sis', 'sir'])], demographics=[dict(type='deaths', death_rate=20)]),
    # suggested by the property checks after the first zoo pass
    _c('ebola-with-deaths', {'disease', 'deaths'}, unit='day', dt=1, start='2020-01-01', dur=30, diseases=[dict(type='ebola', beta=0.5, init_prev=0.1)], networks=[RND],
       demographics=[dict(type='deaths', death_rate=3000)]),
    _c('measles-with-deaths', {'disease', 'deaths'}, unit='day', dt=1, start='2020-01-01', dur=30, diseases=[dict(type='measles', beta=0.5, init_prev=0.1)], networks=[RND],
       demographics=[dict(type='deaths', death_rate=3000)]),
    _c('cholera-week-unit', {'disease', 'unit'}, unit='week', dt=1, start='2020-01-06', dur=8, diseases=[dict(type='cholera', init_prev=0.1)], networks=[RND]),
    _c('static-heavy-mortality', {'network', 'deaths'}, n_agents=300, dur=5, diseases=[SIS], networks=[dict(type='static', n_contacts=6)], demographics=[dict(type='deaths', death_rate=200)]),
    _c('randomnet-own-dt-timed', {'own-dt', 'network'}, dt=0.5, dur=6, diseases=[SIS], networks=[dict(type='random', n_contacts=2, dur=2.0, dt=1.0)]),
    _c('fine-disease-and-demography', {'own-dt', 'births', 'deaths'}, dt=1.0, dur=5, diseases=[dict(SIS, dt=0.25)], networks=[RND],
       demographics=[dict(type='births', birth_rate=60, dt=0.25), dict(type='deaths', death_rate=60, dt=0.25)]),
    _c('syphilis-pregnancy-maternal', {'disease', 'pregnancy', 'deaths'}, dt=0.25, dur=3, diseases=[dict(type='syphilis', beta=dict(mf=[0.4, 0.2], maternal=[0.9, 0.0]), init_prev=0.15)],
       networks=[dict(type='mf', duration=3), dict(type='maternal')],
       demographics=[dict(type='pregnancy', fertility_rate=120), dict(type='deaths', death_rate=30)]),
    # the other built-in diseases
    _c('ncd', {'disease', 'global-rng'}, dur=6, diseases=[dict(type='ncd')], networks=[RND]),
    _c('hiv-mf', {'disease'}, dt=0.5, dur=4, diseases=[dict(type='hiv', beta=dict(mf=[0.1, 0.05]), init_prev=0.1)], networks=[dict(type='mf', duration=3)]),
    _c('gonorrhea-mf', {'disease'}, unit='day', dt=7, start='2020-01-01', dur=84, diseases=[dict(type='gonorrhea', beta=dict(mf=[0.3, 0.2]), init_prev=0.1)], networks=[dict(type='mf', duration=3)]),
    _c('cholera', {'disease'}, unit='day', dt=1, start='2020-01-01', dur=20, diseases=[dict(type='cholera', init_prev=0.1)], networks=[RND]),
    _c('ebola', {'disease'}, unit='day', dt=1, start='2020-01-01', dur=25, diseases=[dict(type='ebola', beta=0.5, init_prev=0.1)], networks=[RND]),
    _c('measles', {'disease'}, unit='day', dt=1, start='2020-01-01', dur=25, diseases=[dict(type='measles', beta=0.5, init_prev=0.1)], networks=[RND]),
]


def _complete_tags():
    """ `global-rng` for every entry with a module that reads the process-global NumPy generator (C01 findings) """
    for name, tg, cfg in ZOO:
        if any(d['type'] == 'births' for d in cfg.get('demographics', [])) or any(d['type'] == 'ncd' for d in cfg.get('diseases', [])) \
           or any(n['type'] == 'random' and n.get('n_contacts', 4) % 2 for n in cfg.get('networks', [])):
            tg.add('global-rng')


_complete_tags()


def configs(tags=None, exclude=None, names=None):
    """ deep copies of the entries whose tag set meets `tags` (any) and avoids `exclude` (any) """
    out = []
    for name, tg, cfg in ZOO:
        if names is not None and name not in names: continue
        if tags and not (tg & set(tags)): continue
        if exclude and (tg & set(exclude)): continue
        out.append((name, copy.deepcopy(cfg)))
    return out


def tags_of(name):
    return next(tg for n, tg, _ in ZOO if n == name)


def selftest(verbose=True):
    """ every entry builds, initialises and runs on the tree under test; returns {name: error} """
    from harness import impl
    bad = {}
    for name, cfg in configs():
        try:
            sim = impl.build_sim(cfg); sim.init(); sim.run()
        except Exception as e:
            bad[name] = f'{type(e).__name__}: {e}'
            if verbose: print('ZOO entry fails:', name, bad[name])
    return bad


if __name__ == '__main__':
    import time
    t0 = time.time(); b = selftest()
    print(len(ZOO), 'entries,', len(b), 'fail,', round(time.time() - t0, 1), 's')
