"""
Shared implementation-side helpers: JSON-serialisable sim configurations, their generator and builder,
result flattening, and valid parameter sets for every family of ss.dist_list.
Everything here runs the REAL starsim imported from /repo's working tree.
"""
import numpy as np

# Valid constructor parameters for each family in ss.dist_list (scalar mode)
DIST_PARS = dict(
    random={}, uniform=dict(low=1.0, high=3.0), normal=dict(loc=1.0, scale=2.0),
    lognorm_ex=dict(mean=2.0, std=1.0), lognorm_im=dict(mean=0.5, sigma=0.7), expon=dict(scale=2.0),
    poisson=dict(lam=3.0), nbinom=dict(n=4, p=0.4), weibull=dict(c=1.5, loc=0.0, scale=2.0),
    gamma=dict(a=2.0, loc=0.0, scale=1.5), constant=dict(v=4.0), randint=dict(low=2, high=9),
    rand_raw={}, bernoulli=dict(p=0.3), choice=dict(a=5), histogram=dict(values=[1, 3, 2], bins=[0, 1, 2, 3]),
)


# ---------------------------------------------------------------------------
# configuration generator

DISEASES = ['sir', 'sis']
NETWORKS = ['random', 'mf', 'erdosrenyi', 'static', 'disk', 'msm', 'embedding', 'maternal']


def gen_sim_config(rng, small=True, diseases=None, networks=None, demographics=None, allow_global_readers=False,
                   time=None):
    """
    A structured, mostly-valid sim configuration.  allow_global_readers=False avoids the modules that are known
    to read the process-global NumPy generator (C01 findings: Births, RandomNet with odd contacts, NCD, ...), so that
    other properties' checks are not polluted by them.
    """
    n_agents = rng.choice([60, 100, 150, 250] if small else [200, 500, 1000])
    cfg = dict(n_agents=n_agents, rand_seed=rng.randint(0, 10_000))
    # time
    if time is None:
        unit = rng.choice(['year', 'year', 'year', 'day'])
        if unit == 'year':
            dt = rng.choice([1.0, 0.5, 0.25, 0.2, 1 / 12])
            start = rng.choice([2000, 1995, 2010.5])
            npts = rng.randint(4, 10 if small else 30)
            cfg.update(unit='year', dt=dt, start=start, dur=round(dt * npts, 6))
        else:
            dt = rng.choice([1, 2, 7])
            cfg.update(unit='day', dt=dt, start='2020-01-01', dur=dt * rng.randint(4, 10 if small else 40))
    else:
        cfg.update(time)
    # diseases
    nd = rng.choice([1, 1, 2])
    ds = []
    names = diseases if diseases is not None else rng.sample(DISEASES, nd)
    for nm in names:
        d = dict(type=nm, beta=rng.choice([0.05, 0.1, 0.3, 0.8]), init_prev=rng.choice([0.02, 0.1, 0.3]))
        if nm == 'sir':
            d['dur_inf'] = rng.choice([2, 5, 10]); d['p_death'] = rng.choice([0, 0.05, 0.3])
        if nm == 'sis':
            d['dur_inf'] = rng.choice([2, 5, 10]); d['waning'] = rng.choice([0.05, 0.2])
        ds.append(d)
    cfg['diseases'] = ds
    # networks
    nn = rng.choice([1, 1, 2])
    pool = networks if networks is not None else rng.sample(['random', 'mf', 'erdosrenyi', 'static', 'maternal_none'], nn)
    nets = []
    for nm in pool:
        if nm == 'random':
            nc = rng.choice([2, 4, 6, 10]) if not allow_global_readers else rng.choice([2, 3, 4, 5])
            nets.append(dict(type='random', n_contacts=nc, dur=rng.choice([0, 0, 1, 3])))
        elif nm == 'mf':
            nets.append(dict(type='mf', duration=rng.choice([1, 3, 10])))
        elif nm == 'erdosrenyi':
            nets.append(dict(type='erdosrenyi', p=rng.choice([0.02, 0.05, 0.1])))
        elif nm == 'static':
            nets.append(dict(type='static', n_contacts=rng.choice([2, 4])))
        elif nm == 'disk':
            nets.append(dict(type='disk', r=rng.choice([0.1, 0.2]), v=rng.choice([0.05, 0.2])))
        elif nm == 'msm':
            nets.append(dict(type='msm', duration=rng.choice([1, 3])))
        elif nm == 'embedding':
            nets.append(dict(type='embedding', duration=rng.choice([1, 3])))
        elif nm == 'agepools':
            nets.append(dict(type='agepools', cut=rng.choice([15, 30]), beta=rng.choice([0.1, 0.3])))
    if not nets:
        nets.append(dict(type='random', n_contacts=4, dur=0))
    cfg['networks'] = nets
    # demographics
    dem = []
    choices = demographics if demographics is not None else rng.choice([[], ['deaths'], ['pregnancy', 'deaths'], ['pregnancy']] +
                                                                       ([['births', 'deaths'], ['births']] if allow_global_readers else []))
    for nm in choices:
        if nm == 'births':
            dem.append(dict(type='births', birth_rate=rng.choice([10, 30, 80])))
        elif nm == 'deaths':
            dem.append(dict(type='deaths', death_rate=rng.choice([5, 20, 60])))
        elif nm == 'pregnancy':
            dem.append(dict(type='pregnancy', fertility_rate=rng.choice([20, 60, 150]),
                            p_maternal_death=rng.choice([0, 0, 0.1]), p_neonatal_death=rng.choice([0, 0, 0.2]),
                            burnin=rng.random() < 0.7))
    cfg['demographics'] = dem
    if any(d['type'] == 'pregnancy' for d in dem) and rng.random() < 0.5:
        cfg['networks'].append(dict(type='maternal'))
    return cfg


TIME_KEYS = ('dt', 'unit', 'start', 'stop')


def _own_time(d):
    """ a module's own timeline (any of dt / unit / start / stop), passed through as given """
    return {k: d[k] for k in TIME_KEYS if k in d and d[k] is not None}


def _user_dist(spec):
    """ a distribution object made by the USER before the simulation exists (strict=False: it initialises itself and may be
        drawn from at once) — spec = dict(dist=<family>, pars={...}, preview=<draws taken from it before the sim is built>) """
    import starsim as ss
    d = getattr(ss, spec['dist'])(strict=False, **spec.get('pars', {}))
    if spec.get('preview'): d.rvs(int(spec['preview']))
    return d


def _disease(d):
    import starsim as ss
    d = dict(d); t = d.pop('type')
    if isinstance(d.get('dur_inf'), dict) and 'dist' in d['dur_inf']: d['dur_inf'] = _user_dist(d['dur_inf'])
    if isinstance(d.get('beta'), dict):     # per-network betas: the same kind of time parameter a plain number becomes
        d['beta'] = {k: (ss.beta(v) if isinstance(v, (int, float)) else v) for k, v in d['beta'].items()}
    if t == 'sir':
        kw = dict(beta=d.get('beta', 0.1), init_prev=d.get('init_prev', 0.05))
        if 'dur_inf' in d: kw['dur_inf'] = d['dur_inf']
        if 'p_death' in d: kw['p_death'] = d['p_death']
        if 'name' in d: kw['name'] = d['name']
        kw.update(_own_time(d))
        return ss.SIR(**kw)
    if t == 'sis':
        kw = dict(beta=d.get('beta', 0.1), init_prev=d.get('init_prev', 0.05))
        if 'dur_inf' in d: kw['dur_inf'] = d['dur_inf']
        if 'waning' in d: kw['waning'] = d['waning']
        if 'name' in d: kw['name'] = d['name']
        kw.update(_own_time(d))
        return ss.SIS(**kw)
    cls = dict(hiv=ss.HIV, gonorrhea=ss.Gonorrhea, syphilis=ss.Syphilis, cholera=ss.Cholera, ebola=ss.Ebola,
               measles=ss.Measles, ncd=ss.NCD)[t]
    return cls(**d)


def _network(n, n_agents, cfg=None):
    import starsim as ss
    n = dict(n); t = n.pop('type')
    if t == 'random':
        return ss.RandomNet(n_contacts=n.get('n_contacts', 4), dur=n.get('dur', 0), **_own_time(n))
    if t == 'mf':
        return ss.MFNet(duration=ss.lognorm_ex(mean=n.get('duration', 5), std=1.0)) if 'duration' in n else ss.MFNet()
    if t == 'msm':
        return ss.MSMNet(duration=ss.lognorm_ex(mean=n.get('duration', 5), std=1.0)) if 'duration' in n else ss.MSMNet()
    if t == 'embedding':
        return ss.EmbeddingNet(duration=ss.lognorm_ex(mean=n.get('duration', 5), std=1.0)) if 'duration' in n else ss.EmbeddingNet()
    if t == 'erdosrenyi':
        kw = dict(p=n.get('p', 0.05))
        if 'dur' in n:      # a number, or dict(dist=<family>, pars={...}): edge durations drawn per source agent
            kw['dur'] = getattr(ss, n['dur']['dist'])(**n['dur'].get('pars', {})) if isinstance(n['dur'], dict) else n['dur']
        return ss.ErdosRenyiNet(**kw)
    if t == 'static':
        return ss.StaticNet(n_contacts=n.get('n_contacts', 4))
    if t == 'disk':
        return ss.DiskNet(r=n.get('r', 0.1), v=n.get('v', 0.1))
    if t == 'maternal':
        return ss.MaternalNet()
    if t == 'null':
        return ss.NullNet()
    if t == 'agepools':
        # the documented MixingPools set-up: the same age brackets as sources and as destinations
        cut = n.get('cut', 15)
        names = ([n['diseases']] if isinstance(n['diseases'], str) else [list(n['diseases'])]) if n.get('diseases') else ([d.get('name', d['type']) for d in (cfg or {}).get('diseases', [])] or ['sir'])
        mk = lambda: {'young': ss.AgeGroup(0, cut), 'old': ss.AgeGroup(cut, None)}
        return ss.MixingPools(diseases=names[0], beta=n.get('beta', 0.2), src=mk(), dst=mk(), contacts=n.get('contacts', [[2.4, 0.5], [0.9, 0.2]]), **_own_time(n))
    raise ValueError(t)


def death_table(scale=1.0, years=(1995, 2000, 2005, 2010, 2020), trend=0.9):
    """ a small mortality table: rates per person-year by year, sex and age-group start """
    import pandas as pd
    base = {0: 0.06, 1: 0.01, 15: 0.004, 50: 0.02, 70: 0.08}
    rows = []
    for i, y in enumerate(years):
        for sex, f in (('Male', 1.2), ('Female', 1.0)):
            for a, m in base.items():
                rows.append(dict(Time=y, Sex=sex, AgeGrpStart=a, mx=round(m * f * scale * trend ** i, 6)))
    return pd.DataFrame(rows)


def _demog(d):
    import starsim as ss
    d = dict(d); t = d.pop('type')
    if t == 'births':
        return ss.Births(birth_rate=d.get('birth_rate', 20), **_own_time(d))
    if t == 'deaths':
        if 'death_table' in d:     # an age / sex / year mortality table in the UN layout (Time, Sex, AgeGrpStart, mx), scaled
            return ss.Deaths(death_rate=death_table(**d['death_table']), **_own_time(d))
        return ss.Deaths(death_rate=d.get('death_rate', 10), **_own_time(d))
    if t == 'pregnancy':
        kw = dict(fertility_rate=d.get('fertility_rate', 50)); kw.update(_own_time(d))
        if d.get('p_maternal_death'): kw['p_maternal_death'] = ss.bernoulli(d['p_maternal_death'])
        if d.get('p_neonatal_death'): kw['p_neonatal_death'] = ss.bernoulli(d['p_neonatal_death'])
        if 'burnin' in d: kw['burnin'] = d['burnin']
        if 'dur_pregnancy' in d:       # (value, unit): gestation given in another unit than the module's
            kw['dur_pregnancy'] = ss.dur(d['dur_pregnancy'][0], unit=d['dur_pregnancy'][1])
        return ss.Pregnancy(**kw)
    raise ValueError(t)


def _intervention(i):
    import starsim as ss
    i = dict(i); t = i.pop('type')
    if t == 'sir_vx':
        prod = ss.sir_vaccine(efficacy=i.get('efficacy', 0.9), leaky=i.get('leaky', True))
        kw = dict(product=prod, prob=i.get('prob', 0.5))
        if 'start_year' in i: kw['start_year'] = i['start_year']
        if 'end_year' in i: kw['end_year'] = i['end_year']
        if 'name' in i: kw['name'] = i['name']
        kw.update(_own_time(i))
        return ss.routine_vx(**kw)
    if t == 'killer':
        return make_killer(i.get('p', 0.05), i.get('name', 'killer'), **_own_time(i))
    raise ValueError(t)


def make_killer(p, name, **kw):
    """ an intervention that requests the death of each living agent with probability p per step, through the public
        People.request_death() and its own distribution (deaths whose source is neither a disease nor a demographics module) """
    import starsim as ss

    class Killer(ss.Intervention):
        def __init__(self, p, **kw2):
            super().__init__(**kw2)
            self.define_pars(p_kill=ss.bernoulli(p=p))
        def step(self):
            uids = self.pars.p_kill.filter(self.sim.people.auids)
            if len(uids): self.sim.people.request_death(uids)
            return uids
    return Killer(p, name=name, **kw)


def build_sim(cfg, extra_interventions=None, extra_analyzers=None, **over):
    """ Build (not init) a real ss.Sim from a JSON-able configuration """
    import starsim as ss
    pars = dict(n_agents=cfg['n_agents'], rand_seed=cfg.get('rand_seed', 1), verbose=0)
    for k in ('unit', 'dt', 'start', 'dur', 'stop', 'pop_scale', 'total_pop', 'use_aging'):
        if k in cfg and cfg[k] is not None:
            pars[k] = cfg[k]
    pars['diseases'] = [_disease(d) for d in cfg.get('diseases', [])]
    pars['networks'] = [_network(n, cfg['n_agents'], cfg) for n in cfg.get('networks', [])]
    dem = [_demog(d) for d in cfg.get('demographics', [])]
    if dem: pars['demographics'] = dem
    intv = [_intervention(i) for i in cfg.get('interventions', [])] + list(extra_interventions or [])
    ana = list(extra_analyzers or [])
    if intv: pars['interventions'] = intv
    if ana: pars['analyzers'] = ana
    if cfg.get('own_people'):       # a population object the user built beforehand
        pars['people'] = ss.People(cfg['n_agents'])
    pars.update(over)
    return ss.Sim(**pars)


def flat_results(sim):
    """ {key: ndarray} of every result series of a sim (sim-level and per module) """
    out = {}
    for k, v in sim.results.flatten().items():
        try:
            out[k] = np.asarray(v.values if hasattr(v, 'values') else v)
        except Exception:
            pass
    return out


def agent_states(sim):
    """ {state name: values over active uids} for every registered state """
    out = {}
    ppl = sim.people
    au = np.asarray(ppl.auids)
    out['__auids__'] = au.copy()
    for key, st in ppl._states.items() if hasattr(ppl._states, 'items') else []:
        try:
            out[f'{id(st) if False else getattr(st, "name", key)}:{key}'] = np.asarray(st.raw[au]).copy()
        except Exception:
            pass
    return out


def arrays_equal(a, b):
    if a.keys() != b.keys():
        return False, f'keys differ: {sorted(set(a) ^ set(b))[:5]}'
    for k in a:
        x, y = a[k], b[k]
        if x.shape != y.shape:
            return False, f'{k}: shapes {x.shape} vs {y.shape}'
        if x.dtype.kind in 'fc':
            same = np.array_equal(x, y, equal_nan=True)
        else:
            same = np.array_equal(x, y)
        if not same:
            return False, f'{k} differs'
    return True, ''
