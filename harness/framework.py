"""
Common machinery for every ./check Cxx run (DESIGN.md section 3.6).

A property module (harness/props/cXX.py) defines

    PROP       = 'C04'
    GENERATED  = ['RngConsts']            # Generated/*.lean files its theorems depend on
    DRIVER     = 'Drivers/C04.lean'       # optional: line-protocol driver
    TRUSTED    = [...]                    # extra trusted-base strings
    def correspond(ctx): ...              # model <-> implementation on sampled inputs
    def search(ctx): ...                  # oracle on the REAL code only (always run at a small budget,
                                          #   bigger budget when ctx.broken is non-empty)
    def replay(ctx, data): ...            # re-run one stored input against the real code -> bool(fails)

and reports through the Ctx methods:

    ctx.case(canon, nontrivial=True, sample=None)   one explored case
    ctx.broke(kind, name, detail, data=None)        a tie that no longer checks (proof / extract / correspondence)
    ctx.fail(signature, what, data)                 a concrete failing input on the real code
"""
import os, sys, json, time, re, hashlib, subprocess, random, fcntl, traceback, argparse, importlib, glob

VERIF = os.path.dirname(os.path.dirname(os.path.abspath(__file__)))
LEAN = os.path.join(VERIF, 'lean')
REPO = os.environ.get('STARSIM_REPO', '/repo')
PKG = 'StarsimModel'
FORBIDDEN = re.compile(r'\b(sorry|admit|native_decide|bv_decide|implemented_by|unsafe)\b|^\s*axiom\s|maxHeartbeats\s+0\b')
STD_AXIOMS = {'propext', 'Classical.choice', 'Quot.sound'}


class Infra(Exception):
    """ Infrastructure failure: exit 2, never a VIOLATION """


def sh(cmd, cwd=None, timeout=3600, inp=None, env=None):
    e = dict(os.environ)
    if env: e.update(env)
    p = subprocess.run(cmd, cwd=cwd, input=inp, capture_output=True, text=True, timeout=timeout, env=e)
    return p.returncode, p.stdout, p.stderr


def strip_comments(src):
    """ Remove Lean comments (nested block comments and line comments) """
    out = []; i = 0; depth = 0; n = len(src)
    while i < n:
        if src.startswith('/-', i):
            depth += 1; i += 2; continue
        if depth and src.startswith('-/', i):
            depth -= 1; i += 2; continue
        if depth:
            if src[i] == '\n': out.append('\n')
            i += 1; continue
        if src.startswith('--', i):
            while i < n and src[i] != '\n': i += 1
            continue
        out.append(src[i]); i += 1
    return ''.join(out)


def lean_file(mod):
    return os.path.join(LEAN, *mod.split('.')) + '.lean'


def import_closure(mod, seen=None):
    """ Project-internal import closure of a Lean module (list of module names) """
    seen = seen if seen is not None else []
    if mod in seen: return seen
    path = lean_file(mod)
    if not os.path.exists(path): return seen
    seen.append(mod)
    for line in open(path):
        m = re.match(r'\s*(?:public\s+)?import\s+(\S+)', line)
        if m and m.group(1).startswith(PKG + '.'):
            import_closure(m.group(1), seen)
    return seen


DECL = re.compile(r'^\s*(?:@\[[^\]]*\]\s*)*(?:private\s+|protected\s+)?(theorem|lemma|example)\b\s*([^\s:({\[]*)', re.M)


def decls(mod):
    src = strip_comments(open(lean_file(mod)).read())
    return [(k, n) for k, n in DECL.findall(src)]


def namespace_of(mod):
    """ Theorems in Props files are declared at top level inside `namespace StarsimModel.Cxx` or none; detect """
    src = strip_comments(open(lean_file(mod)).read())
    m = re.search(r'^namespace\s+(\S+)', src, re.M)
    return m.group(1) if m else None


class Ctx:
    def __init__(self, prop, tier, seed):
        self.prop = prop; self.tier = tier; self.seed = seed
        self.rng = random.Random(seed * 1000003 + int(prop[1:]))
        self.t0 = time.time()
        self.cases = 0
        self.distinct = set()
        self.samples = []
        self.broken = []       # ties that no longer check
        self.failures = []     # concrete failing inputs on the real code
        self.notes = {}        # extra evidence keys
        self.counters = {}
        self.obligations = 0; self.discharged = 0
        self.axioms = {}
        self.extracted = {}
        self.known = load_known(prop)
        self.known_hit = {}
        self.thorough = tier == 'thorough'

    # ---- reporting -------------------------------------------------------
    def case(self, canon, nontrivial=True, sample=None):
        self.cases += 1
        if nontrivial:
            self.distinct.add(hashlib.sha1(repr(canon).encode()).hexdigest())
        if sample is not None and len(self.samples) < 6:
            self.samples.append(sample)

    def count(self, key, n=1):
        self.counters[key] = self.counters.get(key, 0) + n

    def broke(self, kind, name, detail, data=None):
        if len(self.broken) < 50:
            self.broken.append(dict(kind=kind, name=name, detail=str(detail)[:4000], data=data))

    def fail(self, signature, what, data):
        """ A concrete input on which the REAL code violates the property """
        for k in self.known:
            if k['kind'] == 'finding' and sig_match(k['signature'], signature):
                self.known_hit.setdefault(k['id'], dict(entry=k, n=0, example=data))['n'] += 1
                return 'known'
        key = json.dumps(signature, sort_keys=True, default=str)
        for f in self.failures:
            if f['key'] == key:
                f['n'] += 1
                return 'new'
        if len(self.failures) < 20:
            self.failures.append(dict(key=key, n=1, signature=signature, what=what, data=data))
        return 'new'

    def budget(self, quick, thorough):
        n = thorough if self.thorough else quick
        if self.broken:  # something broke: search harder
            n *= 3
        return n

    # ---- lean driver -----------------------------------------------------
    def drive(self, driver, lines, timeout=1800):
        """ Pipe operation lines through a Lean line-protocol driver, return output lines """
        text = '\n'.join(lines) + '\n'
        # hold the project lock: another check's extract + build must not swap .olean files under a running driver
        lock = None
        if not _RUN_LOCK_HELD[0]:
            lock = open(os.path.join(LEAN, '.verif.lock'), 'w')
            fcntl.flock(lock, fcntl.LOCK_EX)
        try:
            rc, out, err = sh(['lake', 'env', 'lean', '--run', driver], cwd=LEAN, inp=text, timeout=timeout)
            if rc != 0 and 'object file' in err and 'does not exist' in err:
                # a concurrent run against another tree regenerated files since our build: rebuild once and retry
                mods = [m for m in re.findall(r"of module (\S+) does not exist", err)]
                sh(['lake', 'build'] + mods, cwd=LEAN, timeout=3000)
                rc, out, err = sh(['lake', 'env', 'lean', '--run', driver], cwd=LEAN, inp=text, timeout=timeout)
        finally:
            if lock is not None:
                fcntl.flock(lock, fcntl.LOCK_UN)
        if rc != 0:
            raise DriverError(f'driver {driver} rc={rc}\n{err[-3000:]}\n{out[-1000:]}')
        res = out.split('\n')
        if res and res[-1] == '': res.pop()
        return res


_RUN_LOCK_HELD = [False]   # the whole check run holds lean/.verif.lock (see run_check)


class DriverError(Exception):
    pass


def sig_match(known_sig, sig):
    """ A known-finding signature matches when every key it names has the same value in the observed signature """
    return all(sig.get(k) == v for k, v in known_sig.items())


def load_known(prop):
    path = os.path.join(VERIF, 'known_findings.json')
    if not os.path.exists(path): return []
    data = json.load(open(path))
    return [k for k in data.get('entries', []) if k['property'] == prop]


# ---------------------------------------------------------------------------
# Steps

def step_extract(ctx, generated):
    from harness import extract
    res = extract.run_all(REPO, os.path.join(LEAN, PKG, 'Generated'))
    for name in generated:
        r = res.get(name)
        if r is None:
            raise Infra(f'no extractor named {name}')
        if not r['ok']:
            ctx.broke('extract', f'Generated/{name}.lean', r['error'])
        else:
            ctx.extracted[name] = dict(sha=r['sha'][:16], facts=r['facts'])
    return res


def step_prove(ctx, prop_mod):
    """ Build Props.Cxx (+ audit), count obligations, audit axioms and forbidden tokens """
    mods = import_closure(prop_mod)
    if not mods:
        raise Infra(f'missing {prop_mod}')
    # forbidden tokens
    for m in mods:
        src = strip_comments(open(lean_file(m)).read())
        for ln in src.split('\n'):
            if FORBIDDEN.search(ln):
                ctx.broke('proof', m, f'forbidden token in proof source: {ln.strip()[:200]}')
    # obligations = theorems/lemmas/examples in the import closure
    all_decls = []
    for m in mods:
        all_decls += [(m, k, n) for k, n in decls(m)]
    ctx.obligations = len(all_decls)
    # audit file
    ns = namespace_of(prop_mod)
    thms = [n for k, n in decls(prop_mod) if k in ('theorem', 'lemma') and n]
    audit_mod = prop_mod.replace('.Props.', '.Audit.')
    body = f'import {prop_mod}\n' + (f'open {ns}\n' if ns else '') + ''.join(f'#print axioms {t}\n' for t in thms)
    path = lean_file(audit_mod)
    os.makedirs(os.path.dirname(path), exist_ok=True)
    if not os.path.exists(path) or open(path).read() != body:
        open(path, 'w').write(body)
    rc, out, err = sh(['lake', 'build', prop_mod, audit_mod], cwd=LEAN, timeout=3000)
    text = out + err
    if rc != 0:
        # which theorems fail?  collect error lines
        errs = re.findall(r'error: ([^\n]*(?:\n(?!\S*(?:error|warning|info):)[^\n]*){0,6})', text)
        failing = sorted(set(re.findall(r'(\S+\.lean):\d+:\d+: error', text)))
        ctx.broke('proof', prop_mod, 'lake build failed: ' + '; '.join(failing) + '\n' + '\n'.join(errs[:6]))
        # try to find out how many still elaborate: conservative — none counted as discharged for failing files
        bad_mods = {f.replace('/', '.').removesuffix('.lean').lstrip('.') for f in failing}
        ctx.discharged = sum(1 for m, k, n in all_decls if not any(b.endswith(m) or m.endswith(b) for b in bad_mods)
                             and m != prop_mod)
        ctx.notes['lake_output_tail'] = text[-1500:]
        return False
    if re.search(r"declaration uses 'sorry'", text):
        ctx.broke('proof', prop_mod, "a declaration uses 'sorry'")
    # parse axioms: lines "'X' depends on axioms: [a, b]" / "'X' does not depend on any axioms"
    # lake replays stored logs only for failing/warn; so query lean directly for the audit output
    rc2, out2, err2 = sh(['lake', 'env', 'lean', lean_file(audit_mod)], cwd=LEAN, timeout=1200)
    txt = (out2 + err2).replace('\n  ', ' ')
    for m in re.finditer(r"'([^']+)' depends on axioms: \[([^\]]*)\]", txt):
        ctx.axioms[m.group(1)] = sorted(a.strip() for a in m.group(2).replace('\n', ' ').split(',') if a.strip())
    for m in re.finditer(r"'([^']+)' does not depend on any axioms", txt):
        ctx.axioms[m.group(1)] = []
    missing = [t for t in thms if not any(k == t or k.endswith('.' + t) for k in ctx.axioms)]
    if rc2 != 0 or missing:
        ctx.broke('proof', audit_mod, f'axiom audit incomplete rc={rc2} missing={missing[:5]} {err2[-500:]}')
    for t, ax in ctx.axioms.items():
        extra = set(ax) - STD_AXIOMS
        if extra:
            ctx.broke('proof', t, f'non-standard axioms {sorted(extra)}')
    ctx.discharged = ctx.obligations if not any(b['kind'] == 'proof' for b in ctx.broken) else 0
    return True


def step_leanchecker(ctx, prop_mod):
    rc, out, err = sh(['lake', 'env', 'leanchecker', prop_mod], cwd=LEAN, timeout=3000)
    ctx.notes['leanchecker'] = dict(rc=rc, tail=(out + err)[-300:])
    if rc != 0:
        ctx.broke('proof', prop_mod, 'leanchecker rejected: ' + (out + err)[-800:])


def write_replay(prop, payload):
    d = os.path.join(VERIF, 'replays', prop)
    os.makedirs(d, exist_ok=True)
    s = json.dumps(payload, indent=1, sort_keys=True, default=str)
    h = hashlib.sha1(s.encode()).hexdigest()[:12]
    path = os.path.join(d, h + '.json')
    open(path, 'w').write(s)
    return os.path.relpath(path, VERIF)


def write_evidence(ctx, mod, violations, checker_cmd):
    cov = dict(
        obligations=max(ctx.obligations, 1), discharged=ctx.discharged,
        checker_cmd=checker_cmd,
        trusted_base=[
            'Lean 4.33.0 kernel; axioms per theorem listed under axioms (subset of propext, Classical.choice, Quot.sound); no native_decide/bv_decide/sorry',
            'harness/extract.py (AST extraction of /repo facts into Generated/*.lean)',
            'harness correspondence (line protocol, canonicalisation) and generators; NumPy/SciPy/sciris/pandas semantics as used',
        ] + list(getattr(mod, 'TRUSTED', [])),
        evaluations=ctx.cases, distinct_nontrivial=len(ctx.distinct),
        rule=getattr(mod, 'RULE', 'cases generated from VERIF_SEED; distinct = distinct canonical case hash; non-trivial = exercises a non-default branch of the model'),
        samples=ctx.samples or ['<no correspondence case was run>'],
        axioms=ctx.axioms, extracted_facts=ctx.extracted, counters=ctx.counters,
        broken_ties=[dict(kind=b['kind'], name=b['name'], detail=b['detail'][:300]) for b in ctx.broken],
        known_findings_replayed={k: v['n'] for k, v in ctx.known_hit.items()},
    )
    cov.update(ctx.notes)
    ev = dict(property_id=ctx.prop, tier=ctx.tier, seed=ctx.seed, level='proof', coverage=cov,
              assumptions=list(getattr(mod, 'ASSUMPTIONS', [])) + ['theorems are about the Lean model; the tie to /repo is the regenerated files plus the sampled correspondence'],
              wall_s=round(time.time() - ctx.t0, 2), violations=violations)
    os.makedirs(os.path.join(VERIF, 'evidence'), exist_ok=True)
    open(os.path.join(VERIF, 'evidence', ctx.prop + '.json'), 'w').write(json.dumps(ev, indent=1, default=str))


def run_check(prop, tier, seed, replay=None):
    mod = importlib.import_module(f'harness.props.{prop.lower()}')
    ctx = Ctx(prop, tier, seed)
    if replay:
        data = json.load(open(replay))
        fails = mod.replay(ctx, data.get('data', data))
        print(f'replay {replay}: property {"FAILS" if fails else "holds"} on this input')
        return 1 if fails else 0
    prop_mod = f'{PKG}.Props.{prop}'
    global LEAN
    private = None
    if os.environ.get('STARSIM_REPO') and os.path.realpath(os.environ['STARSIM_REPO']) != os.path.realpath('/repo'):
        # Testing against a scratch tree: work in a PRIVATE copy of the Lean project (sources + compiled files), so the
        # facts regenerated from that tree never reach the shared lean/ directory that checks of /repo use concurrently.
        import tempfile, shutil
        private = tempfile.mkdtemp(prefix=f'verif_lean_{prop}_')
        sh(['cp', '-a', os.path.join(VERIF, 'lean') + '/.', private])
        LEAN = private
    try:
        return _run_check_locked(mod, ctx, prop, prop_mod, tier, seed)
    finally:
        if private:
            import shutil
            LEAN = os.path.join(VERIF, 'lean')
            shutil.rmtree(private, ignore_errors=True)


class _BuildLock:
    """ serialises the short extract + build phase of runs that share one Lean directory (all of them regenerate the same
        files from the same /repo, so the correspondence and search phases need no lock) """
    def __enter__(self):
        self.f = open(os.path.join(LEAN, '.verif.lock'), 'w')
        fcntl.flock(self.f, fcntl.LOCK_EX)
        _RUN_LOCK_HELD[0] = True
    def __exit__(self, *a):
        _RUN_LOCK_HELD[0] = False
        fcntl.flock(self.f, fcntl.LOCK_UN)


def _run_check_locked(mod, ctx, prop, prop_mod, tier, seed):
    with _BuildLock():
        step_extract(ctx, getattr(mod, 'GENERATED', []))
        step_prove(ctx, prop_mod)
        if ctx.thorough and not ctx.broken:
            step_leanchecker(ctx, prop_mod)
        # drivers need the model oleans
        drv = getattr(mod, 'DRIVER_MODULES', [])
        if drv:
            rc, out, err = sh(['lake', 'build'] + drv, cwd=LEAN, timeout=3000)
            if rc != 0:
                ctx.broke('proof', ','.join(drv), 'model modules failed to build: ' + (out + err)[-1500:])
    # correspondence
    try:
        mod.correspond(ctx)
    except DriverError as e:
        ctx.broke('correspondence', 'driver', str(e))
    except Infra:
        raise
    except Exception as e:
        ctx.broke('correspondence', 'harness-exception', traceback.format_exc()[-3000:])
    # oracle on the real code (small budget always; larger when something broke)
    try:
        mod.search(ctx)
    except Infra:
        raise
    except Exception as e:
        ctx.broke('search', 'oracle-exception', traceback.format_exc()[-3000:])
    # every recorded finding is re-run on the real code on every run: a `finding` that still fails prints
    # KNOWN-FINDING; a `fixed` entry that fails again is an ordinary violation (a fixed entry suppresses nothing)
    for k in ctx.known:
        if not k.get('replay') or k['id'] in ctx.known_hit:
            continue
        try:
            fails = bool(mod.replay(ctx, k['replay']))
        except Exception as e:
            fails = None
            ctx.notes.setdefault('known_replay_errors', {})[k['id']] = f'{type(e).__name__}: {e}'
        ctx.notes.setdefault('known_replays', {})[k['id']] = dict(kind=k['kind'], fails=fails)
        if fails and k['kind'] == 'finding':
            ctx.known_hit[k['id']] = dict(entry=k, n=1, example=k['replay'])
        elif fails and k['kind'] == 'fixed':
            ctx.fail(dict(k['signature'], regression_of=k['id']), 'a repaired defect is back: ' + k['what'], k['replay'])
    # report
    nviol = 0
    for kid, hit in sorted(ctx.known_hit.items()):
        print(f"KNOWN-FINDING: property={prop} {hit['entry']['what']} [{kid}; {hit['n']} occurrence(s) this run]")
    for f in ctx.failures:
        path = write_replay(prop, dict(property=prop, kind='failing-input', signature=f['signature'], what=f['what'],
                                       data=f['data'], how=f'./check {prop} --replay <this file>'))
        print(f"VIOLATION property={prop} replay={path}")
        print(f"  {f['what']}"[:400])
        nviol += 1
    if ctx.broken and not ctx.failures:
        path = write_replay(prop, dict(property=prop, kind='broken-tie', no_failing_input_found=True,
                                       broken=[dict(kind=b['kind'], name=b['name'], detail=b['detail'], data=b['data']) for b in ctx.broken],
                                       note='the named theorem / extraction / correspondence no longer checks; the search on the real code found no input on which the property itself fails'))
        print(f"VIOLATION property={prop} replay={path} no-failing-input-found")
        for b in ctx.broken[:5]:
            print(f"  broken {b['kind']}: {b['name']}: {b['detail'][:300]}")
        nviol += 1
    checker = f'cd lean && lake build {prop_mod} {PKG}.Audit.{prop} && lake env lean {PKG}/Audit/{prop}.lean' + (
        f' && lake env leanchecker {prop_mod}' if ctx.thorough else '')
    write_evidence(ctx, mod, nviol, checker)
    print(f'{prop} tier={tier} seed={seed}: obligations={ctx.obligations} discharged={ctx.discharged} cases={ctx.cases} '
          f'distinct={len(ctx.distinct)} broken={len(ctx.broken)} failures={len(ctx.failures)} known={len(ctx.known_hit)} '
          f'wall={time.time()-ctx.t0:.1f}s')
    return 1 if nviol else 0


def setup():
    """ MANIFEST.setup_cmd: regenerate Generated/*.lean, build every claimed property's Lean modules """
    from harness import extract
    res = extract.run_all(REPO, os.path.join(LEAN, PKG, 'Generated'))
    bad = {k: v['error'] for k, v in res.items() if not v['ok']}
    if bad:
        print('extractors failing (reported by the checks that depend on them):', bad)
    man = json.load(open(os.path.join(VERIF, 'MANIFEST.json')))
    targets = []
    for c in man['checks']:
        pid = c['property_id']
        targets.append(f'{PKG}.Props.{pid}')
        try:
            mod = importlib.import_module(f'harness.props.{pid.lower()}')
            targets += list(getattr(mod, 'DRIVER_MODULES', []))
        except Exception as e:
            print(f'cannot import harness.props.{pid.lower()}: {e}')
    targets = sorted(set(targets))
    lock = open(os.path.join(LEAN, '.verif.lock'), 'w')
    fcntl.flock(lock, fcntl.LOCK_EX)
    rc, out, err = sh(['lake', 'build'] + targets, cwd=LEAN, timeout=7200)
    if rc != 0:
        print('lake build of all targets failed; building one by one')
        for t in targets:
            rc1, o1, e1 = sh(['lake', 'build', t], cwd=LEAN, timeout=7200)
            print(f'  {t}: rc={rc1}')
    print(f'setup: built {len(targets)} Lean targets (rc={rc})')
    # warm numba's cache / import starsim once
    try:
        import starsim as ss
        ss.Sim(n_agents=50, dur=2, diseases='sis', networks='random', verbose=0).run()
    except Exception as e:
        print('warm-up sim failed:', e)
    return 0


def main(argv):
    ap = argparse.ArgumentParser()
    ap.add_argument('prop')
    ap.add_argument('--tier', default=os.environ.get('VERIF_TIER', 'quick'))
    ap.add_argument('--replay')
    a = ap.parse_args(argv)
    seed = int(os.environ.get('VERIF_SEED', '0') or 0)
    if a.prop == 'setup':
        return setup()
    try:
        return run_check(a.prop.upper(), a.tier, seed, a.replay)
    except Infra as e:
        print(f'INFRASTRUCTURE ERROR: {e}', file=sys.stderr)
        return 2
    except subprocess.TimeoutExpired as e:
        print(f'INFRASTRUCTURE ERROR: timeout {e}', file=sys.stderr)
        return 2
