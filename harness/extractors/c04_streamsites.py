"""
C04 — where library code touches a distribution's stream other than through the loop operations of Model/Rng.lean.

Generated/StreamSites.lean
  directSites   : List (file, class.function, follow-up code)
        every call made directly on a distribution's generator (`<recv>.rng.<method>(...)`) outside distributions.py, with
        the next stream operation issued on the same receiver later in the same function:
        1 = plain `recv.jump()` (no target, not forced, default or positive literal delta)      — advances to a fresh state
        2 = `recv.reset(...)`                                                                    — goes back to a saved state
        3 = any other stream call (jump with a target / force, jump_dt, init)
        0 = none
  handoffSites  : List (file, class.function)      the generator object passed on as a value (`x = recv.rng`)
  nonLoopSites  : List (file, class.function, op)  every stream operation outside distributions.py that is not a loop
        operation of the model: `reset(...)` on a distribution, or init / jump / jump_dt with a `force` that is not
        literally False.
Props/C04.lean: C04_direct_sites_advance, C04_direct_sites_no_reuse, C04_library_nonloop_ops.
"""
import ast, os, re
from harness.extract import generator, ExtractError, unparse, lean_str
from harness.extractors.globalreads import SCAN_FILES, all_py

STREAM_OPS = ('jump', 'jump_dt', 'reset', 'init')
DISTLIKE = re.compile(r'(dist|rng|^d$|^m$)', re.I)


def _pos(n):
    return (n.lineno, n.col_offset)


def _functions(tree):
    """ (qualified name, node) of every function, methods as Class.method; nested functions belong to their parent """
    out = []
    for n in tree.body:
        if isinstance(n, (ast.FunctionDef, ast.AsyncFunctionDef)):
            out.append((n.name, n))
        elif isinstance(n, ast.ClassDef):
            for m in n.body:
                if isinstance(m, (ast.FunctionDef, ast.AsyncFunctionDef)):
                    out.append((f'{n.name}.{m.name}', m))
    return out


def _kw(call, name):
    for k in call.keywords:
        if k.arg == name: return k.value
    return None


def _is_false(v):
    return v is None or (isinstance(v, ast.Constant) and v.value in (False, None, 0))


def _plain_jump(call):
    """ recv.jump() / recv.jump(delta=<positive literal>): forward by construction """
    if call.args: return False
    for k in call.keywords:
        if k.arg == 'delta' and isinstance(k.value, ast.Constant) and isinstance(k.value.value, int) and k.value.value > 0: continue
        if k.arg == 'force' and _is_false(k.value): continue
        if k.arg == 'to' and isinstance(k.value, ast.Constant) and k.value.value is None: continue
        return False
    return True


@generator('StreamSites', [f for f in SCAN_FILES if f != 'starsim/distributions.py'])
def gen_stream_sites(src):
    present = set(all_py(src.repo))
    extra = [f for f in present if f not in SCAN_FILES and os.path.basename(f) not in ('__init__.py', 'version.py', 'calibration.py', 'samples.py')]
    if extra:
        raise ExtractError(f'source files not covered by the stream-site scan: {extra}')
    direct, handoff, nonloop = [], [], []
    for rel in SCAN_FILES:
        if rel == 'starsim/distributions.py':
            continue       # the Dist API itself is the model (Model/Rng.lean), compared call by call
        tree = src.tree(rel)
        for qn, fn in _functions(tree):
            calls = [n for n in ast.walk(fn) if isinstance(n, ast.Call)]
            stream_calls = sorted([c for c in calls if isinstance(c.func, ast.Attribute) and c.func.attr in STREAM_OPS], key=_pos)
            direct_calls = set()
            for c in sorted(calls, key=_pos):
                f = c.func
                if isinstance(f, ast.Attribute) and isinstance(f.value, ast.Attribute) and f.value.attr == 'rng':
                    recv = unparse(f.value.value)
                    direct_calls.add(id(f.value))
                    nxt = [s for s in stream_calls if unparse(s.func.value) == recv and _pos(s) > _pos(c)]
                    if not nxt: code = 0
                    elif nxt[0].func.attr == 'jump' and _plain_jump(nxt[0]): code = 1
                    elif nxt[0].func.attr == 'reset': code = 2
                    else: code = 3
                    direct.append((rel, qn, code, unparse(c)[:80], unparse(nxt[0]) if nxt else None))
            for n in ast.walk(fn):
                if isinstance(n, ast.Attribute) and n.attr == 'rng' and isinstance(n.ctx, ast.Load) and id(n) not in direct_calls:
                    handoff.append((rel, qn, unparse(n)))
            for s in stream_calls:
                recv = unparse(s.func.value)
                if s.func.attr == 'reset':
                    if DISTLIKE.search(recv):
                        nonloop.append((rel, qn, 'reset', unparse(s)))
                elif s.func.attr in ('jump', 'jump_dt', 'init'):
                    fv = _kw(s, 'force')
                    if fv is not None and not _is_false(fv):
                        nonloop.append((rel, qn, s.func.attr, unparse(s)))
    def lst(rows, f):
        return '[' + ', '.join(f(r) for r in rows) + ']'
    body = f'''namespace StarsimModel.Gen.Stream
/-- every call made directly on a distribution's generator (`recv.rng.method(...)`) outside distributions.py:
    (file, function, follow-up code: 1 = plain `recv.jump()`, 2 = `recv.reset(...)`, 3 = other stream call, 0 = none) -/
def directSites : List (String × String × Nat) := {lst(direct, lambda r: f'({lean_str(r[0])}, {lean_str(r[1])}, {r[2]})')}
/-- the generator object handed on as a value -/
def handoffSites : List (String × String) := {lst(handoff, lambda r: f'({lean_str(r[0])}, {lean_str(r[1])})')}
/-- stream operations issued outside distributions.py that are not loop operations (reset; init / jump / jump_dt with force) -/
def nonLoopSites : List (String × String × String) := {lst(nonloop, lambda r: f'({lean_str(r[0])}, {lean_str(r[1])}, {lean_str(r[2])})')}
end StarsimModel.Gen.Stream
'''
    facts = dict(direct=[list(r) for r in direct], handoff=[list(r) for r in handoff], nonloop=[list(r) for r in nonloop])
    return body, facts
