"""
Extractor for Generated/LoopFacts.lean (C08, C09):

* `Sim.modules`: the order of the containers chained together (an intervention's `product` counted as `products`);
* every write to a clock `….t.ti` in `Sim` and `Module` methods (class, method, target, operator, amount): the model
  assumes that `finish_step` is the only increment and `Sim.run` the only decrement;
* `Loop.collect_abs_tvecs`: which time vector each owner is scheduled on (`people` follow the sim's);
* the run-once guards: which `Sim` methods raise `AlreadyRunError` under which condition, in source order;
* the stop condition of `Loop.run` and where the cursor is advanced.

Pure AST; fails closed (ExtractError) on anything outside the supported subset.
"""
import ast
from harness.extract import generator, ExtractError, lean_str, unparse


def _ti_writes(src, rel, cls):
    out = []
    c = src.cls(rel, cls)
    for fn in c.body:
        if not isinstance(fn, ast.FunctionDef):
            continue
        for n in ast.walk(fn):
            if isinstance(n, ast.AugAssign) and unparse(n.target).endswith('.t.ti'):
                if not isinstance(n.value, ast.Constant) or not isinstance(n.value.value, int):
                    raise ExtractError(f'{cls}.{fn.name}: clock update by a non-literal amount: {unparse(n)}')
                op = {ast.Add: '+', ast.Sub: '-'}.get(type(n.op))
                if op is None:
                    raise ExtractError(f'{cls}.{fn.name}: unsupported clock update {unparse(n)}')
                out.append((cls, fn.name, unparse(n.target), op, int(n.value.value)))
            elif isinstance(n, ast.Assign) and any(unparse(t).endswith('.t.ti') for t in n.targets):
                # `x.t.ti = x.t.ti + 1` is the same update written out
                tgt = unparse(n.targets[0]); v = n.value
                if len(n.targets) == 1 and isinstance(v, ast.BinOp) and type(v.op) in (ast.Add, ast.Sub) and \
                        isinstance(v.right, ast.Constant) and isinstance(v.right.value, int) and unparse(v.left) == tgt:
                    out.append((cls, fn.name, tgt, '+' if isinstance(v.op, ast.Add) else '-', int(v.right.value)))
                elif len(n.targets) == 1 and isinstance(v, ast.BinOp) and isinstance(v.op, ast.Add) and \
                        isinstance(v.left, ast.Constant) and isinstance(v.left.value, int) and unparse(v.right) == tgt:
                    out.append((cls, fn.name, tgt, '+', int(v.left.value)))
                else:
                    raise ExtractError(f'{cls}.{fn.name}: direct assignment to a clock: {unparse(n)}')
    return out


def _canon_stop(test):
    """ Canonical text of the stop condition: comparisons oriented as `a > b` / `a >= b` """
    def canon(n):
        if isinstance(n, ast.BoolOp):
            return (' and ' if isinstance(n.op, ast.And) else ' or ').join(canon(v) for v in n.values)
        if isinstance(n, ast.Compare) and len(n.ops) == 1:
            a, b = unparse(n.left), unparse(n.comparators[0])
            op = type(n.ops[0])
            if op is ast.Gt: return f'{a} > {b}'
            if op is ast.Lt: return f'{b} > {a}'
            if op is ast.GtE: return f'{a} >= {b}'
            if op is ast.LtE: return f'{b} >= {a}'
        return unparse(n)
    return canon(test)


@generator('LoopFacts', ['starsim/sim.py', 'starsim/modules.py', 'starsim/loop.py'])
def gen(src):
    # --- Sim.modules
    fn = src.func('starsim/sim.py', 'modules', 'Sim')
    ret = [n for n in fn.body if isinstance(n, ast.Return)]
    if len(ret) != 1 or not (isinstance(ret[0].value, ast.Call) and unparse(ret[0].value.func) == 'itertools.chain'):
        raise ExtractError('Sim.modules is not `return itertools.chain(...)`')
    chain = []
    for a in ret[0].value.args:
        if isinstance(a, ast.Call) and isinstance(a.func, ast.Attribute) and unparse(a.func.value) == 'self' and not a.args:
            chain.append(a.func.attr)
        elif isinstance(a, ast.ListComp) and unparse(a.elt) == 'intv.product' and len(a.generators) == 1 and \
                unparse(a.generators[0].iter) == 'self.interventions()':
            chain.append('products')
        else:
            raise ExtractError(f'Sim.modules: unsupported chain element {unparse(a)[:80]}')
    # --- clock writes
    writes = _ti_writes(src, 'starsim/sim.py', 'Sim') + _ti_writes(src, 'starsim/modules.py', 'Module') + \
        _ti_writes(src, 'starsim/loop.py', 'Loop')
    # --- collect_abs_tvecs
    fn = src.func('starsim/loop.py', 'collect_abs_tvecs', 'Loop')
    tv = []
    for st in fn.body:
        if isinstance(st, ast.For):
            it = unparse(st.iter)
            for inner in st.body:
                if not (isinstance(inner, ast.Assign) and unparse(inner.targets[0]).startswith('self.abs_tvecs[')):
                    raise ExtractError(f'collect_abs_tvecs: unsupported statement {unparse(inner)[:80]}')
                key = unparse(inner.targets[0])[len('self.abs_tvecs['):-1]
                if it.startswith('['):
                    for k in ast.literal_eval(it):
                        tv.append((k, unparse(inner.value)))
                else:
                    tv.append((f'{it}:{key}', unparse(inner.value)))
        elif isinstance(st, (ast.Expr, ast.Return)) or (isinstance(st, ast.Assign) and unparse(st.targets[0]) in ('self.abs_tvecs', 'sim')):
            continue
        else:
            raise ExtractError(f'collect_abs_tvecs: unsupported statement {unparse(st)[:80]}')
    # --- run-once guards: `if <cond>: ... raise AlreadyRunError(...)` per Sim method
    guards = []
    c = src.cls('starsim/sim.py', 'Sim')
    for fn in c.body:
        if not isinstance(fn, ast.FunctionDef):
            continue
        for n in ast.walk(fn):
            if isinstance(n, ast.If):
                raises = [r for r in ast.walk(n) if isinstance(r, ast.Raise) and r.exc is not None and 'AlreadyRunError' in unparse(r.exc)]
                direct = [r for r in n.body if isinstance(r, ast.Raise) and r.exc is not None and 'AlreadyRunError' in unparse(r.exc)]
                if direct:
                    guards.append((fn.name, unparse(n.test)))
    # Sim.run: errormsg set under `if self.complete:` then raised under `if errormsg:`
    run = src.func('starsim/sim.py', 'run', 'Sim')
    run_guard = None
    for n in ast.walk(run):
        if isinstance(n, ast.If) and any(isinstance(b, ast.Assign) and unparse(b.targets[0]) == 'errormsg' for b in n.body):
            run_guard = unparse(n.test)
    if run_guard is not None and ('run', 'errormsg') in guards:
        guards = [(m, run_guard if (m, g) == ('run', 'errormsg') else g) for m, g in guards]
    # --- Loop.run stop condition
    lrun = src.func('starsim/loop.py', 'run', 'Loop')
    stops = [_canon_stop(n.test) for n in ast.walk(lrun) if isinstance(n, ast.If) and any(isinstance(b, ast.Break) for b in n.body)]
    if len(stops) != 1:
        raise ExtractError(f'Loop.run: expected exactly one `if …: break`, found {stops}')
    # --- collect_funcs with the loop variable abstracted (renaming a loop variable is harmless; reordering is not)
    cf = src.func('starsim/loop.py', 'collect_funcs', 'Loop')
    lrows = []

    def appended(st, var, cont):
        if not (isinstance(st, ast.AugAssign) and isinstance(st.op, ast.Add) and unparse(st.target) == 'self'
                and isinstance(st.value, ast.Attribute)):
            raise ExtractError(f'collect_funcs: unsupported statement {unparse(st)[:80]}')
        obj = unparse(st.value.value)
        if var is not None and obj != var:
            raise ExtractError(f'collect_funcs: loop over {cont} appends a method of {obj}')
        return obj, st.value.attr

    for st in cf.body:
        if isinstance(st, ast.Expr) and isinstance(st.value, ast.Constant): continue
        if isinstance(st, ast.Return): continue
        if isinstance(st, ast.Assign):
            if (unparse(st.targets[0]), unparse(st.value)) in (('self.funcs', '[]'), ('sim', 'self.sim')): continue
            raise ExtractError(f'collect_funcs: unsupported assignment {unparse(st)[:80]}')
        if isinstance(st, ast.AugAssign):
            obj, meth = appended(st, None, None)
            lrows.append((obj, meth, ''))
        elif isinstance(st, ast.For) and not st.orelse and isinstance(st.target, ast.Name):
            var = st.target.id; cont = unparse(st.iter)
            for inner in st.body:
                guard = ''
                if isinstance(inner, ast.If):
                    if inner.orelse or len(inner.body) != 1:
                        raise ExtractError('collect_funcs: unsupported if')
                    # abstract the loop variable in the guard
                    class R(ast.NodeTransformer):
                        def visit_Name(self, n):
                            return ast.copy_location(ast.Name(id='_', ctx=n.ctx), n) if n.id == var else n
                    import copy as _copy
                    guard = unparse(R().visit(_copy.deepcopy(inner.test)))
                    inner = inner.body[0]
                obj, meth = appended(inner, var, cont)
                lrows.append((cont, meth, guard))
        else:
            raise ExtractError(f'collect_funcs: unsupported statement {unparse(st)[:80]}')
    # --- Loop.__iadd__: the key under which a function's time vector is looked up, and its order
    ia = src.func('starsim/loop.py', '__iadd__', 'Loop')
    key_expr = None; order_expr = None
    for n in ast.walk(ia):
        if isinstance(n, ast.Assign) and unparse(n.targets[0]) == 'module':
            key_expr = unparse(n.value)
        if isinstance(n, ast.Call) and unparse(n.func) == 'dict':
            for kwd in n.keywords:
                if kwd.arg == 'func_order': order_expr = unparse(kwd.value)
                if kwd.arg == 'module' and unparse(kwd.value) != 'module':
                    raise ExtractError('__iadd__: row module is not the computed key')
    if key_expr is None or order_expr is None:
        raise ExtractError('__iadd__: owner key / func_order not found')
    # make_plan: the time vector is looked up by that key
    mp = src.func('starsim/loop.py', 'make_plan', 'Loop')
    lookups = [unparse(n.iter) for n in ast.walk(mp) if isinstance(n, ast.For)]
    if "self.abs_tvecs[func_row['module']]" not in lookups:
        raise ExtractError(f'make_plan: time vectors are not looked up by the row\'s module key: {lookups}')
    rows = lambda items: ',\n  '.join('(' + ', '.join(lean_str(str(x)) for x in it) + ')' for it in items)
    body = f'''namespace StarsimModel.Gen
/-- `Sim.modules`: containers chained, in order -/
def modulesChain : List String := [{', '.join(lean_str(c) for c in chain)}]
/-- every `….t.ti` update in Sim / Module / Loop methods: (class, method, target, operator, amount) -/
def tiWrites : List (String × String × String × String × String) := [
  {rows(writes)}]
/-- `Loop.collect_abs_tvecs`: (owner key, time vector used) -/
def absTvecs : List (String × String) := [
  {rows(tv)}]
/-- `Sim` methods that raise `AlreadyRunError`, with their condition -/
def alreadyRunGuards : List (String × String) := [
  {rows(guards)}]
/-- `Loop.run`: the condition of its only `break` -/
def loopRunStop : String := {lean_str(stops[0])}
/-- `Loop.collect_funcs` with the loop variable abstracted to `_`: (container, method, guard) in source order -/
def loopRows : List (String × String × String) := [
  {rows(lrows)}]
/-- `Loop.__iadd__`: the key of `abs_tvecs` a function is scheduled on, and its `func_order` -/
def iaddOwnerKey : String := {lean_str(key_expr)}
def iaddFuncOrder : String := {lean_str(order_expr)}
end StarsimModel.Gen
'''
    return body, dict(chain=chain, ti_writes=[list(map(str, w)) for w in writes], abs_tvecs=[list(t) for t in tv],
                      guards=[list(g) for g in guards], stop=stops[0], rows=[list(r) for r in lrows], owner_key=key_expr, func_order=order_expr)
