"""
DeliveryConsts: facts of starsim/interventions.py that the C20 theorems depend on (DESIGN 3.3), failing closed.

* RoutineDelivery.init_pre : `adj_factor = int(1/dt) - K if dt < T else C`  -> adjThreshold T, adjFineSub K, adjCoarse C;
                             how it is used (`end_point = findfirst(yearvec, end_year) + adj_factor`,
                             `timepoints = inclusiverange(start_point, end_point)`);
                             the annual -> per-step conversion expression, translated to a small expression tree.
* BaseScreening/BaseTriage/BaseVaccination.step : the gate `<x> in self.timepoints` and that delivery happens only under it.
* treat_num.get_candidates : the capacity slice `self.queue[:self.max_capacity (+/- k)]`.
* BaseVaccination.step / BaseTest.deliver / BaseTreatment.get_accept_inds / BaseTreatment.step : where the eligible agents
  they work with come from (`self.check_eligibility()` called there = fresh, an attribute kept on the object = stored), and that
  Intervention.check_eligibility evaluates the rule and reads nothing else kept on the object.
"""
import ast
from harness.extract import generator, ExtractError, lean_rat, lit_rat, unparse

REL = 'starsim/interventions.py'


def _assigns(fn, target):
    return [n for n in ast.walk(fn) if isinstance(n, ast.Assign) and len(n.targets) == 1 and unparse(n.targets[0]) == target]


_DT = ['dt']


def _pexpr(n):
    """ Python expression over self.prob / dt -> Lean PExpr term """
    if isinstance(n, ast.Constant) and isinstance(n.value, (int, float)) and not isinstance(n.value, bool):
        v = lit_rat(n)
        if v == 1: return '.one'
        return f'(.const {lean_rat(v)})'
    if isinstance(n, ast.Attribute) and unparse(n) == 'self.prob': return '.p'
    if isinstance(n, ast.Name) and n.id == _DT[0]: return '.dt'
    if isinstance(n, ast.BinOp):
        a, b = _pexpr(n.left), _pexpr(n.right)
        if isinstance(n.op, ast.Sub): return f'(.sub {a} {b})'
        if isinstance(n.op, ast.Add): return f'(.add {a} {b})'
        if isinstance(n.op, ast.Mult): return f'(.mul {a} {b})'
        if isinstance(n.op, ast.Div): return f'(.div {a} {b})'
        if isinstance(n.op, ast.Pow): return f'(.pow {a} {b})'
    if isinstance(n, ast.Call) and unparse(n.func) in ('np.power', 'numpy.power') and len(n.args) == 2 and not n.keywords:
        return f'(.pow {_pexpr(n.args[0])} {_pexpr(n.args[1])})'
    raise ExtractError(f'probability conversion: unsupported expression {unparse(n)[:80]}')


def _counter(fn, node):
    """ Which step counter an expression denotes: 'simTi' (sim.ti), 'ownTi' (self.ti), 'timeObj' (sim.t); local names are
        resolved through their single assignment in the function """
    txt = unparse(node)
    if isinstance(node, ast.Name):
        a = [n for n in ast.walk(fn) if isinstance(n, ast.Assign) and len(n.targets) == 1 and unparse(n.targets[0]) == txt]
        if len(a) != 1:
            raise ExtractError(f'{fn.name}: cannot resolve the local name `{txt}` used as a step index')
        return _counter(fn, a[0].value)
    if txt in ('sim.ti', 'self.sim.ti'): return 'simTi'
    if txt in ('self.ti', 'self.t.ti'): return 'ownTi'
    if txt in ('sim.t', 'self.sim.t', 'self.t'): return 'timeObj'
    raise ExtractError(f'{fn.name}: unsupported step index expression `{txt}`')


def _lookup_counter(fn):
    """ the counter used in `sc.findinds(self.timepoints, <x>)[0]` (the coverage look-up), or None if there is none """
    kinds = []
    for n in ast.walk(fn):
        if isinstance(n, ast.Call) and unparse(n.func) in ('sc.findinds', 'sc.findfirst') and len(n.args) >= 2 and unparse(n.args[0]) == 'self.timepoints':
            kinds.append(_counter(fn, n.args[1]))
    if len(set(kinds)) > 1:
        raise ExtractError(f'{fn.name}: coverage look-ups use different step counters {kinds}')
    return kinds[0] if kinds else None


def _gate(src, cls, deliver_calls, lookup_fns):
    """ The `if <x> in self.timepoints` of cls.step; every delivering call must be inside its body; the coverage
        look-up must use the same counter as the gate """
    fn = src.func(REL, 'step', cls)
    gates = [n for n in ast.walk(fn) if isinstance(n, ast.If) and isinstance(n.test, ast.Compare)
             and len(n.test.ops) == 1 and isinstance(n.test.ops[0], ast.In) and unparse(n.test.comparators[0]) == 'self.timepoints']
    if len(gates) != 1:
        raise ExtractError(f'{cls}.step: expected exactly one `if <x> in self.timepoints` gate, found {len(gates)}')
    g = gates[0]
    if g.orelse:
        raise ExtractError(f'{cls}.step: the timepoints gate has an else branch')
    kind = _counter(fn, g.test.left)
    inside = {id(n) for st in g.body for n in ast.walk(st)}
    found = 0
    for n in ast.walk(fn):
        if isinstance(n, ast.Call) and unparse(n.func) in deliver_calls:
            found += 1
            if id(n) not in inside:
                raise ExtractError(f'{cls}.step: `{unparse(n.func)}` is called outside the timepoints gate')
    if not found:
        raise ExtractError(f'{cls}.step: no delivering call ({deliver_calls}) found')
    for c2, f2 in lookup_fns:
        lk = _lookup_counter(src.func(REL, f2, c2))
        if lk is None:
            raise ExtractError(f'{c2}.{f2}: coverage look-up `sc.findinds(self.timepoints, <step>)` not found')
        if kind != 'timeObj' and lk != kind:
            raise ExtractError(f'{cls}.step gates on {kind} but {c2}.{f2} looks the coverage up with {lk}')
    return kind, unparse(g.test)


def _elig_src(fn, node, depth=0):
    """ Where an expression used as "the eligible agents" comes from: 'fresh' = (a local name all of whose assignments in the
        function are) the call `self.check_eligibility()`; 'stored' = some path reads an attribute of the object instead """
    if isinstance(node, ast.Call) and unparse(node.func) == 'self.check_eligibility' and not node.args and not node.keywords:
        return 'fresh'
    if isinstance(node, ast.Attribute) and unparse(node).startswith('self.'):
        return 'stored'
    if isinstance(node, ast.Name) and depth < 4:
        a = [n for n in ast.walk(fn) if isinstance(n, (ast.Assign, ast.AugAssign, ast.AnnAssign, ast.NamedExpr))
             and any(isinstance(t, ast.Name) and t.id == node.id for t in ast.walk(n.targets[0] if isinstance(n, ast.Assign) else n.target))]
        if not a or any(not isinstance(n, ast.Assign) or len(n.targets) != 1 or not isinstance(n.targets[0], ast.Name) for n in a):
            raise ExtractError(f'{fn.name}: cannot resolve the eligibility expression `{node.id}`')
        kinds = {_elig_src(fn, n.value, depth + 1) for n in a}
        return 'fresh' if kinds == {'fresh'} else 'stored'
    raise ExtractError(f'{fn.name}: unsupported source of the eligible agents `{unparse(node)[:80]}`')


def _filter_src(src, cls, fname):
    """ the source of the argument of the single `self.coverage_dist.filter(<eligible>)` call of cls.fname """
    fn = src.func(REL, fname, cls)
    calls = [n for n in ast.walk(fn) if isinstance(n, ast.Call) and unparse(n.func) == 'self.coverage_dist.filter']
    if len(calls) != 1 or len(calls[0].args) != 1 or calls[0].keywords:
        raise ExtractError(f'{cls}.{fname}: expected exactly one `self.coverage_dist.filter(<eligible>)` call')
    return _elig_src(fn, calls[0].args[0])


def _recheck_src(src):
    """ BaseTreatment.step: the treated are `<candidates> ∩ <eligible>`; returns the source of <eligible> """
    fn = src.func(REL, 'step', 'BaseTreatment')
    adm = [n for n in ast.walk(fn) if isinstance(n, ast.Call) and unparse(n.func) == 'self.product.administer']
    if len(adm) != 1 or len(adm[0].args) != 1:
        raise ExtractError('BaseTreatment.step: expected one `self.product.administer(<treated>)` call')
    t = adm[0].args[0]
    if isinstance(t, ast.Name):
        a = _assigns(fn, t.id)
        if len(a) != 1:
            raise ExtractError(f'BaseTreatment.step: cannot resolve the treated uids `{t.id}`')
        t = a[0].value
    if isinstance(t, ast.Call) and isinstance(t.func, ast.Attribute) and t.func.attr == 'intersect' and len(t.args) == 1 and not t.keywords:
        parts = [t.func.value, t.args[0]]
    elif isinstance(t, ast.Call) and unparse(t.func) in ('np.intersect1d', 'numpy.intersect1d') and len(t.args) == 2:
        parts = list(t.args)
    else:
        raise ExtractError(f'BaseTreatment.step: the treated uids are not an intersection of candidates and eligible: {unparse(t)[:80]}')
    def is_cand(n):
        if isinstance(n, ast.Name):
            a = _assigns(fn, n.id)
            return len(a) == 1 and is_cand(a[0].value)
        return isinstance(n, ast.Call) and unparse(n.func) == 'self.get_candidates'
    cands = [x for x in parts if is_cand(x)]
    if len(cands) != 1:
        raise ExtractError('BaseTreatment.step: one side of the intersection must be `self.get_candidates()`')
    other = [x for x in parts if x is not cands[0]][0]
    return _elig_src(fn, other)


def _rule_call(src):
    """ Intervention.check_eligibility evaluates the rule (`self.eligibility(self.sim)`) and reads nothing else kept on the object """
    fn = src.func(REL, 'check_eligibility', 'Intervention')
    calls = [n for n in ast.walk(fn) if isinstance(n, ast.Call) and unparse(n) in ('self.eligibility(self.sim)', 'self.eligibility(sim)')]
    if len(calls) != 1:
        raise ExtractError('Intervention.check_eligibility: the call of the eligibility rule was not found')
    roots = {n.attr for n in ast.walk(fn) if isinstance(n, ast.Attribute) and isinstance(n.value, ast.Name) and n.value.id == 'self'}
    if not roots <= {'eligibility', 'sim'}:
        raise ExtractError(f'Intervention.check_eligibility reads object attributes other than the rule and the sim: {sorted(roots)}')
    if any(isinstance(n, (ast.Assign, ast.AugAssign)) and any(isinstance(t, ast.Attribute) for t in ast.walk(n.targets[0] if isinstance(n, ast.Assign) else n.target))
           for n in ast.walk(fn)):
        raise ExtractError('Intervention.check_eligibility writes to an attribute')


@generator('DeliveryConsts', [REL])
def gen(src):
    # ---- adj_factor ----  (found by shape, not by the local variable names)
    ip = src.func(REL, 'init_pre', 'RoutineDelivery')
    a = [n for n in ast.walk(ip) if isinstance(n, ast.Assign) and len(n.targets) == 1 and isinstance(n.targets[0], ast.Name)
         and isinstance(n.value, ast.IfExp)]
    if len(a) != 1:
        raise ExtractError('RoutineDelivery.init_pre: `<adj> = <a> if <test> else <b>` not found')
    adj_name = a[0].targets[0].id
    ife = a[0].value
    t = ife.test
    if not (isinstance(t, ast.Compare) and len(t.ops) == 1 and isinstance(t.ops[0], ast.Lt) and isinstance(t.left, ast.Name)):
        raise ExtractError(f'adj_factor: unsupported test {unparse(t)}')
    dt_name = t.left.id
    thr = lit_rat(t.comparators[0])
    b = ife.body
    if not (isinstance(b, ast.BinOp) and isinstance(b.op, ast.Sub) and unparse(b.left) in (f'int(1 / {dt_name})', f'int(1.0 / {dt_name})')):
        raise ExtractError(f'adj_factor: unsupported fine-step branch {unparse(b)}')
    fine = lit_rat(b.right)
    coarse = lit_rat(ife.orelse)
    if fine.denominator != 1 or coarse.denominator != 1:
        raise ExtractError('adj_factor: non-integer constants')
    dts = _assigns(ip, dt_name)
    if len(dts) != 1 or unparse(dts[0].value) not in ('sim.pars.dt', 'self.sim.pars.dt'):
        raise ExtractError('RoutineDelivery.init_pre: dt is not sim.pars.dt')
    yv = [unparse(x.value) for x in _assigns(ip, 'yearvec')]
    uses = {k: [unparse(x.value) for x in _assigns(ip, k)] for k in ('self.start_point', 'self.end_point', 'self.timepoints')}
    want = {'self.start_point': ['sc.findfirst(yearvec, self.start_year)'],
            'self.end_point': [f'sc.findfirst(yearvec, self.end_year) + {adj_name}'],
            'self.timepoints': ['sc.inclusiverange(self.start_point, self.end_point)']}
    if uses != want or yv != ['sim.t.yearvec']:
        raise ExtractError(f'RoutineDelivery.init_pre: start/end point computation changed: {uses}')
    # the intervention's own year vector (abscissae of the interpolated probability vector)
    yvs = [x.value for x in _assigns(ip, 'self.yearvec')]
    if len(yvs) != 1:
        raise ExtractError('RoutineDelivery.init_pre: self.yearvec assignment not found')
    ytxt = unparse(yvs[0])
    if ytxt == f'np.arange(self.start_year, self.end_year + {adj_name}, {dt_name})':
        vec_per_tp = False
    elif ytxt in (f'self.start_year + np.arange(len(self.timepoints)) * {dt_name}', f'self.start_year + {dt_name} * np.arange(len(self.timepoints))'):
        vec_per_tp = True
    else:
        raise ExtractError(f'RoutineDelivery.init_pre: unsupported self.yearvec expression {ytxt}')
    # ---- probability conversion ----
    conv = None
    for n in ast.walk(ip):
        if isinstance(n, ast.If) and unparse(n.test) == 'self.annual_prob':
            if len(n.body) != 1 or n.orelse or not isinstance(n.body[0], ast.Assign) or unparse(n.body[0].targets[0]) != 'self.prob':
                raise ExtractError('RoutineDelivery.init_pre: unsupported annual_prob block')
            conv = n.body[0].value
    if conv is None:
        raise ExtractError('RoutineDelivery.init_pre: `if self.annual_prob: self.prob = ...` not found')
    _DT[0] = dt_name
    conv_lean = _pexpr(conv)
    # ---- gates ----
    g_scr, s_scr = _gate(src, 'BaseScreening', ('self.deliver',), [('BaseTest', 'deliver')])
    g_tri, s_tri = _gate(src, 'BaseTriage', ('self.deliver',), [('BaseTest', 'deliver')])
    g_vx, s_vx = _gate(src, 'BaseVaccination', ('self.product.administer', 'self.coverage_dist.filter'), [('BaseVaccination', 'step')])
    # ---- capacity slice ----
    gc = src.func(REL, 'get_candidates', 'treat_num')
    slices = [n for n in ast.walk(gc) if isinstance(n, ast.Subscript) and unparse(n.value) == 'self.queue' and isinstance(n.slice, ast.Slice)]
    offs = []
    for s in slices:
        if s.slice.lower is not None or s.slice.step is not None:
            raise ExtractError(f'get_candidates: unsupported slice {unparse(s)}')
        up = s.slice.upper
        if up is None:
            continue
        if unparse(up) == 'self.max_capacity':
            offs.append(0)
        elif isinstance(up, ast.BinOp) and unparse(up.left) == 'self.max_capacity' and isinstance(up.op, (ast.Add, ast.Sub)):
            k = lit_rat(up.right)
            if k.denominator != 1: raise ExtractError('get_candidates: non-integer slice offset')
            offs.append(int(k) if isinstance(up.op, ast.Add) else -int(k))
        else:
            raise ExtractError(f'get_candidates: unsupported slice bound {unparse(up)}')
    if len(offs) != 1:
        raise ExtractError(f'get_candidates: expected one capacity slice, found {len(offs)}')
    tests = [unparse(n.test) for n in ast.walk(gc) if isinstance(n, ast.If)]
    ok_tests = ('self.max_capacity is None or self.max_capacity > len(self.queue)',
                'self.max_capacity is None or self.max_capacity >= len(self.queue)',
                'self.max_capacity is None')
    if not any(t in ok_tests for t in tests):
        raise ExtractError(f'get_candidates: unsupported capacity test {tests}')
    # ---- which evaluation of the eligibility rule each delivering function works with ----
    _rule_call(src)
    e_vx = _filter_src(src, 'BaseVaccination', 'step')
    e_test = _filter_src(src, 'BaseTest', 'deliver')
    e_acc = _filter_src(src, 'BaseTreatment', 'get_accept_inds')
    e_re = _recheck_src(src)
    body = f'''namespace StarsimModel.Gen
/-- `RoutineDelivery.init_pre`: `adj_factor = int(1/dt) - adjFineSub if dt < adjThreshold else adjCoarse` -/
def adjThreshold : Rat := {lean_rat(thr)}
def adjFineSub : Int := {int(fine)}
def adjCoarse : Int := {int(coarse)}
/-- `self.yearvec` has one entry per time point (false: `np.arange(start_year, end_year + adj_factor, dt)`) -/
def vecPerTimepoint : Bool := {str(vec_per_tp).lower()}
/-- expressions over the annual probability `p` and the step `dt` -/
inductive PExpr
  | p | dt | one
  | const (c : Rat)
  | add (a b : PExpr) | sub (a b : PExpr) | mul (a b : PExpr) | div (a b : PExpr) | pow (a b : PExpr)
/-- `if self.annual_prob: self.prob = {unparse(conv)}` -/
def probConversion : PExpr := {conv_lean}
/-- which step counter a `step` tests against `self.timepoints` (positions on the SIM's time vector) and looks the coverage up with:
    `sim.ti`, the module's own `self.ti`, or the Time object `sim.t` (never an element) -/
inductive GateKind
  | simTi | ownTi | timeObj
  deriving DecidableEq, Repr
def gateScreening : GateKind := .{g_scr}
def gateTriage : GateKind := .{g_tri}
def gateVaccination : GateKind := .{g_vx}
/-- `treat_num.get_candidates`: `self.queue[:self.max_capacity + capSliceOffset]` -/
def capSliceOffset : Int := {offs[0]}
/-- where the eligible agents a delivering function works with come from: `self.check_eligibility()` called in that function
    (`fresh`) or an attribute kept on the object (`stored`); `BaseVaccination.step`, `BaseTest.deliver`,
    `BaseTreatment.get_accept_inds` (argument of `coverage_dist.filter`), `BaseTreatment.step` (the set the candidates are intersected with) -/
inductive EligSrcKind
  | fresh | stored
  deriving DecidableEq, Repr
def eligSrcVaccination : EligSrcKind := .{e_vx}
def eligSrcTest : EligSrcKind := .{e_test}
def eligSrcTreatAccept : EligSrcKind := .{e_acc}
def eligSrcTreatRecheck : EligSrcKind := .{e_re}
end StarsimModel.Gen
'''
    facts = dict(adj_threshold=str(thr), adj_fine_sub=int(fine), adj_coarse=int(coarse), vec_per_timepoint=vec_per_tp, yearvec_expr=ytxt, prob_conversion=unparse(conv),
                 gate_screening=s_scr, gate_triage=s_tri, gate_vaccination=s_vx,
                 gate_screening_kind=g_scr, gate_triage_kind=g_tri, gate_vaccination_kind=g_vx, cap_slice_offset=offs[0],
                 elig_src_vaccination=e_vx, elig_src_test=e_test, elig_src_treat_accept=e_acc, elig_src_treat_recheck=e_re)
    return body, facts
