"""
Extractor for C16: the time-scaling expressions of the built-in hazard functions, as source text (ast.unparse),
restricted to a closed vocabulary (anything else is an ExtractError = broken tie).

Generated/HazardExprs.lean (all `String`):
  birthsTimeParFactor / birthsNumberFactor      Births.get_births:  `factor = ...` in the TimePar / else branch
  deathsTimeParFactor / deathsNumberFactor      Deaths.make_death_prob_fn: same
  fertilityNumberFactor                         Pregnancy.make_fertility_prob_fn: `time_factor = ...`
  ageingIncrement                               People.update_post: `self.age[...] += <expr>`
  deliveryDt / deliveryConversion               RoutineDelivery.init_pre: `dt = ...`, `self.prob = 1 - (1 - self.prob) ** dt`
  netBetaExponent                               SexualNetwork-style net_beta exponent (MFNet): `self.edges.acts[inds] * self.t.dt`
The product expressions (`rate * rate_units * rel * factor`) are checked for shape.
"""
import ast
from harness.extract import generator, ExtractError, lean_str, unparse

YEAR_RATIO = "ss.time_ratio(unit1=self.t.unit, dt1=self.t.dt, unit2='year', dt2=1.0)"
FACTORS = {'1.0', '1', 'self.t.dt', YEAR_RATIO, 'sim.t.dt_year', 'self.t.dt_year'}


def _factor_if(fn, test_src):
    """ find `if <test>: X = A  else: X = B` (any local name X) and return (A, B, X) as source text """
    for n in ast.walk(fn):
        if isinstance(n, ast.If) and unparse(n.test) == test_src and len(n.body) == 1 and len(n.orelse) == 1:
            a, b = n.body[0], n.orelse[0]
            if all(isinstance(x, ast.Assign) and len(x.targets) == 1 and isinstance(x.targets[0], ast.Name) for x in (a, b)) \
                    and a.targets[0].id == b.targets[0].id:
                return unparse(a.value), unparse(b.value), a.targets[0].id
    raise ExtractError(f'{fn.name}: `if {test_src}: X = ... else: X = ...` not found')


def _mult_leaves(node):
    """ the factors of a product, order-insensitive """
    if isinstance(node, ast.BinOp) and isinstance(node.op, ast.Mult):
        return _mult_leaves(node.left) + _mult_leaves(node.right)
    return [unparse(node)]


def _product_with(fn, var, want, where):
    """ some assignment in fn is a pure product whose factors are `want` + [var]; the next use is np.clip(.., 0, 1) """
    for n in ast.walk(fn):
        if isinstance(n, ast.Assign) and isinstance(n.value, ast.BinOp) and sorted(_mult_leaves(n.value)) == sorted(want + [var]):
            return unparse(n.targets[0])
    raise ExtractError(f'{where}: no product of {want + [var]} found')


def _clipped(fn, name, where):
    for n in ast.walk(fn):
        if isinstance(n, ast.Call) and unparse(n.func) == 'np.clip' and n.args and unparse(n.args[0]).startswith(name):
            kws = {k.arg: unparse(k.value) for k in n.keywords}
            rest = [unparse(a) for a in n.args[1:]]
            if (kws.get('a_min', rest[0] if rest else None), kws.get('a_max', rest[1] if len(rest) > 1 else None)) == ('0', '1'):
                return
    raise ExtractError(f'{where}: np.clip({name}, 0, 1) not found')


def _assign(fn, target):
    vals = [unparse(n.value) for n in ast.walk(fn) if isinstance(n, ast.Assign) and len(n.targets) == 1 and unparse(n.targets[0]) == target]
    return vals


def _check(name, expr):
    if expr not in FACTORS:
        raise ExtractError(f'{name}: time-scaling expression `{expr}` is outside the supported vocabulary {sorted(FACTORS)}')
    return expr


@generator('HazardExprs', ['starsim/demographics.py', 'starsim/people.py', 'starsim/interventions.py', 'starsim/networks.py'])
def gen_hazard_exprs(src):
    demo = 'starsim/demographics.py'
    gb = src.func(demo, 'get_births', 'Births')
    b_tp, b_num, var = _factor_if(gb, 'isinstance(this_birth_rate, ss.TimePar)')
    _clipped(gb, _product_with(gb, var, ['this_birth_rate', 'p.rate_units', 'p.rel_birth'], 'Births.get_births'), 'Births.get_births')
    dp = src.func(demo, 'make_death_prob_fn', 'Deaths')
    d_tp, d_num, var = _factor_if(dp, 'isinstance(death_rate, ss.TimePar)')
    _clipped(dp, _product_with(dp, var, ['death_rate', 'self.pars.rate_units', 'self.pars.rel_death'], 'Deaths.make_death_prob_fn'), 'Deaths.make_death_prob_fn')
    fp = src.func(demo, 'make_fertility_prob_fn', 'Pregnancy')
    tf = _assign(fp, 'time_factor')
    if len(tf) != 2 or tf[1] != '1':
        raise ExtractError(f'Pregnancy.make_fertility_prob_fn: time_factor assignments changed: {tf}')
    _product_with(fp, 'time_factor', ['fertility_rate', 'self.pars.rate_units', 'self.pars.rel_fertility'], 'Pregnancy.make_fertility_prob_fn')
    up = src.func('starsim/people.py', 'update_post', 'People')
    inc = [unparse(n.value) for n in ast.walk(up) if isinstance(n, ast.AugAssign) and isinstance(n.op, ast.Add)
           and unparse(n.target) == 'self.age[self.alive.uids]']
    if len(inc) != 1:
        raise ExtractError('People.update_post: `self.age[self.alive.uids] += ...` not found')
    ip = src.func('starsim/interventions.py', 'init_pre', 'RoutineDelivery')
    ddt = _assign(ip, 'dt')
    if len(ddt) != 1 or ddt[0] not in ('sim.pars.dt', 'sim.t.dt', 'sim.t.dt_year', 'self.t.dt_year'):
        raise ExtractError(f'RoutineDelivery.init_pre: `dt = ...` changed: {ddt}')
    conv = None
    for n in ast.walk(ip):
        if isinstance(n, ast.If) and unparse(n.test) == 'self.annual_prob' and len(n.body) == 1 and isinstance(n.body[0], ast.Assign):
            conv = unparse(n.body[0].value)
    if conv not in ('1 - (1 - self.prob) ** dt',):
        raise ExtractError(f'RoutineDelivery.init_pre: annual-probability conversion changed: {conv}')
    nb = None
    for cls in ('MFNet', 'SexualNetwork'):
        try:
            f = src.func('starsim/networks.py', 'net_beta', cls)
        except ExtractError:
            continue
        for n in ast.walk(f):
            if isinstance(n, ast.Return):
                nb = unparse(n.value)
        break
    want = 'self.edges.beta[inds] * (1 - (1 - disease_beta) ** (self.edges.acts[inds] * self.t.dt))'
    if nb != want:
        raise ExtractError(f'net_beta of the sexual network changed: {nb}')
    # DynamicNetwork.end_pairs: dur = dur - <decrement>; kept while dur > 0
    ep = src.func('starsim/networks.py', 'end_pairs', 'DynamicNetwork')
    dec = None
    for n in ast.walk(ep):
        if isinstance(n, ast.Assign) and unparse(n.targets[0]) == 'self.edges.dur' and isinstance(n.value, ast.BinOp) and isinstance(n.value.op, ast.Sub) \
                and unparse(n.value.left) == 'self.edges.dur':
            dec = unparse(n.value.right)
        if isinstance(n, ast.AugAssign) and unparse(n.target) == 'self.edges.dur' and isinstance(n.op, ast.Sub):
            dec = unparse(n.value)
    if dec not in ('self.t.dt',):
        raise ExtractError(f'DynamicNetwork.end_pairs: edge duration decrement changed: {dec}')
    if not any(isinstance(n, ast.Compare) and unparse(n) == 'self.edges.dur > 0' for n in ast.walk(ep)):
        raise ExtractError('DynamicNetwork.end_pairs: `self.edges.dur > 0` keep condition not found')
    # Pregnancy: the table row is the year nearest to now - dur_pregnancy (in years)
    fy = [unparse(n.value) for n in ast.walk(fp) if isinstance(n, ast.Assign) and unparse(n.targets[0]) == 'year_ind']
    if fy != ["sc.findnearest(frd.index, self.t.now('year') - self.pars.dur_pregnancy.to('year'))"]:
        raise ExtractError(f'Pregnancy.make_fertility_prob_fn: year lookup changed: {fy}')
    facts = dict(edgeDecrement=dec, birthsTimeParFactor=_check('Births.get_births', b_tp), birthsNumberFactor=_check('Births.get_births', b_num),
                 deathsTimeParFactor=_check('Deaths.make_death_prob_fn', d_tp), deathsNumberFactor=_check('Deaths.make_death_prob_fn', d_num),
                 fertilityNumberFactor=_check('Pregnancy.make_fertility_prob_fn', tf[0]),
                 ageingIncrement=_check('People.update_post', inc[0]),
                 deliveryDt=ddt[0], deliveryConversion=conv, netBetaExponent='self.edges.acts[inds] * self.t.dt')
    defs = '\n'.join(f'def {k} : String := {lean_str(v)}' for k, v in facts.items())
    body = f'''namespace StarsimModel.Gen
/-- the year-ratio expression, for comparison -/
def yearRatioExpr : String := {lean_str(YEAR_RATIO)}
{defs}
end StarsimModel.Gen
'''
    return body, facts


# ---------------------------------------------------------------------------
# Round 3: how per-unit-time parameters are WRITTEN and consumed
#
# Generated/TimeDecls.lean
#   wrapLost        TimePar.__new__ (the branch wrapping an ss.Dist): keywords of the caller that do NOT reach the TimePar built
#                   for the distribution's first parameter = names captured by the signature and not forwarded in `cls(<par>, ...)`
#   shortcuts       ss.days / years / perday / peryear: (function, class, unit) and whether v / parent_unit / parent_dt are forwarded
#   poolBetaTest / poolBetaField   MixingPool.step: `if isinstance(beta, <T>): beta = beta.<field>`
#   builtinDecls    every time-parameter declaration in define_pars(...) of the built-in modules:
#                   (class, parameter, form plain|inside|wrapped, TimePar kind, declared unit or "~", parameter name starts with dur_)
# facts also carry the declared VALUE (exact source arithmetic) for the oracle.

TIME = 'starsim/time.py'
NETS = 'starsim/networks.py'
DECL_FILES = ['starsim/diseases/sir.py', 'starsim/diseases/cholera.py', 'starsim/diseases/ebola.py', 'starsim/diseases/measles.py', 'starsim/diseases/hiv.py',
              'starsim/diseases/gonorrhea.py', 'starsim/diseases/ncd.py', 'starsim/diseases/syphilis.py', 'starsim/demographics.py', NETS]
TP_CLASSES = ('dur', 'rate', 'time_prob', 'rate_prob', 'beta')


def _num(node):
    """ constant arithmetic of the source as a float (None when it is not constant arithmetic) """
    if isinstance(node, ast.Constant) and isinstance(node.value, (int, float)) and not isinstance(node.value, bool):
        return float(node.value)
    if isinstance(node, ast.UnaryOp) and isinstance(node.op, ast.USub):
        x = _num(node.operand); return None if x is None else -x
    if isinstance(node, ast.BinOp) and isinstance(node.op, (ast.Add, ast.Sub, ast.Mult, ast.Div)):
        a, b = _num(node.left), _num(node.right)
        if a is None or b is None: return None
        if isinstance(node.op, ast.Add): return a + b
        if isinstance(node.op, ast.Sub): return a - b
        if isinstance(node.op, ast.Mult): return a * b
        return a / b if b != 0 else None
    return None


def _ss_call(node):
    """ `ss.<name>(...)` / `<name>(...)` -> name """
    if isinstance(node, ast.Call):
        if isinstance(node.func, ast.Attribute) and isinstance(node.func.value, ast.Name) and node.func.value.id == 'ss': return node.func.attr
        if isinstance(node.func, ast.Name): return node.func.id
    return None


def _shortcuts(src):
    out = {}
    for name in ('days', 'years', 'perday', 'peryear'):
        fn = src.func(TIME, name)
        rets = [n for n in ast.walk(fn) if isinstance(n, ast.Return)]
        if len(rets) != 1 or _ss_call(rets[0].value) not in TP_CLASSES:
            raise ExtractError(f'time.{name}: expected a single `return <TimePar class>(...)`')
        call = rets[0].value
        params = [a.arg for a in fn.args.args]
        kws = {k.arg: k.value for k in call.keywords}
        pos = call.args
        first = kws.get('v', pos[0] if pos else None)
        unit = kws.get('unit', pos[1] if len(pos) > 1 else None)
        if not (isinstance(unit, ast.Constant) and isinstance(unit.value, str)):
            raise ExtractError(f'time.{name}: the unit handed to {_ss_call(call)} is not a string literal')
        fwd_v = isinstance(first, ast.Name) and params and first.id == params[0]
        fwd_parent = all(isinstance(kws.get(k), ast.Name) and kws[k].id == k for k in ('parent_unit', 'parent_dt') if k in params)
        out[name] = dict(cls=_ss_call(call), unit=unit.value, forwards_v=bool(fwd_v), forwards_parent=bool(fwd_parent))
    return out


def _wrap_lost(src):
    new = src.func(TIME, '__new__', 'TimePar')
    a = new.args
    names = [x.arg for x in a.posonlyargs + a.args]
    if len(names) < 2:
        raise ExtractError(f'TimePar.__new__: signature changed: {names}')
    captured = names[2:] + [x.arg for x in a.kwonlyargs]      # everything after (cls, v) is taken out of **kwargs
    vname = names[1]
    branch = None
    for n in ast.walk(new):
        if isinstance(n, ast.If) and isinstance(n.test, ast.Call) and unparse(n.test.func) == 'isinstance' and unparse(n.test.args[0]) == vname \
                and 'Dist' in unparse(n.test.args[1]):
            branch = n
    if branch is None:
        raise ExtractError('TimePar.__new__: the `isinstance(v, ss.Dist)` branch was not found')
    calls = [n for b in branch.body for n in ast.walk(b) if isinstance(n, ast.Call) and isinstance(n.func, ast.Name) and n.func.id == new.args.args[0].arg]
    if len(calls) != 1:
        raise ExtractError(f'TimePar.__new__: expected exactly one `cls(...)` call in the distribution branch, found {len(calls)}')
    call = calls[0]
    forwarded = set(); star = False
    for k in call.keywords:
        if k.arg is None: star = True      # **kwargs
        elif isinstance(k.value, ast.Name) and k.value.id == k.arg: forwarded.add(k.arg)
        else: raise ExtractError(f'TimePar.__new__: keyword `{k.arg}={unparse(k.value)}` in the wrapping call is outside the supported forms')
    if len(call.args) != 1 or 'pars' not in unparse(call.args[0]):
        raise ExtractError(f'TimePar.__new__: the wrapping call is `{unparse(call)}`: expected cls(<first distribution parameter>, ...)')
    keys = ['unit', 'parent_unit', 'parent_dt', 'self_dt']
    lost = [k for k in keys if (k in captured and k not in forwarded) or (k not in captured and not star and k not in forwarded)]
    return lost, unparse(call)


def _pool_beta(src):
    st = src.func(NETS, 'step', 'MixingPool')
    found = []
    for n in ast.walk(st):
        if isinstance(n, ast.If) and isinstance(n.test, ast.Call) and unparse(n.test.func) == 'isinstance' and len(n.body) == 1 \
                and isinstance(n.body[0], ast.Assign) and isinstance(n.body[0].value, ast.Attribute):
            tgt = unparse(n.body[0].targets[0]); obj = unparse(n.body[0].value.value)
            if tgt == obj == unparse(n.test.args[0]):
                found.append((unparse(n.test.args[1]), n.body[0].value.attr))
    if len(found) != 1:
        raise ExtractError(f'MixingPool.step: expected one `if isinstance(beta, T): beta = beta.<field>`, found {found}')
    if found[0][1] not in ('values', 'v'):
        raise ExtractError(f'MixingPool.step: beta.{found[0][1]} is outside the supported vocabulary (values, v)')
    return found[0]


def _decls(src, shortcuts):
    tpnames = set(TP_CLASSES) | set(shortcuts)

    def tp_info(call):
        """ (kind, unit, first-argument node) of a TimePar call """
        name = _ss_call(call)
        kws = {k.arg: k.value for k in call.keywords}
        first = kws.get('v', call.args[0] if call.args else None)
        if name in shortcuts:
            return shortcuts[name]['cls'], shortcuts[name]['unit'], first
        unit = kws.get('unit', call.args[1] if len(call.args) > 1 else None)
        if unit is None or (isinstance(unit, ast.Constant) and unit.value is None): u = None
        elif isinstance(unit, ast.Constant) and isinstance(unit.value, str): u = unit.value
        else: raise ExtractError(f'declaration `{unparse(call)}`: unit is not a literal')
        return name, u, first

    out = []
    for rel in DECL_FILES:
        for cls in [n for n in ast.walk(src.tree(rel)) if isinstance(n, ast.ClassDef)]:
            for call in [n for n in ast.walk(cls) if isinstance(n, ast.Call) and unparse(n.func) == 'self.define_pars']:
                for kw in call.keywords:
                    val = kw.value
                    name = _ss_call(val)
                    if name is None: continue
                    if name in tpnames:
                        kind, unit, first = tp_info(val)
                        if first is not None and _ss_call(first) is not None and _ss_call(first) not in tpnames:     # ss.days(ss.lognorm_ex(...))
                            inner = first
                            arg0 = inner.args[0] if inner.args else (inner.keywords[0].value if inner.keywords else None)
                            key0 = None if inner.args else (inner.keywords[0].arg if inner.keywords else None)
                            out.append(dict(cls=cls.name, par=kw.arg, form='wrapped', kind=kind, unit=unit, v=_num(arg0) if arg0 is not None else None,
                                            dist=_ss_call(inner), key=key0, src=unparse(val)))
                        else:
                            out.append(dict(cls=cls.name, par=kw.arg, form='plain', kind=kind, unit=unit, v=_num(first) if first is not None else None,
                                            dist=None, key=None, src=unparse(val)))
                    else:                                                                                            # ss.lognorm_ex(mean=ss.dur(10))
                        args = [(None, a) for a in val.args] + [(k.arg, k.value) for k in val.keywords]
                        for key, a in args:
                            if _ss_call(a) in tpnames:
                                kind, unit, first = tp_info(a)
                                out.append(dict(cls=cls.name, par=kw.arg, form='inside', kind=kind, unit=unit, v=_num(first) if first is not None else None,
                                                dist=name, key=key, src=unparse(val)))
    return out


@generator('TimeDecls', [TIME] + DECL_FILES)
def gen_time_decls(src):
    shortcuts = _shortcuts(src)
    lost, wrapcall = _wrap_lost(src)
    ptest, pfield = _pool_beta(src)
    decls = _decls(src, shortcuts)
    if not decls:
        raise ExtractError('no time-parameter declarations found in the built-in modules')
    opt = lambda u: lean_str('~' if u is None else u)
    rows = ',\n  '.join(f"({lean_str(d['cls'])}, {lean_str(d['par'])}, {lean_str(d['form'])}, {lean_str(d['kind'])}, {opt(d['unit'])}, {'true' if d['par'].startswith('dur_') else 'false'})"
                        for d in decls)
    sc_rows = ', '.join(f"({lean_str(k)}, {lean_str(v['cls'])}, {lean_str(v['unit'])}, {'true' if v['forwards_v'] and v['forwards_parent'] else 'false'})" for k, v in shortcuts.items())
    body = f'''namespace StarsimModel.Gen
/-- `TimePar.__new__`, distribution branch: the wrapping call is `{wrapcall}`; caller keywords that do not reach it -/
def wrapLost : List String := [{', '.join(lean_str(k) for k in lost)}]
/-- `ss.days / years / perday / peryear`: (function, class, unit, forwards v and the parent keywords) -/
def shortcuts : List (String × String × String × Bool) := [{sc_rows}]
/-- `MixingPool.step`: `if isinstance(beta, {ptest}): beta = beta.{pfield}` -/
def poolBetaTest : String := {lean_str(ptest)}
def poolBetaField : String := {lean_str(pfield)}
/-- time-parameter declarations of the built-in modules: (class, parameter, form, kind, declared unit, name starts with dur_) -/
def builtinDecls : List (String × String × String × String × String × Bool) := [
  {rows}]
end StarsimModel.Gen
'''
    facts = dict(wrapLost=lost, wrapCall=wrapcall, shortcuts=shortcuts, poolBetaTest=ptest, poolBetaField=pfield, decls=decls)
    return body, facts


# ---------------------------------------------------------------------------
# Round 4: which step counter schedules / triggers recovery; how Time.init derives the step length in years
#
# Generated/StepClocks.lean
#   sisSchedClock / sisRecoverClock / sirSchedClock / sirRecoverClock   "module" | "sim":
#       set_prognoses: `self.ti_recovered[...] = <clock> + dur_inf`;  step_state: `self.ti_recovered <= <clock>`
#   dtYearNumeric / dtYearDate   "ratio" (time_ratio(date_unit, self.dt, 'year', 1.0)) | "dt" (the raw dt), for a numeric / calendar axis

SIRPY = 'starsim/diseases/sir.py'
MODULE_CLOCKS = {'self.ti', 'self.t.ti'}
SIM_CLOCKS = {'sim.ti', 'self.sim.ti', 'sim.t.ti', 'self.sim.t.ti'}


def _clock_of(node, fn, where):
    from harness.extractors.transmission import local_env
    env = local_env(fn)
    txt = unparse(node)
    for _ in range(4):                                       # resolve single-assignment aliases (`ti = self.t.ti`, `sim = self.sim`)
        if isinstance(node, ast.Name) and env.get(node.id) is not None:
            node = env[node.id]; txt = unparse(node)
        else:
            break
    if isinstance(node, ast.Attribute) and isinstance(node.value, ast.Name) and env.get(node.value.id) is not None:
        txt = unparse(env[node.value.id]) + '.' + node.attr
    if isinstance(node, ast.Attribute) and isinstance(node.value, ast.Attribute) and isinstance(node.value.value, ast.Name) and env.get(node.value.value.id) is not None:
        txt = unparse(env[node.value.value.id]) + '.' + node.value.attr + '.' + node.attr
    if txt in MODULE_CLOCKS: return 'module'
    if txt in SIM_CLOCKS: return 'sim'
    raise ExtractError(f'{where}: step counter `{txt}` is outside the supported vocabulary')


def _recovery_clocks(src, cls):
    st = src.func(SIRPY, 'step_state', cls)
    rec = [n for n in ast.walk(st) if isinstance(n, ast.Compare) and unparse(n.left) == 'self.ti_recovered' and len(n.ops) == 1 and isinstance(n.ops[0], ast.LtE)]
    if len(rec) != 1:
        raise ExtractError(f'{cls}.step_state: expected one `self.ti_recovered <= <step counter>`, found {len(rec)}')
    sp = src.func(SIRPY, 'set_prognoses', cls)
    sch = [n for n in ast.walk(sp) if isinstance(n, ast.Assign) and unparse(n.targets[0]).startswith('self.ti_recovered[') and isinstance(n.value, ast.BinOp) and isinstance(n.value.op, ast.Add)]
    if len(sch) != 1:
        raise ExtractError(f'{cls}.set_prognoses: expected one `self.ti_recovered[...] = <step counter> + <duration>`, found {len(sch)}')
    return _clock_of(sch[0].value.left, sp, f'{cls}.set_prognoses'), _clock_of(rec[0].comparators[0], st, f'{cls}.step_state')


def _dt_year(src):
    init = src.func(TIME, 'init', 'Time')
    vals = [n.value for n in ast.walk(init) if isinstance(n, ast.Assign) and len(n.targets) == 1 and unparse(n.targets[0]) == 'dt_year']
    if len(vals) != 1:
        raise ExtractError(f'Time.init: expected one `dt_year = ...`, found {len(vals)}')
    du = [unparse(n.value) for n in ast.walk(init) if isinstance(n, ast.Assign) and unparse(n.targets[0]) == 'date_unit']
    if du != ["'year' if not has_units(self.unit) else self.unit"]:
        raise ExtractError(f'Time.init: date_unit changed: {du}')

    def kind(n):
        if isinstance(n, ast.Call) and unparse(n.func) in ('time_ratio', 'ss.time_ratio'):
            kws = {k.arg: unparse(k.value) for k in n.keywords}
            for i, a in enumerate(n.args): kws[['unit1', 'dt1', 'unit2', 'dt2'][i]] = unparse(a)
            if (kws.get('unit1'), kws.get('dt1'), kws.get('unit2'), kws.get('dt2', '1.0')) in (('date_unit', 'self.dt', "'year'", '1.0'), ('date_unit', 'self.dt', "'year'", '1')):
                return 'ratio'
        if unparse(n) == 'self.dt': return 'dt'
        raise ExtractError(f'Time.init: dt_year expression `{unparse(n)}` is outside the supported vocabulary')
    v = vals[0]
    if isinstance(v, ast.IfExp):
        t = unparse(v.test)
        if t == 'self.is_numeric': return kind(v.body), kind(v.orelse)
        if t == 'not self.is_numeric': return kind(v.orelse), kind(v.body)
        raise ExtractError(f'Time.init: dt_year depends on `{t}`')
    return kind(v), kind(v)


@generator('StepClocks', [SIRPY, TIME])
def gen_step_clocks(src):
    sis = _recovery_clocks(src, 'SIS'); sir = _recovery_clocks(src, 'SIR')
    num, dat = _dt_year(src)
    facts = dict(sisSchedClock=sis[0], sisRecoverClock=sis[1], sirSchedClock=sir[0], sirRecoverClock=sir[1], dtYearNumeric=num, dtYearDate=dat)
    defs = '\n'.join(f'def {k} : String := {lean_str(v)}' for k, v in facts.items())
    return f'namespace StarsimModel.Gen\n{defs}\nend StarsimModel.Gen\n', facts


# ---------------------------------------------------------------------------
# Round 5: how a user-supplied value is merged into a module parameter whose default is a time parameter
# (`Pars.update` dispatch + `Pars._update_timepar` branch table)

PARS = 'starsim/parameters.py'
NUMBER_NAMES = {'Number', 'numbers.Number', 'int', 'float', 'np.number', 'numbers.Real'}


def _type_names(node, where):
    elts = node.elts if isinstance(node, ast.Tuple) else [node]
    out = []
    for e in elts:
        t = unparse(e)
        if t == 'type(None)': out.append('NoneType'); continue
        if not isinstance(e, (ast.Name, ast.Attribute)):
            raise ExtractError(f'{where}: type test `{t}` is outside the supported vocabulary')
        if t in NUMBER_NAMES: t = 'Number'
        for pre in ('ss.', 'pd.', 'np.'):
            if t.startswith(pre): t = t[len(pre):]
        out.append(t)
    return out


def _upd_action(body, where):
    """ classify the body of one branch of _update_timepar: replace | set | set* | set** | raise | if:<T>:<a>:<b> """
    stmts = [s for s in body if not (isinstance(s, ast.Expr) and isinstance(s.value, ast.Constant))]
    if stmts and isinstance(stmts[-1], ast.Raise): return 'raise'
    if len(stmts) != 1:
        raise ExtractError(f'{where}: branch body has {len(stmts)} statements: `{"; ".join(unparse(s) for s in stmts)}`')
    s = stmts[0]
    if isinstance(s, ast.Assign) and len(s.targets) == 1 and unparse(s.targets[0]) == 'self[key]' and unparse(s.value) == 'new': return 'replace'
    if isinstance(s, ast.Expr) and isinstance(s.value, ast.Call) and unparse(s.value.func) == 'old.set':
        c = s.value
        if len(c.args) == 1 and not c.keywords and unparse(c.args[0]) == 'new': return 'set'
        if not c.args and len(c.keywords) == 1 and c.keywords[0].arg == 'v' and unparse(c.keywords[0].value) == 'new': return 'set'
        if len(c.args) == 1 and not c.keywords and isinstance(c.args[0], ast.Starred) and unparse(c.args[0].value) == 'new': return 'set*'
        if not c.args and len(c.keywords) == 1 and c.keywords[0].arg is None and unparse(c.keywords[0].value) == 'new': return 'set**'
    if isinstance(s, ast.If) and isinstance(s.test, ast.Call) and unparse(s.test.func) == 'isinstance' and unparse(s.test.args[0]) == 'old' and s.orelse:
        ts = _type_names(s.test.args[1], where)
        return f"if:{'|'.join(ts)}:{_upd_action(s.body, where)}:{_upd_action(s.orelse, where)}"
    raise ExtractError(f'{where}: branch `{unparse(s)}` is outside the supported vocabulary')


def _isinstance_chain(node, var, where):
    """ [(type names, body)] of an if / elif chain of `isinstance(<var>, T)` tests; the final else as (['*'], body) """
    out = []
    while True:
        t = node.test
        if isinstance(t, ast.Call) and unparse(t.func) == 'isinstance' and len(t.args) == 2 and unparse(t.args[0]) == var:
            out.append((_type_names(t.args[1], where), node.body))
        elif isinstance(t, ast.Call) and unparse(t.func) == 'callable' and len(t.args) == 1 and unparse(t.args[0]) == var:
            out.append((['callable'], node.body))
        else:
            raise ExtractError(f'{where}: test `{unparse(t)}` is outside the supported vocabulary')
        if len(node.orelse) == 1 and isinstance(node.orelse[0], ast.If):
            node = node.orelse[0]
        else:
            if node.orelse: out.append((['*'], node.orelse))
            return out


@generator('ParsUpdate', [PARS])
def gen_pars_update(src):
    ut = src.func(PARS, '_update_timepar', 'Pars')
    if [a.arg for a in ut.args.args] != ['self', 'key', 'old', 'new']:
        raise ExtractError(f'Pars._update_timepar: signature changed: {[a.arg for a in ut.args.args]}')
    ifs = [s for s in ut.body if isinstance(s, ast.If)]
    other = [s for s in ut.body if not isinstance(s, (ast.If, ast.Return)) and not (isinstance(s, ast.Expr) and isinstance(s.value, ast.Constant))]
    if len(ifs) != 1 or other:
        raise ExtractError('Pars._update_timepar: expected a single if / elif chain on the type of `new`')
    branches = []
    for types, body in _isinstance_chain(ifs[0], 'new', 'Pars._update_timepar'):
        act = _upd_action(body, 'Pars._update_timepar')
        for t in types: branches.append((t, act))
    # dispatch in Pars.update: which handler a parameter whose current value is of type T goes to
    up = src.func(PARS, 'update', 'Pars')
    chain = [n for n in ast.walk(up) if isinstance(n, ast.If) and isinstance(n.test, ast.Call) and unparse(n.test.func) == 'isinstance'
             and unparse(n.test.args[0]) == 'old' and unparse(n.test.args[1]) == 'atomic_classes']
    if len(chain) != 1:
        raise ExtractError('Pars.update: the `isinstance(old, atomic_classes)` dispatch chain was not found')
    node = chain[0]
    node_rest = node.orelse[0] if len(node.orelse) == 1 and isinstance(node.orelse[0], ast.If) else None
    if node_rest is None:
        raise ExtractError('Pars.update: dispatch chain has no elif branches')
    dispatch = [('atomic', 'direct')]
    for types, body in _isinstance_chain(node_rest, 'old', 'Pars.update'):
        stmts = [s for s in body if not (isinstance(s, ast.Expr) and isinstance(s.value, ast.Constant))]
        last = stmts[-1]
        if isinstance(last, ast.Assign) and unparse(last.targets[0]) == 'self[key]' and unparse(last.value) == 'new': h = 'direct'
        elif isinstance(last, ast.Expr) and isinstance(last.value, ast.Call) and unparse(last.value.func).startswith('self._update_') and \
                [unparse(a) for a in last.value.args] == ['key', 'old', 'new']: h = unparse(last.value.func)[len('self.'):]
        elif isinstance(last, ast.Expr) and isinstance(last.value, ast.Call) and unparse(last.value.func) == 'old.update': h = 'recurse'
        else:
            raise ExtractError(f'Pars.update: handler `{unparse(last)}` is outside the supported vocabulary')
        for t in types: dispatch.append((t, h))
    # atomic_classes must not contain a time parameter class (else a TimePar default would be overwritten directly)
    atom = [n.value for n in src.tree(PARS).body if isinstance(n, ast.Assign) and unparse(n.targets[0]) == 'atomic_classes']
    if len(atom) != 1:
        raise ExtractError('atomic_classes: definition not found')
    atomic = _type_names(atom[0], 'atomic_classes')
    rows = lambda l: ', '.join(f'({lean_str(a)}, {lean_str(b)})' for a, b in l)
    body = f'''namespace StarsimModel.Gen
/-- `Pars._update_timepar(key, old, new)`: (type of `new`, action), in source order (first match wins).
    replace = `self[key] = new`; set = `old.set(new)`; set* = `old.set(*new)`; set** = `old.set(**new)` -/
def updBranches : List (String × String) := [{rows(branches)}]
/-- `Pars.update`: (type of the CURRENT value `old`, handler), in source order -/
def updDispatch : List (String × String) := [{rows(dispatch)}]
/-- `atomic_classes` (current values of these types are overwritten directly) -/
def updAtomic : List String := [{', '.join(lean_str(a) for a in atomic)}]
end StarsimModel.Gen
'''
    return body, dict(branches=branches, dispatch=dispatch, atomic=atomic)


# ---------------------------------------------------------------------------
# round 6: what `ss.standardize_data` does to the VALUES of the index columns (reference times, age starts, sex labels) of a data table

UTILS = 'starsim/utils.py'


def _index_target(t):
    """ `index['k']` / `index[k]` / `index.k` -> key text, else None """
    if isinstance(t, ast.Subscript) and unparse(t.value) == 'index':
        return t.slice.value if isinstance(t.slice, ast.Constant) and isinstance(t.slice.value, str) else '*'
    if isinstance(t, ast.Attribute) and unparse(t.value) == 'index':
        return t.attr
    return None


@generator('TableIndex', [UTILS])
def gen_table_index(src):
    fn = src.func(UTILS, 'standardize_data', None)
    ops = []

    def visit(stmts, guard):
        for s in stmts:
            if isinstance(s, (ast.If, ast.For, ast.While, ast.With, ast.Try)):
                g = guard
                if isinstance(s, ast.If): g = guard + [unparse(s.test)]
                for blk in ('body', 'orelse', 'finalbody'):
                    visit(getattr(s, blk, []) or [], g)
                for h in getattr(s, 'handlers', []) or []: visit(h.body, g)
                continue
            targets = []
            if isinstance(s, ast.Assign): targets = s.targets
            elif isinstance(s, (ast.AugAssign, ast.AnnAssign)): targets = [s.target]
            keys = [k for k in (_index_target(t) for t in targets) if k is not None]
            if any(unparse(t) == 'index' for t in targets):
                if isinstance(s, ast.Assign) and unparse(s.value) in ('sc.objdict()', 'dict()', '{}'): continue   # the empty container
                ops.append(('*', 'rewrite')); continue
            for k in keys:
                v = s.value
                txt = unparse(v)
                if isinstance(s, ast.Assign) and isinstance(v, ast.Subscript) and unparse(v.value) == 'data': op = 'copy'          # index[k] = data[col]
                elif isinstance(s, ast.Assign) and isinstance(v, ast.Call) and unparse(v.func) == 'np.full' and any(f"'{k}' not in index" == g for g in guard): op = 'default'
                elif k == 'sex' and isinstance(s, ast.Assign) and isinstance(v, ast.ListComp) and "metadata['sex_keys']" in txt: op = 'map-labels'
                else: op = 'rewrite'
                ops.append((k, op))
            if isinstance(s, ast.Expr) and isinstance(s.value, ast.Call) and isinstance(s.value.func, ast.Attribute) and unparse(s.value.func.value) == 'index':
                c = s.value; m = c.func.attr
                if m == 'insert' and len(c.args) == 3 and isinstance(c.args[1], ast.Constant) and unparse(c.args[2]) == f"index.pop('{c.args[1].value}')":
                    ops.append((c.args[1].value, 'move'))
                else:
                    raise ExtractError(f'standardize_data: `{unparse(s)}` on the index columns is outside the supported vocabulary')

    visit(fn.body, [])
    if not any(op == 'copy' for _, op in ops):
        raise ExtractError('standardize_data: the statement copying the index columns from the data (`index[k] = data[col]`) was not found')
    # the series must be built from the index columns as they stand
    built = [n for n in ast.walk(fn) if isinstance(n, ast.Call) and unparse(n.func) == 'pd.MultiIndex.from_arrays']
    if len(built) != 1 or unparse(built[0].args[0]) != 'index.values()':
        raise ExtractError('standardize_data: `pd.MultiIndex.from_arrays(index.values(), ...)` was not found')
    rows = ', '.join(f'({lean_str(a)}, {lean_str(b)})' for a, b in ops)
    body = f'''namespace StarsimModel.Gen
/-- `ss.standardize_data`: every statement that writes an index column of the table (column key or "*" = all, operation), in source order.
    copy = taken from the data as written; default = filled in only when the column is absent; move = re-ordered; map-labels = sex labels
    mapped through the metadata; rewrite = anything else (the stored values are no longer the written ones) -/
def stdIndexOps : List (String × String) := [{rows}]
end StarsimModel.Gen
'''
    return body, dict(ops=ops)
