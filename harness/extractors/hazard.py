"""
Extractor for C16: the time-scaling expressions of the built-in hazard functions, as source text (ast.unparse),
restricted to a closed vocabulary (anything else is an ExtractError = broken tie).

Generated/HazardExprs.lean (all `String`):
  birthsTimeParFactor / birthsNumberFactor      Births.get_births:  `factor = ...` in the TimePar / else branch
  deathsTimeParFactor / deathsNumberFactor      Deaths.make_death_prob_fn: same
  fertilityNumberFactor                         Pregnancy.make_fertility_prob_fn: `time_factor = ...`
  ageingIncrement                               People.update_post: `self.age[...] += <expr>`
  deliveryDt / deliveryConversion               RoutineDelivery.init_pre: `dt = ...`, `self.prob = 1 - (1 - self.prob) ** dt`
  netBetaExponent                               SexualNetwork-style net_beta exponent (MFNet): `self.edges.acts[inds] * self.t.dt`
The product expressions (`rate * rate_units * rel * factor`) are checked for shape.
"""
import ast
from harness.extract import generator, ExtractError, lean_str, unparse

YEAR_RATIO = "ss.time_ratio(unit1=self.t.unit, dt1=self.t.dt, unit2='year', dt2=1.0)"
FACTORS = {'1.0', '1', 'self.t.dt', YEAR_RATIO, 'sim.t.dt_year', 'self.t.dt_year'}


def _factor_if(fn, test_src):
    """ find `if <test>: X = A  else: X = B` (any local name X) and return (A, B, X) as source text """
    for n in ast.walk(fn):
        if isinstance(n, ast.If) and unparse(n.test) == test_src and len(n.body) == 1 and len(n.orelse) == 1:
            a, b = n.body[0], n.orelse[0]
            if all(isinstance(x, ast.Assign) and len(x.targets) == 1 and isinstance(x.targets[0], ast.Name) for x in (a, b)) \
                    and a.targets[0].id == b.targets[0].id:
                return unparse(a.value), unparse(b.value), a.targets[0].id
    raise ExtractError(f'{fn.name}: `if {test_src}: X = ... else: X = ...` not found')


def _mult_leaves(node):
    """ the factors of a product, order-insensitive """
    if isinstance(node, ast.BinOp) and isinstance(node.op, ast.Mult):
        return _mult_leaves(node.left) + _mult_leaves(node.right)
    return [unparse(node)]


def _product_with(fn, var, want, where):
    """ some assignment in fn is a pure product whose factors are `want` + [var]; the next use is np.clip(.., 0, 1) """
    for n in ast.walk(fn):
        if isinstance(n, ast.Assign) and isinstance(n.value, ast.BinOp) and sorted(_mult_leaves(n.value)) == sorted(want + [var]):
            return unparse(n.targets[0])
    raise ExtractError(f'{where}: no product of {want + [var]} found')


def _clipped(fn, name, where):
    for n in ast.walk(fn):
        if isinstance(n, ast.Call) and unparse(n.func) == 'np.clip' and n.args and unparse(n.args[0]).startswith(name):
            kws = {k.arg: unparse(k.value) for k in n.keywords}
            rest = [unparse(a) for a in n.args[1:]]
            if (kws.get('a_min', rest[0] if rest else None), kws.get('a_max', rest[1] if len(rest) > 1 else None)) == ('0', '1'):
                return
    raise ExtractError(f'{where}: np.clip({name}, 0, 1) not found')


def _assign(fn, target):
    vals = [unparse(n.value) for n in ast.walk(fn) if isinstance(n, ast.Assign) and len(n.targets) == 1 and unparse(n.targets[0]) == target]
    return vals


def _check(name, expr):
    if expr not in FACTORS:
        raise ExtractError(f'{name}: time-scaling expression `{expr}` is outside the supported vocabulary {sorted(FACTORS)}')
    return expr


@generator('HazardExprs', ['starsim/demographics.py', 'starsim/people.py', 'starsim/interventions.py', 'starsim/networks.py'])
def gen_hazard_exprs(src):
    demo = 'starsim/demographics.py'
    gb = src.func(demo, 'get_births', 'Births')
    b_tp, b_num, var = _factor_if(gb, 'isinstance(this_birth_rate, ss.TimePar)')
    _clipped(gb, _product_with(gb, var, ['this_birth_rate', 'p.rate_units', 'p.rel_birth'], 'Births.get_births'), 'Births.get_births')
    dp = src.func(demo, 'make_death_prob_fn', 'Deaths')
    d_tp, d_num, var = _factor_if(dp, 'isinstance(death_rate, ss.TimePar)')
    _clipped(dp, _product_with(dp, var, ['death_rate', 'self.pars.rate_units', 'self.pars.rel_death'], 'Deaths.make_death_prob_fn'), 'Deaths.make_death_prob_fn')
    fp = src.func(demo, 'make_fertility_prob_fn', 'Pregnancy')
    tf = _assign(fp, 'time_factor')
    if len(tf) != 2 or tf[1] != '1':
        raise ExtractError(f'Pregnancy.make_fertility_prob_fn: time_factor assignments changed: {tf}')
    _product_with(fp, 'time_factor', ['fertility_rate', 'self.pars.rate_units', 'self.pars.rel_fertility'], 'Pregnancy.make_fertility_prob_fn')
    up = src.func('starsim/people.py', 'update_post', 'People')
    inc = [unparse(n.value) for n in ast.walk(up) if isinstance(n, ast.AugAssign) and isinstance(n.op, ast.Add)
           and unparse(n.target) == 'self.age[self.alive.uids]']
    if len(inc) != 1:
        raise ExtractError('People.update_post: `self.age[self.alive.uids] += ...` not found')
    ip = src.func('starsim/interventions.py', 'init_pre', 'RoutineDelivery')
    ddt = _assign(ip, 'dt')
    if len(ddt) != 1 or ddt[0] not in ('sim.pars.dt', 'sim.t.dt', 'sim.t.dt_year', 'self.t.dt_year'):
        raise ExtractError(f'RoutineDelivery.init_pre: `dt = ...` changed: {ddt}')
    conv = None
    for n in ast.walk(ip):
        if isinstance(n, ast.If) and unparse(n.test) == 'self.annual_prob' and len(n.body) == 1 and isinstance(n.body[0], ast.Assign):
            conv = unparse(n.body[0].value)
    if conv not in ('1 - (1 - self.prob) ** dt',):
        raise ExtractError(f'RoutineDelivery.init_pre: annual-probability conversion changed: {conv}')
    nb = None
    for cls in ('MFNet', 'SexualNetwork'):
        try:
            f = src.func('starsim/networks.py', 'net_beta', cls)
        except ExtractError:
            continue
        for n in ast.walk(f):
            if isinstance(n, ast.Return):
                nb = unparse(n.value)
        break
    want = 'self.edges.beta[inds] * (1 - (1 - disease_beta) ** (self.edges.acts[inds] * self.t.dt))'
    if nb != want:
        raise ExtractError(f'net_beta of the sexual network changed: {nb}')
    # DynamicNetwork.end_pairs: dur = dur - <decrement>; kept while dur > 0
    ep = src.func('starsim/networks.py', 'end_pairs', 'DynamicNetwork')
    dec = None
    for n in ast.walk(ep):
        if isinstance(n, ast.Assign) and unparse(n.targets[0]) == 'self.edges.dur' and isinstance(n.value, ast.BinOp) and isinstance(n.value.op, ast.Sub) \
                and unparse(n.value.left) == 'self.edges.dur':
            dec = unparse(n.value.right)
        if isinstance(n, ast.AugAssign) and unparse(n.target) == 'self.edges.dur' and isinstance(n.op, ast.Sub):
            dec = unparse(n.value)
    if dec not in ('self.t.dt',):
        raise ExtractError(f'DynamicNetwork.end_pairs: edge duration decrement changed: {dec}')
    if not any(isinstance(n, ast.Compare) and unparse(n) == 'self.edges.dur > 0' for n in ast.walk(ep)):
        raise ExtractError('DynamicNetwork.end_pairs: `self.edges.dur > 0` keep condition not found')
    # Pregnancy: the table row is the year nearest to now - dur_pregnancy (in years)
    fy = [unparse(n.value) for n in ast.walk(fp) if isinstance(n, ast.Assign) and unparse(n.targets[0]) == 'year_ind']
    if fy != ["sc.findnearest(frd.index, self.t.now('year') - self.pars.dur_pregnancy.to('year'))"]:
        raise ExtractError(f'Pregnancy.make_fertility_prob_fn: year lookup changed: {fy}')
    facts = dict(edgeDecrement=dec, birthsTimeParFactor=_check('Births.get_births', b_tp), birthsNumberFactor=_check('Births.get_births', b_num),
                 deathsTimeParFactor=_check('Deaths.make_death_prob_fn', d_tp), deathsNumberFactor=_check('Deaths.make_death_prob_fn', d_num),
                 fertilityNumberFactor=_check('Pregnancy.make_fertility_prob_fn', tf[0]),
                 ageingIncrement=_check('People.update_post', inc[0]),
                 deliveryDt=ddt[0], deliveryConversion=conv, netBetaExponent='self.edges.acts[inds] * self.t.dt')
    defs = '\n'.join(f'def {k} : String := {lean_str(v)}' for k, v in facts.items())
    body = f'''namespace StarsimModel.Gen
/-- the year-ratio expression, for comparison -/
def yearRatioExpr : String := {lean_str(YEAR_RATIO)}
{defs}
end StarsimModel.Gen
'''
    return body, facts
