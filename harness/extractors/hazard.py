"""
Extractor for C16: the time-scaling expressions of the built-in hazard functions, as source text (ast.unparse),
restricted to a closed vocabulary (anything else is an ExtractError = broken tie).

Generated/HazardExprs.lean (all `String`):
  birthsTimeParFactor / birthsNumberFactor      Births.get_births:  `factor = ...` in the TimePar / else branch
  deathsTimeParFactor / deathsNumberFactor      Deaths.make_death_prob_fn: same
  fertilityNumberFactor                         Pregnancy.make_fertility_prob_fn: `time_factor = ...`
  ageingIncrement                               People.update_post: `self.age[...] += <expr>`
  deliveryDt / deliveryConversion               RoutineDelivery.init_pre: `dt = ...`, `self.prob = 1 - (1 - self.prob) ** dt`
  netBetaExponent                               SexualNetwork-style net_beta exponent (MFNet): `self.edges.acts[inds] * self.t.dt`
The product expressions (`rate * rate_units * rel * factor`) are checked for shape.
"""
import ast
from harness.extract import generator, ExtractError, lean_str, unparse

YEAR_RATIO = "ss.time_ratio(unit1=self.t.unit, dt1=self.t.dt, unit2='year', dt2=1.0)"
FACTORS = {'1.0', '1', 'self.t.dt', YEAR_RATIO, 'sim.t.dt_year', 'self.t.dt_year'}


def _factor_if(fn, test_src, target='factor'):
    """ find `if <test>: <target> = A  else: <target> = B` and return (A, B) as source text """
    for n in ast.walk(fn):
        if isinstance(n, ast.If) and unparse(n.test) == test_src and len(n.body) == 1 and len(n.orelse) == 1:
            a, b = n.body[0], n.orelse[0]
            if all(isinstance(x, ast.Assign) and unparse(x.targets[0]) == target for x in (a, b)):
                return unparse(a.value), unparse(b.value)
    raise ExtractError(f'{fn.name}: `if {test_src}: {target} = ... else: {target} = ...` not found')


def _assign(fn, target):
    vals = [unparse(n.value) for n in ast.walk(fn) if isinstance(n, ast.Assign) and len(n.targets) == 1 and unparse(n.targets[0]) == target]
    return vals


def _check(name, expr):
    if expr not in FACTORS:
        raise ExtractError(f'{name}: time-scaling expression `{expr}` is outside the supported vocabulary {sorted(FACTORS)}')
    return expr


@generator('HazardExprs', ['starsim/demographics.py', 'starsim/people.py', 'starsim/interventions.py', 'starsim/networks.py'])
def gen_hazard_exprs(src):
    demo = 'starsim/demographics.py'
    gb = src.func(demo, 'get_births', 'Births')
    b_tp, b_num = _factor_if(gb, 'isinstance(this_birth_rate, ss.TimePar)')
    prod = _assign(gb, 'scaled_birth_prob')
    if not prod or prod[0] != 'this_birth_rate * p.rate_units * p.rel_birth * factor':
        raise ExtractError(f'Births.get_births: product expression changed: {prod}')
    if len(prod) != 2 or prod[1] != 'np.clip(scaled_birth_prob, a_min=0, a_max=1)':
        raise ExtractError(f'Births.get_births: clipping changed: {prod}')
    dp = src.func(demo, 'make_death_prob_fn', 'Deaths')
    d_tp, d_num = _factor_if(dp, 'isinstance(death_rate, ss.TimePar)')
    prod = _assign(dp, 'death_prob')
    if prod != ['death_rate * self.pars.rate_units * self.pars.rel_death * factor', 'np.clip(death_prob, a_min=0, a_max=1)']:
        raise ExtractError(f'Deaths.make_death_prob_fn: product/clip expression changed: {prod}')
    fp = src.func(demo, 'make_fertility_prob_fn', 'Pregnancy')
    tf = _assign(fp, 'time_factor')
    if len(tf) != 2 or tf[1] != '1':
        raise ExtractError(f'Pregnancy.make_fertility_prob_fn: time_factor assignments changed: {tf}')
    prod = _assign(fp, 'fertility_prob')
    if not prod or prod[0] != 'fertility_rate * (self.pars.rate_units * self.pars.rel_fertility) * time_factor':
        raise ExtractError(f'Pregnancy.make_fertility_prob_fn: product expression changed: {prod}')
    up = src.func('starsim/people.py', 'update_post', 'People')
    inc = [unparse(n.value) for n in ast.walk(up) if isinstance(n, ast.AugAssign) and isinstance(n.op, ast.Add)
           and unparse(n.target) == 'self.age[self.alive.uids]']
    if len(inc) != 1:
        raise ExtractError('People.update_post: `self.age[self.alive.uids] += ...` not found')
    ip = src.func('starsim/interventions.py', 'init_pre', 'RoutineDelivery')
    ddt = _assign(ip, 'dt')
    if len(ddt) != 1 or ddt[0] not in ('sim.pars.dt', 'sim.t.dt', 'sim.t.dt_year', 'self.t.dt_year'):
        raise ExtractError(f'RoutineDelivery.init_pre: `dt = ...` changed: {ddt}')
    conv = None
    for n in ast.walk(ip):
        if isinstance(n, ast.If) and unparse(n.test) == 'self.annual_prob' and len(n.body) == 1 and isinstance(n.body[0], ast.Assign):
            conv = unparse(n.body[0].value)
    if conv not in ('1 - (1 - self.prob) ** dt',):
        raise ExtractError(f'RoutineDelivery.init_pre: annual-probability conversion changed: {conv}')
    nb = None
    for cls in ('MFNet', 'SexualNetwork'):
        try:
            f = src.func('starsim/networks.py', 'net_beta', cls)
        except ExtractError:
            continue
        for n in ast.walk(f):
            if isinstance(n, ast.Return):
                nb = unparse(n.value)
        break
    want = 'self.edges.beta[inds] * (1 - (1 - disease_beta) ** (self.edges.acts[inds] * self.t.dt))'
    if nb != want:
        raise ExtractError(f'net_beta of the sexual network changed: {nb}')
    facts = dict(birthsTimeParFactor=_check('Births.get_births', b_tp), birthsNumberFactor=_check('Births.get_births', b_num),
                 deathsTimeParFactor=_check('Deaths.make_death_prob_fn', d_tp), deathsNumberFactor=_check('Deaths.make_death_prob_fn', d_num),
                 fertilityNumberFactor=_check('Pregnancy.make_fertility_prob_fn', tf[0]),
                 ageingIncrement=_check('People.update_post', inc[0]),
                 deliveryDt=ddt[0], deliveryConversion=conv, netBetaExponent='self.edges.acts[inds] * self.t.dt')
    defs = '\n'.join(f'def {k} : String := {lean_str(v)}' for k, v in facts.items())
    body = f'''namespace StarsimModel.Gen
/-- the year-ratio expression, for comparison -/
def yearRatioExpr : String := {lean_str(YEAR_RATIO)}
{defs}
end StarsimModel.Gen
'''
    return body, facts
