"""
C13 — flag writers OUTSIDE the disease classes: the syphilis treatment path

    syph_treatment.step  ->  treat_num.step -> BaseTreatment.step -> Tx.administer(treat_uids)   (product table syph_tx.csv)
                             then  sim.people.syphilis.infected[treat_inds] = False

Generated/Treat_syphilis.lean holds the per-agent function `treat : Gen.Syphilis.Flags -> TreatG -> Flags` obtained by
unrolling `Tx.administer`'s loop over the product's rows (`for state in health_states: pre[eff] = False; post[eff] = True`,
`eff` = efficacy filter of the agents of `uids` currently in `state`; efficacy 0 never succeeds) followed by the
intervention's own write.  The row table is read from the CSV on every run; the three Python methods are checked
structurally (the statements the model depends on must be present, in order, and nothing else may assign into a disease
state) — anything else raises ExtractError.  The model is differential-tested agent by agent against the real
intervention in the treatment scenarios of every run.
"""
import ast, csv, io, re
from harness.extract import generator, ExtractError, lean_str, unparse
from harness.extractors.diseases import DISEASE_CLASSES, mro_of, collect_states, quantifier_instances, lean_ident

FILES = ['starsim/products.py', 'starsim/interventions.py', 'starsim/diseases/syphilis.py', 'starsim/data/products/syph_tx.csv', 'starsim/disease.py']


def stmts(fn):
    return [s for s in fn.body if not (isinstance(s, ast.Expr) and isinstance(s.value, ast.Constant))]


def assigns_into(fn):
    """ source text of every subscript-assignment statement of a function, in order """
    out = []
    for n in ast.walk(fn):
        if isinstance(n, (ast.Assign, ast.AugAssign)):
            tgts = n.targets if isinstance(n, ast.Assign) else [n.target]
            for t in tgts:
                if isinstance(t, ast.Subscript):
                    out.append(unparse(n))
    return out


@generator('Treat_syphilis', FILES)
def gen(src):
    # --- Tx.administer: the only writes are pre[eff] = False ; post[eff] = True, inside `for state in self.health_states`
    adm = src.func('starsim/products.py', 'administer', 'Tx')
    subs = assigns_into(adm)
    if subs != ['pre_tx_state[eff_treat_inds] = False', 'post_tx_state[eff_treat_inds] = True']:
        raise ExtractError(f'Tx.administer: state writes changed: {subs}')
    need = ['pre_tx_state = getattr(disease, state)', 'true_uids = pre_tx_state.uids', 'these_uids = true_uids.intersect(uids)',
            'eff_treat_inds = self.efficacy_dist.filter(these_uids)', 'post_tx_state = getattr(disease, post_tx_state_name)',
            'post_tx_state_name = thisdf.post_state.values[0]', 'self.efficacy_dist.set(p=thisdf.efficacy.values[0])']
    text = [unparse(n) for n in ast.walk(adm) if isinstance(n, (ast.Assign, ast.Expr))]
    for line in need:
        if line not in text:
            raise ExtractError(f'Tx.administer: expected statement `{line}` not found')
    loops = [unparse(n.iter) for n in ast.walk(adm) if isinstance(n, ast.For)]
    if loops != ['self.diseases', 'self.health_states']:
        raise ExtractError(f'Tx.administer: loop structure changed: {loops}')
    init = src.func('starsim/products.py', '__init__', 'Tx')
    if 'self.health_states = df.state.unique()' not in [unparse(n) for n in ast.walk(init) if isinstance(n, ast.Assign)]:
        raise ExtractError('Tx.__init__: health_states is no longer df.state.unique()')
    # --- BaseTreatment.step: administers to treat_uids and returns them; treat_num.step returns the same
    bs = src.func('starsim/interventions.py', 'step', 'BaseTreatment')
    btxt = [unparse(s) for s in stmts(bs)]
    if 'treat_uids = treat_candidates.intersect(still_eligible)' not in btxt or btxt[-1] != 'return treat_uids' \
            or 'self.outcomes = self.product.administer(treat_uids)' not in [unparse(n) for n in ast.walk(bs) if isinstance(n, ast.Assign)]:
        raise ExtractError(f'BaseTreatment.step changed: {btxt}')
    if assigns_into(bs):
        raise ExtractError('BaseTreatment.step writes into an array')
    ts = src.func('starsim/interventions.py', 'step', 'treat_num')
    ttxt = [unparse(s) for s in stmts(ts)]
    if 'treat_inds = BaseTreatment.step(self)' not in ttxt or ttxt[-1] != 'return treat_inds' or assigns_into(ts):
        raise ExtractError(f'treat_num.step changed: {ttxt}')
    # --- syph_treatment.step: the intervention's own flag write
    st = src.func('starsim/diseases/syphilis.py', 'step', 'syph_treatment')
    stxt = [unparse(s) for s in stmts(st)]
    if 'treat_inds = super().step()' not in stxt:
        raise ExtractError(f'syph_treatment.step changed: {stxt}')
    own = []
    for w in assigns_into(st):
        m = re.fullmatch(r'sim\.people\.syphilis\.(\w+)\[treat_inds\] = (True|False)', w)
        if m:
            own.append((m.group(1), m.group(2) == 'True'))
        elif not w.startswith('self.results['):
            raise ExtractError(f'syph_treatment.step: unsupported write `{w}`')
    # --- the product table
    rows = list(csv.DictReader(io.StringIO(src.text('starsim/data/products/syph_tx.csv'))))
    prods = sorted({r['name'] for r in rows})
    mro = mro_of(src, *DISEASE_CLASSES['syphilis'])
    flags, arrs = collect_states(mro)
    props = {}
    for ci in mro:
        props.update(ci.props)
    L = ['import StarsimModel.Generated.Disease_syphilis', 'namespace StarsimModel.Gen.TreatSyphilis', 'open StarsimModel.Gen.Syphilis', '']
    facts = dict(products={}, own_writes=own, flags=flags)
    for prod in prods:
        prows = [r for r in rows if r['name'] == prod and r['disease'] == 'syphilis']
        states = []
        for r in prows:
            if r['state'] not in states: states.append(r['state'])      # df.state.unique(): first-appearance order
        for stname in states + [r['post_state'] for r in prows]:
            if stname not in flags:
                raise ExtractError(f'product {prod}: state {stname} is not a flag of Syphilis')
        pn = lean_ident(prod).capitalize()
        atoms = ['p_treated'] + [f'f_{s}' for s in states]
        L.append(f'/-- guards of one treatment round with product `{prod}`: `p_treated` = the agent is in `treat_uids`; '
                 f'`f_<state>` = the efficacy filter succeeds for the agent while it is in `<state>` -/')
        L.append(f'structure {pn}G where')
        for a in atoms: L.append(f'  {a} : Bool')
        L += ['deriving DecidableEq, Repr', '']
        L += quantifier_instances(f'{pn}G', atoms)
        L.append(f'/-- product table rows (state, post_state, efficacy > 0), order of `health_states` -/')
        first = {s: next(r for r in prows if r['state'] == s) for s in states}      # thisdf...values[0]
        L.append(f'def {prod}Rows : List (String × String × Bool) := [' + ', '.join(
            f'({lean_str(s)}, {lean_str(first[s]["post_state"])}, {"true" if float(first[s]["efficacy"]) > 0 else "false"})' for s in states) + ']')
        L.append(f'/-- `syph_treatment.step` with product `{prod}` for one agent -/')
        L.append(f'def treat{pn} (s : Flags) (g : {pn}G) : Flags :=')
        for s_ in states:
            eff = float(first[s_]['efficacy']) > 0
            post = first[s_]['post_state']
            L.append(f'  -- Tx.administer, row ({s_} -> {post}, efficacy {first[s_]["efficacy"]})')
            L.append(f'  let m_{s_} := g.p_treated && s.{s_} && ' + (f'g.f_{s_}' if eff else 'false'))
            L.append(f'  let s := {{ s with {s_} := if m_{s_} then false else s.{s_} }}')
            L.append(f'  let s := {{ s with {post} := if m_{s_} then true else s.{post} }}')
        for fl, val in own:
            if fl not in flags: raise ExtractError(f'syph_treatment.step writes unknown state {fl}')
            L.append(f'  -- syph_treatment.step: sim.people.syphilis.{fl}[treat_inds] = {val}')
            L.append(f'  let s := {{ s with {fl} := if g.p_treated then {"true" if val else "false"} else s.{fl} }}')
        L += ['  s', '']
        pat = ', '.join(atoms)
        L += [f'def {pn}G.ofList : List Bool → Option {pn}G', f'  | [{pat}] => some ⟨{pat}⟩', '  | _ => none', '']
        facts['products'][prod] = dict(states=states, atoms=atoms, lean=f'treat{pn}', rows=[[s, first[s]['post_state'], first[s]['efficacy']] for s in states])
    if 'bpg' not in facts['products']:
        raise ExtractError('product bpg missing from syph_tx.csv')
    L.append('/-- line-protocol entry point -/')
    L.append('def run (product : String) (fl gl : List Bool) : Option (List Bool) :=')
    L.append('  match product, Flags.ofList fl with')
    for prod in prods:
        pn = lean_ident(prod).capitalize()
        L.append(f'  | {lean_str(prod)}, some s => ({pn}G.ofList gl).map fun g => (treat{pn} s g).toList')
    L += ['  | _, _ => none', '', 'end StarsimModel.Gen.TreatSyphilis']
    return '\n'.join(L) + '\n', facts
