"""
Extractor for C19: the flag assignments of ss.Pregnancy that the theorems of Props/C19.lean rest on.

    set_prognoses      flags set for the conceiving women, timers assigned
    update_states      the delivery mask and its flag assignments, the post-partum mask and its assignments,
                       deliveries handled before the post-partum test
    finish_step        flags reset for the mothers of unborn agents that died
    make_embryos       age / parent / child_uid assignments, number of add_pairs calls per prenatal layer
    make_fertility_prob_fn   which entries of the probability are zeroed
    People.update_post  the ageing increment

Assignments to distinct states are independent, so each group is reported SORTED by state name: reordering them
(or renaming a local) does not change the fact.
"""
import ast
from harness.extract import generator, ExtractError, lean_str, unparse

REL = 'starsim/demographics.py'


def _flag_assigns(fn, index_names):
    """ [(state, value)] for `self.<state>[<index>] = value` with <index> one of index_names (in source order) """
    out = []
    for n in ast.walk(fn):
        if isinstance(n, ast.Assign) and len(n.targets) == 1 and isinstance(n.targets[0], ast.Subscript):
            t = n.targets[0]
            if isinstance(t.value, ast.Attribute) and unparse(t.value.value) == 'self' and unparse(t.slice) in index_names:
                out.append((t.value.attr, unparse(n.value).replace(' ', ''), n.lineno))
    return out


def _pairs(xs):
    return '[' + ', '.join(f'({lean_str(a)}, {lean_str(b)})' for a, b in xs) + ']'


@generator('PregnancyFacts', [REL, 'starsim/people.py'])
def gen(src):
    f = {}
    sp = src.func(REL, 'set_prognoses', 'Pregnancy')
    a = _flag_assigns(sp, {'uids'})
    f['set_prognoses'] = sorted((s, v) for s, v, _ in a)
    us = src.func(REL, 'update_states', 'Pregnancy')
    env = {}
    for n in us.body:
        if isinstance(n, ast.Assign) and isinstance(n.targets[0], ast.Name):
            env.setdefault(n.targets[0].id, (unparse(n.value).replace(' ', ''), n.lineno))
    if 'deliveries' not in env or 'postpartum' not in env:
        raise ExtractError('Pregnancy.update_states: masks `deliveries` / `postpartum` not found')
    f['deliveries_mask'] = env['deliveries'][0].replace('self.ti', 'ti') if False else env['deliveries'][0]
    f['postpartum_mask'] = env['postpartum'][0]
    d = _flag_assigns(us, {'deliveries'}); pp = _flag_assigns(us, {'postpartum'})
    f['delivery_flags'] = sorted((s, v) for s, v, _ in d)
    f['postpartum_flags'] = sorted((s, v) for s, v, _ in pp)
    if not d or not pp:
        raise ExtractError('Pregnancy.update_states: flag assignments not found')
    # the post-partum mask must be computed after the delivery flags were written
    f['deliveries_before_postpartum'] = max(l for _, _, l in d) < env['postpartum'][1]
    fs = src.func(REL, 'finish_step', 'Pregnancy')
    f['prenatal_loss_flags'] = sorted((s, v) for s, v, _ in _flag_assigns(fs, {'mother_uids'}))
    me = src.func(REL, 'make_embryos', 'Pregnancy')
    txt = unparse(me).replace(' ', '')
    f['embryo_age'] = 'people.age[new_uids]=-self.pars.dur_pregnancy.to(\'year\')' in txt
    f['embryo_parent'] = 'people.parent[new_uids]=conceive_uids' in txt
    f['embryo_child'] = 'self.child_uid[conceive_uids]=new_uids' in txt
    f['embryo_burnin_age'] = 'ifself.ti<0:' in txt and 'people.age[new_uids]+=-self.ti*self.sim.t.dt_year' in txt
    calls = 0
    for n in ast.walk(me):
        if isinstance(n, ast.If) and unparse(n.test) == 'layer.prenatal':
            calls = sum(1 for m in ast.walk(n) if isinstance(m, ast.Call) and unparse(m.func) == 'layer.add_pairs')
            args = [unparse(m) for m in ast.walk(n) if isinstance(m, ast.Call) and unparse(m.func) == 'layer.add_pairs']
            f['prenatal_add_args'] = args[0].replace(' ', '') if args else ''
    f['prenatal_add_calls'] = calls
    fp = src.func(REL, 'make_fertility_prob_fn', 'Pregnancy')
    zero = []
    for n in ast.walk(fp):
        if isinstance(n, ast.Assign) and isinstance(n.targets[0], ast.Subscript) and unparse(n.targets[0].value) == 'fertility_prob' \
                and unparse(n.value) == '0':
            zero.append(unparse(n.targets[0].slice).replace(' ', ''))
    f['fertility_zeroed'] = sorted(zero)
    inv = [unparse(n.value).replace(' ', '') for n in ast.walk(fp) if isinstance(n, ast.Assign) and unparse(n.targets[0]) == 'invalid_age']
    f['invalid_age'] = inv[0] if inv else ''
    mp = src.func(REL, 'make_pregnancies', 'Pregnancy')
    t2 = unparse(mp).replace(' ', '')
    f['eligible'] = 'eligible_uids=self.sim.people.female.uids' in t2 and 'self.pars.p_fertility.filter(eligible_uids)' in t2
    up = src.func('starsim/people.py', 'update_post', 'People')
    f['ageing'] = [unparse(n).replace(' ', '') for n in ast.walk(up) if isinstance(n, ast.AugAssign)]
    body = f'''namespace StarsimModel.Gen
/-- `Pregnancy.set_prognoses`: (state, value) assigned at `[uids]`, sorted by state -/
def setPrognoses : List (String × String) := {_pairs(f['set_prognoses'])}
/-- `Pregnancy.update_states` -/
def deliveriesMask : String := {lean_str(f['deliveries_mask'])}
def deliveryFlags : List (String × String) := {_pairs(f['delivery_flags'])}
def postpartumMask : String := {lean_str(f['postpartum_mask'])}
def postpartumFlags : List (String × String) := {_pairs(f['postpartum_flags'])}
def deliveriesBeforePostpartum : Bool := {'true' if f['deliveries_before_postpartum'] else 'false'}
/-- `Pregnancy.finish_step`: states reset at `[mother_uids]` when the unborn child died -/
def prenatalLossFlags : List (String × String) := {_pairs(f['prenatal_loss_flags'])}
/-- `Pregnancy.make_embryos` -/
def embryoAgeIsMinusGestation : Bool := {'true' if f['embryo_age'] else 'false'}
def embryoBurninAge : Bool := {'true' if f['embryo_burnin_age'] else 'false'}
def embryoParentLink : Bool := {'true' if f['embryo_parent'] else 'false'}
def embryoChildLink : Bool := {'true' if f['embryo_child'] else 'false'}
def prenatalAddCalls : Nat := {f['prenatal_add_calls']}
def prenatalAddArgs : String := {lean_str(f.get('prenatal_add_args', ''))}
/-- `make_fertility_prob_fn`: entries of the probability set to 0, and the age test -/
def fertilityZeroed : List String := [{', '.join(lean_str(z) for z in f['fertility_zeroed'])}]
def invalidAge : String := {lean_str(f['invalid_age'])}
def eligibleAreFemaleUids : Bool := {'true' if f['eligible'] else 'false'}
/-- `People.update_post` -/
def ageing : List String := [{', '.join(lean_str(z) for z in f['ageing'])}]
end StarsimModel.Gen
'''
    return body, f
