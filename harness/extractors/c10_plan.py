"""
Extractor for Generated/PeoplePlan.lean (C10): the part of the simulation loop the population bookkeeping depends on.

 * `Loop.collect_funcs` as an ordered table of (container, method, guard), with the loop variable abstracted to `_` and every
   enclosing `if` recorded as the guard of the row (a People method that is only scheduled under a condition is a row with
   a non-empty guard, not an error: the theorem over the table then fails, and the plan correspondence shows the sims for
   which the phase is missing).
 * what `People.request_death` stamps, what `People.step_die` selects and writes, what `People.update_results` counts and
   which of its own methods `People.finish_step` calls;
 * every place in `starsim/**/*.py` OUTSIDE class `People` that writes to the population's life status (`people.ti_dead`,
   `people.alive`): the model assumes there is none (modules go through `People.request_death`).

Pure AST; fails closed (ExtractError) on any construct outside the supported subset.
"""
import ast, os, glob, re
from harness.extract import generator, ExtractError, lean_str, unparse

LOOP = 'starsim/loop.py'
SIMF = 'starsim/sim.py'
MODF = 'starsim/modules.py'
PREL = 'starsim/people.py'
LIFE = ('ti_dead', 'alive')
PEOPLE_NAMES = ('people', 'ppl')


def collect_rows(fn):
    rows = []

    def add(st, container, var, guard):
        if not (isinstance(st, ast.AugAssign) and isinstance(st.op, ast.Add) and unparse(st.target) == 'self'):
            raise ExtractError(f'collect_funcs: unsupported statement {unparse(st)[:80]}')
        v = st.value
        if not isinstance(v, ast.Attribute):
            raise ExtractError(f'collect_funcs: appended value is not a bound method: {unparse(v)}')
        obj = unparse(v.value)
        if container is None:
            rows.append((obj, v.attr, guard))
        else:
            if obj != var:
                raise ExtractError(f'collect_funcs: loop over {container} appends a method of {obj}')
            rows.append((container, v.attr, guard))

    def conj(g, t):
        return t if not g else f'({g}) and ({t})'

    def block(stmts, container, var, guard):
        for st in stmts:
            if isinstance(st, ast.Expr) and isinstance(st.value, ast.Constant):
                continue
            if isinstance(st, ast.Pass):
                continue
            if isinstance(st, ast.Assign):
                t = unparse(st.targets[0]); v = unparse(st.value)
                if (t, v) in (('self.funcs', '[]'), ('sim', 'self.sim')) and container is None and not guard:
                    continue
                raise ExtractError(f'collect_funcs: unsupported assignment {t} = {v}')
            if isinstance(st, ast.Return):
                if container is not None or guard:
                    raise ExtractError('collect_funcs: early return')
                continue
            if isinstance(st, ast.AugAssign):
                add(st, container, var, guard); continue
            if isinstance(st, ast.If):
                if st.orelse:
                    raise ExtractError(f'collect_funcs: if/else on {unparse(st.test)[:60]}')
                test = unparse(st.test)
                if var is not None:
                    test = re.sub(r'(?<![\w.])' + re.escape(var) + r'(?![\w])', '_', test)
                block(st.body, container, var, conj(guard, test)); continue
            if isinstance(st, ast.For):
                if container is not None or st.orelse:
                    raise ExtractError('collect_funcs: nested loop / for-else')
                block(st.body, unparse(st.iter), unparse(st.target), guard); continue
            raise ExtractError(f'collect_funcs: unsupported statement {unparse(st)[:80]}')

    block(fn.body, None, None, '')
    return rows


def simple_stmts(fn):
    return [s for s in fn.body if not (isinstance(s, ast.Expr) and isinstance(s.value, ast.Constant)) and not (isinstance(s, ast.Return) and s.value is None)]


def subst(expr, env):
    """ substitute local names (whole words, not attributes) by their defining expressions """
    for k, v in env.items():
        expr = re.sub(r'(?<![\w.])' + re.escape(k) + r'(?![\w])', v, expr)
    return expr


def resolve(expr, env):
    """ resolve a local name through the straight-line assignments of the function (`ppl = self.sim.people`) """
    seen = 0
    while expr in env and seen < 5:
        expr = env[expr]; seen += 1
    return expr


def is_people_expr(s):
    last = s.split('.')[-1]
    return last in PEOPLE_NAMES


def life_writes(repo):
    """ (file, class, function, statement) of every write to people.ti_dead / people.alive outside class People """
    out = []
    files = sorted(glob.glob(os.path.join(repo, 'starsim', '**', '*.py'), recursive=True))
    if len(files) < 10:
        raise ExtractError(f'only {len(files)} source files found under starsim/')
    for path in files:
        rel = os.path.relpath(path, repo)
        tree = ast.parse(open(path).read())
        scopes = []
        for n in tree.body:
            if isinstance(n, ast.ClassDef):
                for m in n.body:
                    if isinstance(m, (ast.FunctionDef, ast.AsyncFunctionDef)):
                        scopes.append((n.name, m))
            elif isinstance(n, (ast.FunctionDef, ast.AsyncFunctionDef)):
                scopes.append(('', n))
        for cls, fn in scopes:
            env = {}
            for st in ast.walk(fn):
                if isinstance(st, ast.Assign) and len(st.targets) == 1 and isinstance(st.targets[0], ast.Name):
                    env[st.targets[0].id] = unparse(st.value)
            for st in ast.walk(fn):
                targets = []
                if isinstance(st, ast.Assign): targets = st.targets
                elif isinstance(st, (ast.AugAssign, ast.AnnAssign)): targets = [st.target]
                for t in targets:
                    for sub in ast.walk(t) if isinstance(t, (ast.Tuple, ast.List)) else [t]:
                        node = sub
                        while isinstance(node, ast.Subscript):          # x.ti_dead[uids] = ... / x.ti_dead.raw[...] = ...
                            node = node.value
                        chain = []
                        while isinstance(node, ast.Attribute):
                            chain.append(node.attr); node = node.value
                        base = unparse(node)
                        chain = list(reversed(chain))                     # e.g. ['sim', 'people', 'ti_dead', 'raw'] on base 'self'
                        for i, a in enumerate(chain):
                            if a in LIFE:
                                owner = '.'.join([base] + chain[:i])
                                owner_r = resolve(owner, env) if i == 0 or owner in env else owner
                                if cls == 'People' and owner == 'self':
                                    continue
                                if is_people_expr(owner_r) or is_people_expr(owner):
                                    out.append((rel, cls, fn.name, unparse(st)[:100]))
                # setattr / direct raw writes through helper calls are out of reach of this scan (stated in the notes)
    return out


def scale_mode(fn, label):
    """ how finalisation applies the population scale factor to the recorded series it loops over:
        'replace' = the series is replaced by the product (a new float series);
        'inplace' = the product is written into the existing array (truncates when that array holds integers) """
    found = []
    for loop in ast.walk(fn):
        if not (isinstance(loop, ast.For) and unparse(loop.iter).endswith('results.items()')):
            continue
        if not (isinstance(loop.target, ast.Tuple) and len(loop.target.elts) == 2):
            raise ExtractError(f'{label}: loop over results.items() does not unpack (key, result)')
        key, var = (unparse(e) for e in loop.target.elts)
        container = unparse(loop.iter)[:-len('.items()')]

        tainted = set()       # locals holding the scaled product (`scaled = res * pop_scale`)

        def mentions(text):
            return 'pop_scale' in text or any(re.search(r'(?<![\w.])' + re.escape(t) + r'(?![\w])', text) for t in tainted)

        def visit(stmts, guard):
            for st in stmts:
                if isinstance(st, ast.If):
                    if st.orelse: raise ExtractError(f'{label}: if/else inside the scaling loop')
                    visit(st.body, (guard + ' and ' if guard else '') + unparse(st.test)); continue
                if not mentions(unparse(st)):
                    continue
                if isinstance(st, ast.Assign) and len(st.targets) == 1 and isinstance(st.targets[0], ast.Name) and st.targets[0].id != var:
                    tainted.add(st.targets[0].id); continue
                if isinstance(st, ast.Assign) and len(st.targets) == 1 and isinstance(st.targets[0], ast.Subscript):
                    base = unparse(st.targets[0].value); idx = unparse(st.targets[0].slice)
                    if base == container and idx == key: found.append(('replace', guard)); continue
                    if base == var or base.startswith(var + '.'): found.append(('inplace', guard)); continue
                if isinstance(st, ast.AugAssign):
                    t = st.target
                    while isinstance(t, ast.Subscript): t = t.value
                    tb = unparse(t)
                    if tb == var or tb.startswith(var + '.') or tb == container: found.append(('inplace', guard)); continue
                raise ExtractError(f'{label}: cannot classify how the scale factor is applied in `{unparse(st)[:80]}`')
        visit(loop.body, '')
    if len(found) != 1:
        raise ExtractError(f'{label}: expected exactly one statement applying pop_scale to the recorded series, found {found}')
    return found[0]


def sim_results(fn):
    """ (name, dtype, scale) of the series Sim.init_results creates """
    kws = {}
    for st in fn.body:
        if isinstance(st, ast.Assign) and isinstance(st.targets[0], ast.Name) and isinstance(st.value, ast.Call) and unparse(st.value.func) == 'dict':
            kws[st.targets[0].id] = {k.arg: unparse(k.value) for k in st.value.keywords if k.arg}
    out = []
    for n in ast.walk(fn):
        if isinstance(n, ast.Call) and unparse(n.func) == 'ss.Result' and n.args and isinstance(n.args[0], ast.Constant):
            kw = {}
            for k in n.keywords:
                if k.arg is None:
                    kw.update(kws.get(unparse(k.value), {'dtype': '?', 'scale': '?'}))
                else:
                    kw[k.arg] = unparse(k.value)
            out.append((n.args[0].value, kw.get('dtype', 'float'), kw.get('scale', 'True')))
    if not out:
        raise ExtractError('Sim.init_results: no ss.Result(...) found')
    return out


def property_return(fn, label):
    """ the expression a property returns, locals substituted (straight-line body only) """
    env = {}; ret = None
    for st in simple_stmts(fn):
        if isinstance(st, ast.Assign) and len(st.targets) == 1 and isinstance(st.targets[0], ast.Name):
            env[st.targets[0].id] = ast.parse(subst(unparse(st.value), {k: unparse(v) for k, v in env.items()}), mode='eval').body
        elif isinstance(st, ast.Return) and st.value is not None:
            ret = st.value
        else:
            raise ExtractError(f'{label}: unsupported statement {unparse(st)[:80]}')
    if ret is None:
        raise ExtractError(f'{label}: no return value')
    if isinstance(ret, ast.Name) and ret.id in env: ret = env[ret.id]
    return ret


def states_enumeration(src):
    """ how `Module.states` enumerates the arrays a module holds — the ONLY path by which module-held arrays reach People's
        registry (`People.add_module`) and their allocation (`Module.init_post`):
        "all-attributes" = every `ss.Arr` among the attribute values, one entry per OBJECT;
        "by-name"        = via a mapping keyed by the state name (one entry per NAME: arrays sharing a name are dropped) """
    def classify(expr, depth=0):
        text = unparse(expr)
        if isinstance(expr, ast.ListComp) and len(expr.generators) == 1:
            g = expr.generators[0]
            it = unparse(g.iter)
            conds = [unparse(c) for c in g.ifs]
            if it in ('self.__dict__.values()', 'vars(self).values()') and unparse(expr.elt) == unparse(g.target) and len(conds) == 1 and re.fullmatch(r'isinstance\(\w+, ss\.Arr\)', conds[0]):
                return 'all-attributes'
        if isinstance(expr, ast.Call) and unparse(expr.func) == 'list' and len(expr.args) == 1:
            inner = unparse(expr.args[0])
            if 'statesdict' in inner and depth == 0:
                sd = property_return(src.func(MODF, 'statesdict', 'Module'), 'Module.statesdict')
                for n in ast.walk(sd):
                    if isinstance(n, ast.DictComp) and unparse(n.key).endswith('.name'):
                        return 'by-name'
        raise ExtractError(f'Module.states: cannot classify the enumeration `{text[:100]}`')
    return classify(property_return(src.func(MODF, 'states', 'Module'), 'Module.states'))


def registration_facts(src):
    """ People._link_state: the key of the growth registry; People.add_module / Module.init_post: what they do to every enumerated state """
    ls = src.func(PREL, '_link_state', 'People')
    keys = [unparse(t.slice) for st in ast.walk(ls) if isinstance(st, ast.Assign) for t in st.targets if isinstance(t, ast.Subscript) and unparse(t.value) == 'self._states']
    if len(keys) != 1:
        raise ExtractError(f'People._link_state: expected exactly one write to self._states, found {keys}')
    def loop_calls(fn, iters, label):
        out = []
        for n in ast.walk(fn):
            if isinstance(n, ast.For) and unparse(n.iter) in iters:
                var = unparse(n.target)
                for c in ast.walk(n):
                    if isinstance(c, ast.Call) and isinstance(c.func, ast.Attribute) and unparse(c.func.value) == var:
                        g = [unparse(i.test) for i in ast.walk(n) if isinstance(i, ast.If) and any(c is x for x in ast.walk(i))]
                        out.append((c.func.attr, ' and '.join(g).replace(var, '_')))
        if not out:
            raise ExtractError(f'{label}: no loop over {iters} calling a method of the state')
        return out
    am = loop_calls(src.func(PREL, 'add_module', 'People'), ('module.states',), 'People.add_module')
    ip = loop_calls(src.func(MODF, 'init_post', 'Module'), ('self.states',), 'Module.init_post')
    return keys[0], am, ip


@generator('PeoplePlan', [LOOP, PREL, SIMF, MODF])
def gen(src):
    rows = collect_rows(src.func(LOOP, 'collect_funcs', 'Loop'))
    if not rows:
        raise ExtractError('collect_funcs: no rows')
    # --- People methods -------------------------------------------------------------------------------
    rq = simple_stmts(src.func(PREL, 'request_death', 'People'))
    renv = {}; rq_w = []
    for st in rq:
        if isinstance(st, ast.Assign) and len(st.targets) == 1 and isinstance(st.targets[0], ast.Name):
            renv[st.targets[0].id] = subst(unparse(st.value), renv)
        elif isinstance(st, ast.Assign) and len(st.targets) == 1:
            rq_w.append((subst(unparse(st.targets[0]), renv), subst(unparse(st.value), renv)))
        else:
            raise ExtractError(f'People.request_death: unsupported statement {unparse(st)[:80]}')
    if len(rq_w) != 1:
        raise ExtractError(f'People.request_death: expected exactly one write, found {rq_w}')
    rq_t, rq_v = rq_w[0]
    rq_v = rq_v.replace('.t.ti', '.ti')          # `sim.ti` is a property for `sim.t.ti`
    sd = src.func(PREL, 'step_die', 'People')
    env = {}
    sd_sel = sd_write = None
    for st in sd.body:
        if isinstance(st, ast.Assign) and isinstance(st.targets[0], ast.Name):
            env[st.targets[0].id] = unparse(st.value)
        elif isinstance(st, ast.Assign) and unparse(st.targets[0]).startswith('self.alive['):
            key = unparse(st.targets[0].slice)
            sd_sel = resolve(key, env); sd_write = unparse(st.value)
    if sd_sel is None:
        raise ExtractError('People.step_die: `self.alive[...] = ...` not found')
    ret = [unparse(s.value) for s in sd.body if isinstance(s, ast.Return) and s.value is not None]
    sd_ret = resolve(ret[0], env) if ret else ''
    ur = src.func(PREL, 'update_results', 'People')
    uenv = {}; ur_assign = {}
    for st in ur.body:
        if isinstance(st, ast.Assign) and isinstance(st.targets[0], ast.Name):
            uenv[st.targets[0].id] = unparse(st.value)
        elif isinstance(st, ast.Assign):
            t = unparse(st.targets[0]); v = unparse(st.value)
            for k, e in uenv.items():
                if k == 'ti':
                    t = t.replace('[ti]', f'[{e}]'); v = v.replace('== ti', f'== {e}')
                if k == 'res':
                    t = t.replace('res.', e + '.')
            ur_assign[t] = v
    fs = src.func(PREL, 'finish_step', 'People')
    fs_calls = [unparse(s.value.func) for s in fs.body if isinstance(s, ast.Expr) and isinstance(s.value, ast.Call)]
    writes = life_writes(src.repo)
    sim_mode, sim_guard = scale_mode(src.func(SIMF, 'finalize', 'Sim'), 'Sim.finalize')
    mod_mode, mod_guard = scale_mode(src.func(MODF, 'finalize_results', 'Module'), 'Module.finalize_results')
    sres = sim_results(src.func(SIMF, 'init_results', 'Sim'))
    enum_mode = states_enumeration(src)
    reg_key, add_calls, post_calls = registration_facts(src)

    def tbl(rs):
        return ',\n  '.join('(' + ', '.join(lean_str(x) for x in r) + ')' for r in rs)
    body = f'''namespace StarsimModel.Gen
/-- `Loop.collect_funcs` with the loop variable abstracted to `_`: (container, method, guard) in source order;
    guard "" = scheduled in every sim, whatever its module set -/
def planRows : List (String × String × String) := [
  {tbl(rows)}]
/-- `People.request_death`: (target written, value) -/
def requestDeathWrite : String × String := ({lean_str(rq_t)}, {lean_str(rq_v)})
/-- `People.step_die`: (selection of the agents that die, value written to `alive`, value returned) -/
def stepDieWrite : String × String × String := ({lean_str(sd_sel)}, {lean_str(sd_write)}, {lean_str(sd_ret)})
/-- `People.update_results`: (target, value) with the locals `ti` / `res` substituted -/
def updateResultsWrites : List (String × String) := [
  {tbl(sorted(ur_assign.items()))}]
/-- `People.finish_step`: the calls it makes, in order -/
def peopleFinishCalls : List String := [{', '.join(lean_str(c) for c in fs_calls)}]
/-- writes to `people.ti_dead` / `people.alive` outside class `People`: (file, class, function, statement) -/
def lifeStatusWritesOutsidePeople : List (String × String × String × String) := [{(chr(10) + '  ' + tbl(writes)) if writes else ''}]
/-- how finalisation applies `pop_scale` to the recorded series: (mode, guard); mode "replace" = the series is replaced by the
    product, "inplace" = the product is written into the existing array -/
def finalizeSim : String × String := ({lean_str(sim_mode)}, {lean_str(sim_guard)})
def finalizeModule : String × String := ({lean_str(mod_mode)}, {lean_str(mod_guard)})
/-- `Sim.init_results`: (name, dtype, scale) of the sim-level series -/
def simResults : List (String × String × String) := [
  {tbl(sres)}]
/-- `Module.states`: how the arrays a module holds are enumerated ("all-attributes" = one entry per array object,
    "by-name" = through a mapping keyed by the state name) -/
def moduleStatesEnum : String := {lean_str(enum_mode)}
/-- `People._link_state`: the key under which a state enters the growth registry `_states` -/
def peopleRegistryKey : String := {lean_str(reg_key)}
/-- `People.add_module`: (method called on every enumerated state, guard) -/
def addModuleCalls : List (String × String) := [{', '.join('(' + lean_str(a) + ', ' + lean_str(b) + ')' for a, b in add_calls)}]
/-- `Module.init_post`: (method called on every enumerated state, guard) -/
def initPostCalls : List (String × String) := [{', '.join('(' + lean_str(a) + ', ' + lean_str(b) + ')' for a, b in post_calls)}]
end StarsimModel.Gen
'''
    facts = dict(states_enum=enum_mode, registry_key=reg_key, add_module_calls=[list(c) for c in add_calls], init_post_calls=[list(c) for c in post_calls], finalize_sim=[sim_mode, sim_guard], finalize_module=[mod_mode, mod_guard], sim_results=[list(r) for r in sres],
                 rows=[list(r) for r in rows], request_death=[rq_t, rq_v], step_die=[sd_sel, sd_write, sd_ret],
                 update_results=ur_assign, finish_calls=fs_calls, life_writes=[list(w) for w in writes])
    return body, facts
