"""
ResultsTable extractor (property C15).

From the working tree of starsim (pure `ast`, failing closed):

* every `ss.Result(...)` literal: defining class / function, name (`*` for a formatted field of an f-string),
  `scale` flag and dtype (defaults taken from the signature of `Result.__init__`);
* every assignment that fills a cumulative result (`cum*`): which class does it, the result written, the source
  series, and the slice: `np.sum(src[:ti])` (exclusive), `np.sum(src[:ti+1])` (inclusive), `np.cumsum(src)` (full);
* the guard and factor of the two scaling loops (`Module.finalize_results`, `Sim.finalize`) and the
  finalise-once guard of `Sim.finalize`;
* the default `how` table of `Sim.summarize` and its matching rule (`hkey in key`);
* the three branches of `SimPars.validate_total_pop`.

Anything that does not fit one of the recognised shapes raises ExtractError (= broken tie).
"""
import ast, glob, os
from harness.extract import generator, ExtractError, lean_str, unparse

FILES = ['starsim/results.py', 'starsim/sim.py', 'starsim/people.py', 'starsim/modules.py', 'starsim/disease.py',
         'starsim/demographics.py', 'starsim/networks.py', 'starsim/interventions.py', 'starsim/products.py',
         'starsim/parameters.py', 'starsim/diseases/cholera.py', 'starsim/diseases/ebola.py',
         'starsim/diseases/gonorrhea.py', 'starsim/diseases/hiv.py', 'starsim/diseases/measles.py',
         'starsim/diseases/ncd.py', 'starsim/diseases/sir.py', 'starsim/diseases/syphilis.py']

# generic forwarders of user-supplied arguments: not literals
FORWARDERS = {('Module', 'define_results'), ('Results', 'append')}
# a sim-level result is declared in Sim.init_results and written by People.update_results
WRITER_ALIAS = {'Sim': 'People'}


def _result_defaults(src):
    init = src.func('starsim/results.py', '__init__', 'Result')
    names = [a.arg for a in init.args.args]
    dfl = init.args.defaults
    kw = dict(zip(names[len(names) - len(dfl):], dfl))
    if 'scale' not in kw or 'dtype' not in kw or names[1] != 'name':
        raise ExtractError('Result.__init__ signature changed')
    sc_ = kw['scale']; dt = kw['dtype']
    if not (isinstance(sc_, ast.Constant) and isinstance(sc_.value, bool)):
        raise ExtractError('Result.__init__: default of scale is not a bool literal')
    if not (isinstance(dt, ast.Name) and dt.id in ('float', 'int')):
        raise ExtractError('Result.__init__: default dtype is not float/int')
    return sc_.value, dt.id


def _local_dicts(fn):
    """ name -> {key: node} for local `name = dict(k=v, ...)` assignments """
    out = {}
    for n in ast.walk(fn):
        if isinstance(n, ast.Assign) and len(n.targets) == 1 and isinstance(n.targets[0], ast.Name):
            v = n.value
            if isinstance(v, ast.Call) and unparse(v.func) == 'dict' and not v.args and all(k.arg for k in v.keywords):
                out[n.targets[0].id] = {k.arg: k.value for k in v.keywords}
    return out


def _name_of(node):
    if isinstance(node, ast.Constant) and isinstance(node.value, str):
        return node.value
    if isinstance(node, ast.JoinedStr):
        s = ''
        for p in node.values:
            if isinstance(p, ast.Constant): s += str(p.value)
            elif isinstance(p, ast.FormattedValue): s += '*'
            else: raise ExtractError('unsupported f-string part in a Result name')
        return s
    raise ExtractError(f'Result name is not a string literal: {unparse(node)[:60]}')


def _result_rows(src, rel, dscale, ddtype):
    rows = []
    tree = src.tree(rel)
    for cls in [n for n in ast.walk(tree) if isinstance(n, ast.ClassDef)]:
        for fn in [n for n in cls.body if isinstance(n, ast.FunctionDef)]:
            dicts = _local_dicts(fn)
            for call in [n for n in ast.walk(fn) if isinstance(n, ast.Call)]:
                if unparse(call.func) not in ('ss.Result', 'Result'):
                    continue
                starred = any(isinstance(a, ast.Starred) for a in call.args)
                kws = {}
                unresolved = False
                for k in call.keywords:
                    if k.arg is None:
                        if isinstance(k.value, ast.Name) and k.value.id in dicts:
                            kws.update(dicts[k.value.id])
                        else:
                            unresolved = True
                    else:
                        kws[k.arg] = k.value
                if starred or unresolved:
                    if (cls.name, fn.name) in FORWARDERS:
                        continue
                    raise ExtractError(f'{rel}:{call.lineno}: ss.Result(...) with arguments that cannot be resolved statically')
                if call.args:
                    name = _name_of(call.args[0])
                    if len(call.args) > 1:
                        raise ExtractError(f'{rel}:{call.lineno}: ss.Result with more than one positional argument')
                elif 'name' in kws:
                    name = _name_of(kws['name'])
                else:
                    raise ExtractError(f'{rel}:{call.lineno}: ss.Result without a name')
                scale = dscale
                if 'scale' in kws:
                    v = kws['scale']
                    if not (isinstance(v, ast.Constant) and isinstance(v.value, bool)):
                        raise ExtractError(f'{rel}:{call.lineno}: scale= is not a bool literal')
                    scale = v.value
                dtype = ddtype
                if 'dtype' in kws:
                    v = kws['dtype']
                    if not (isinstance(v, ast.Name) and v.id in ('int', 'float', 'bool')):
                        raise ExtractError(f'{rel}:{call.lineno}: dtype= is not int/float/bool')
                    dtype = v.id
                rows.append(dict(cls=cls.name, func=fn.name, name=name, scale=scale, dtype=dtype, file=rel, line=call.lineno))
    return rows


def _res_ref(node, aliases):
    """ `res.NAME`, `res['NAME']`, `self.results.NAME`, `self.results['NAME']`, `self.sim.results.NAME` -> (owner, NAME) """
    if isinstance(node, ast.Attribute):
        base, name = node.value, node.attr
    elif isinstance(node, ast.Subscript) and isinstance(node.slice, ast.Constant) and isinstance(node.slice.value, str):
        base, name = node.value, node.slice.value
    else:
        return None
    b = unparse(base)
    if b in aliases: b = aliases[b]
    if b in ('self.results', 'self.sim.results'):
        return b, name
    return None


def _cum_rows(src, rel):
    rows = []
    tree = src.tree(rel)
    for cls in [n for n in ast.walk(tree) if isinstance(n, ast.ClassDef)]:
        for fn in [n for n in cls.body if isinstance(n, ast.FunctionDef)]:
            aliases = {}; ti_src = None
            for n in ast.walk(fn):
                if isinstance(n, ast.Assign) and len(n.targets) == 1 and isinstance(n.targets[0], ast.Name):
                    v = unparse(n.value)
                    if v in ('self.results', 'self.sim.results'):
                        aliases[n.targets[0].id] = v
                    if n.targets[0].id == 'ti':
                        ti_src = v
            for st in [n for n in ast.walk(fn) if isinstance(n, (ast.Assign, ast.AugAssign))]:
                tgt = st.targets[0] if isinstance(st, ast.Assign) else st.target
                if not isinstance(tgt, ast.Subscript):
                    continue
                ref = _res_ref(tgt.value, aliases)
                if ref is None or not ref[1].startswith('cum'):
                    continue
                where = f'{rel}:{st.lineno} {cls.name}.{fn.name}'
                if isinstance(st, ast.AugAssign) or len(st.targets) != 1:
                    raise ExtractError(f'{where}: unsupported update of cumulative result {ref[1]}')
                idx = unparse(tgt.slice)
                v = st.value
                if not (isinstance(v, ast.Call) and unparse(v.func) in ('np.sum', 'np.cumsum') and len(v.args) == 1 and not v.keywords):
                    raise ExtractError(f'{where}: cumulative result {ref[1]} is not np.sum(...)/np.cumsum(...): {unparse(v)[:80]}')
                f = unparse(v.func); arg = v.args[0]
                if f == 'np.cumsum':
                    sref = _res_ref(arg, aliases)
                    if sref is None or idx != ':':
                        raise ExtractError(f'{where}: unsupported np.cumsum form: {unparse(st)[:100]}')
                    form = 'cumsum'; incl = True
                else:
                    if not (isinstance(arg, ast.Subscript) and isinstance(arg.slice, ast.Slice) and arg.slice.lower is None and arg.slice.step is None):
                        raise ExtractError(f'{where}: unsupported np.sum argument: {unparse(arg)[:80]}')
                    sref = _res_ref(arg.value, aliases)
                    up = unparse(arg.slice.upper) if arg.slice.upper is not None else None
                    if sref is None or idx != 'ti' or ti_src not in ('self.ti', 'self.sim.ti'):
                        raise ExtractError(f'{where}: unsupported cumulative update: {unparse(st)[:100]} (ti = {ti_src})')
                    if up == 'ti': form, incl = 'sum[:ti]', False
                    elif up in ('ti + 1', '1 + ti'): form, incl = 'sum[:ti+1]', True
                    else:
                        raise ExtractError(f'{where}: unsupported slice bound {up!r} in {unparse(st)[:100]}')
                if sref[0] != ref[0]:
                    raise ExtractError(f'{where}: cumulative result and its source live in different result sets')
                rows.append(dict(cls=cls.name, func=fn.name, result=ref[1], source=sref[1], inclusive=incl, form=form,
                                 file=rel, line=st.lineno))
    return rows


def _scale_loop(fn, where, factor_ok):
    """ for reskey, res in self.results.items(): if <test>: self.results[reskey] = self.results[reskey] * <factor> """
    found = None
    for st in ast.walk(fn):
        if isinstance(st, ast.For) and unparse(st.iter) == 'self.results.items()':
            if found is not None:
                raise ExtractError(f'{where}: more than one loop over self.results.items()')
            if unparse(st.target) != '(reskey, res)' and unparse(st.target) != 'reskey, res':
                raise ExtractError(f'{where}: loop target changed: {unparse(st.target)}')
            body = st.body
            if len(body) == 1 and isinstance(body[0], ast.If) and not body[0].orelse and len(body[0].body) == 1:
                test = unparse(body[0].test); asg = body[0].body[0]
            elif len(body) == 1 and isinstance(body[0], ast.Assign):
                test = 'True'; asg = body[0]
            else:
                raise ExtractError(f'{where}: unsupported scaling loop body')
            if not (isinstance(asg, ast.Assign) and unparse(asg.targets[0]) == 'self.results[reskey]'):
                raise ExtractError(f'{where}: unsupported scaling statement {unparse(asg)[:80]}')
            v = asg.value
            if not (isinstance(v, ast.BinOp) and isinstance(v.op, ast.Mult)):
                raise ExtractError(f'{where}: scaling is not a product: {unparse(v)[:80]}')
            l, r = unparse(v.left), unparse(v.right)
            if l != 'self.results[reskey]': l, r = r, l
            if l != 'self.results[reskey]' or r not in factor_ok:
                raise ExtractError(f'{where}: scaling factor changed: {unparse(v)[:80]}')
            norm = test.replace(' ', '')
            if norm in ('isinstance(res,ss.Result)andres.scale', 'res.scaleandisinstance(res,ss.Result)'):
                kind = 'flag'
            elif norm in ('isinstance(res,ss.Result)', 'True'):
                kind = 'all'
            else:
                raise ExtractError(f'{where}: unsupported scaling guard `{test}`')
            found = kind
    if found is None:
        raise ExtractError(f'{where}: scaling loop not found')
    return found


def _finalize_guard(fn):
    """ `if self.results_ready: raise AlreadyRunError(...)` before anything else, and `self.results_ready = True` """
    body = [s for s in fn.body if not (isinstance(s, ast.Expr) and isinstance(s.value, ast.Constant))]
    guarded = False
    if body and isinstance(body[0], ast.If) and unparse(body[0].test) == 'self.results_ready':
        guarded = any(isinstance(s, ast.Raise) for s in body[0].body)
    sets = any(isinstance(n, ast.Assign) and unparse(n.targets[0]) == 'self.results_ready' and unparse(n.value) == 'True'
               for n in ast.walk(fn))
    return guarded, sets


def _summary_how(fn):
    how = None; rule = None
    for n in ast.walk(fn):
        if isinstance(n, ast.Assign) and unparse(n.targets[0]) == 'how' and isinstance(n.value, ast.Dict) and len(n.value.keys) > 1:
            how = []
            for k, v in zip(n.value.keys, n.value.values):
                if not (isinstance(k, ast.Constant) and isinstance(k.value, str) and isinstance(v, ast.Constant) and isinstance(v.value, str)):
                    raise ExtractError('summarize: default how table is not a literal str->str dict')
                how.append((k.value, v.value))
        if isinstance(n, ast.FunctionDef) and n.name == 'get_func':
            dflt = n.args.defaults
            if len(dflt) != 1 or not isinstance(dflt[0], ast.Constant):
                raise ExtractError('summarize.get_func: default changed')
            default = dflt[0].value
            tests = [unparse(i.test) for i in ast.walk(n) if isinstance(i, ast.If)]
            if 'hkey in key' in tests: rule = 'substring'
            elif 'key.startswith(hkey)' in tests: rule = 'prefix'
            else: raise ExtractError(f'summarize.get_func: unsupported matching rule {tests}')
            loops = [unparse(i.iter) for i in ast.walk(n) if isinstance(i, ast.For)]
            if loops != ['how.items()']:
                raise ExtractError('summarize.get_func: loop changed')
            how_default = default
    if how is None or rule is None:
        raise ExtractError('summarize: default how table / get_func not found')
    return how, rule, how_default


def _validate_total_pop(fn):
    """ recognise the exact branch structure; returns the facts as strings """
    src_ = unparse(fn)
    need = ['if self.total_pop is not None:', 'if self.pop_scale is not None:', 'raise ValueError(errormsg)',
            'total_pop = self.total_pop', 'total_pop = self.pop_scale * self.n_agents', 'total_pop = self.n_agents',
            'self.total_pop = total_pop', 'if self.pop_scale is None:', 'self.pop_scale = total_pop / self.n_agents']
    pos = -1
    for s in need:
        p = src_.find(s, pos + 1)
        if p < 0:
            raise ExtractError(f'validate_total_pop: expected statement `{s}` not found in order')
        pos = p
    return dict(both='error', only_total='pop_scale = total_pop / n_agents', only_scale='total_pop = pop_scale * n_agents',
                neither='total_pop = n_agents; pop_scale = total_pop / n_agents')


def _rate_rows(src):
    """ The rates that `finalize` computes from already scaled series (Deaths.cmr, Pregnancy.cbr):
            units = self.pars.rate_units * self.sim.t.dt_year ; inds = self.match_time_inds()
            n_alive = self.sim.results.n_alive[inds]
            x = np.divide(self.results[<source>], n_alive, where=n_alive > 0)     (no out=: entries without anybody alive are unspecified)
            self.results[<rate>][:] = x / units
        Any other shape is an ExtractError. """
    rows = []
    rel = 'starsim/demographics.py'
    for cls in [n for n in ast.walk(src.tree(rel)) if isinstance(n, ast.ClassDef)]:
        fn = next((n for n in cls.body if isinstance(n, ast.FunctionDef) and n.name == 'finalize'), None)
        if fn is None: continue
        asg = {}
        order = []
        for st in fn.body:
            if isinstance(st, ast.Assign) and len(st.targets) == 1:
                asg[unparse(st.targets[0])] = st.value; order.append(unparse(st.targets[0]))
        divs = [(t, v) for t, v in asg.items() if isinstance(v, ast.Call) and unparse(v.func) == 'np.divide']
        if not divs:
            if any('n_alive' in unparse(v) for v in asg.values()):
                raise ExtractError(f'{cls.name}.finalize uses n_alive without the recognised np.divide form')
            continue
        if len(divs) != 1:
            raise ExtractError(f'{cls.name}.finalize: more than one np.divide')
        tmp, call = divs[0]
        where = f'{cls.name}.finalize'
        if unparse(asg.get('units', ast.Constant(0))).replace(' ', '') != 'self.pars.rate_units*self.sim.t.dt_year':
            raise ExtractError(f'{where}: units changed: {unparse(asg.get("units", ast.Constant(0)))}')
        if unparse(asg.get('inds', ast.Constant(0))) != 'self.match_time_inds()' or unparse(asg.get('n_alive', ast.Constant(0))) != 'self.sim.results.n_alive[inds]':
            raise ExtractError(f'{where}: n_alive / inds changed')
        if len(call.args) != 2 or unparse(call.args[1]) != 'n_alive':
            raise ExtractError(f'{where}: np.divide arguments changed: {unparse(call)[:80]}')
        kws = {k.arg: unparse(k.value).replace(' ', '') for k in call.keywords}
        if kws.get('where') != 'n_alive>0' or set(kws) - {'where', 'out'}:
            raise ExtractError(f'{where}: np.divide keywords changed: {kws}')
        sref = _res_ref(call.args[0], {})
        if sref is None or sref[0] != 'self.results':
            raise ExtractError(f'{where}: numerator is not a result of the module: {unparse(call.args[0])}')
        target = None
        for t, v in asg.items():
            if isinstance(v, ast.BinOp) and isinstance(v.op, ast.Div) and unparse(v.left) == tmp:
                if unparse(v.right) != 'units':
                    raise ExtractError(f'{where}: rate is not divided by units: {unparse(v)}')
                node = next(st.targets[0] for st in fn.body if isinstance(st, ast.Assign) and unparse(st.targets[0]) == t)
                if not (isinstance(node, ast.Subscript) and unparse(node.slice) == ':'):
                    raise ExtractError(f'{where}: unsupported rate target {t}')
                tref = _res_ref(node.value, {})
                if tref is None: raise ExtractError(f'{where}: unsupported rate target {t}')
                target = tref[1]
        if target is None:
            raise ExtractError(f'{where}: no `<rate>[:] = {tmp}/units` statement')
        # the scaling (super().finalize()) must come first
        first = next((st for st in fn.body if not (isinstance(st, ast.Expr) and isinstance(st.value, ast.Constant))), None)
        if not (isinstance(first, ast.Expr) and unparse(first.value) == 'super().finalize()'):
            raise ExtractError(f'{where}: super().finalize() is not the first statement')
        rows.append(dict(cls=cls.name, result=target, source=sref[1], has_out='out' in kws))
    return rows


@generator('ResultsTable', FILES)
def gen(src):
    # every python file of the package must be in FILES (a new module with results must not go unnoticed)
    have = set(FILES)
    for p in sorted(glob.glob(os.path.join(src.repo, 'starsim', '*.py')) + glob.glob(os.path.join(src.repo, 'starsim', 'diseases', '*.py'))):
        rel = os.path.relpath(p, src.repo)
        if rel in have or rel.endswith('__init__.py'):
            continue
        if 'Result(' in open(p).read():
            raise ExtractError(f'{rel} constructs Result objects but is not covered by the ResultsTable extractor')
    dscale, ddtype = _result_defaults(src)
    rows = []; cums = []
    for rel in FILES:
        rows += _result_rows(src, rel, dscale, ddtype)
        cums += _cum_rows(src, rel)
    if not rows:
        raise ExtractError('no ss.Result literal found')
    # every cumulative result literal must have a writer row
    for r in rows:
        if r['name'].startswith('cum'):
            w = WRITER_ALIAS.get(r['cls'], r['cls'])
            if not any(c['result'] == r['name'] and c['cls'] in (r['cls'], w) for c in cums):
                raise ExtractError(f"cumulative result {r['cls']}.{r['name']} has no recognised update statement")
    for c in cums:
        if not any(r['name'] == c['result'] and WRITER_ALIAS.get(r['cls'], r['cls']) in (c['cls'],) or
                   (r['name'] == c['result'] and r['cls'] == c['cls']) for r in rows):
            raise ExtractError(f"cumulative update {c['cls']}.{c['result']} has no ss.Result literal")
    mod_guard = _scale_loop(src.func('starsim/modules.py', 'finalize_results', 'Module'), 'Module.finalize_results',
                            ('self.sim.pars.pop_scale',))
    sim_fin = src.func('starsim/sim.py', 'finalize', 'Sim')
    sim_guard = _scale_loop(sim_fin, 'Sim.finalize', ('self.pars.pop_scale',))
    guarded, sets = _finalize_guard(sim_fin)
    how, rule, how_default = _summary_how(src.func('starsim/sim.py', 'summarize', 'Sim'))
    rates = _rate_rows(src)
    vtp = _validate_total_pop(src.func('starsim/parameters.py', 'validate_total_pop', 'SimPars'))

    def b(x): return 'true' if x else 'false'
    rrows = ',\n  '.join(f"⟨{lean_str(r['cls'])}, {lean_str(r['func'])}, {lean_str(r['name'])}, {b(r['scale'])}, {b(r['dtype'] == 'float')}⟩" for r in rows)
    crows = ',\n  '.join(f"⟨{lean_str(c['cls'])}, {lean_str(c['result'])}, {lean_str(c['source'])}, {b(c['inclusive'])}, {lean_str(c['form'])}⟩" for c in cums)
    qrows = ',\n  '.join(f"⟨{lean_str(q['cls'])}, {lean_str(q['result'])}, {lean_str(q['source'])}, {b(q['has_out'])}⟩" for q in rates)
    hrows = ', '.join(f'({lean_str(k)}, {lean_str(v)})' for k, v in how)
    body = f'''namespace StarsimModel.Gen
/-- One `ss.Result(...)` literal: defining class and function, name (`*` = formatted field), `scale`, dtype is float -/
structure ResultRow where
  cls : String
  func : String
  name : String
  scale : Bool
  isFloat : Bool
deriving Repr, DecidableEq
def resultRows : List ResultRow := [
  {rrows}]
/-- One statement that fills a cumulative result: writer class, result, source series, slice includes the current step -/
structure CumRow where
  cls : String
  result : String
  source : String
  inclusive : Bool
  form : String
deriving Repr, DecidableEq
def cumRows : List CumRow := [
  {crows}]
/-- A rate computed in `finalize` after the scaling: `result[:] = np.divide(source, n_alive[inds], where=n_alive>0) / units` -/
structure RateRow where
  cls : String
  result : String
  source : String
  hasOut : Bool
deriving Repr, DecidableEq
def rateRows : List RateRow := [
  {qrows}]
/-- `Module.finalize_results` scales exactly the results whose `scale` flag is set (guard `isinstance(res, ss.Result) and res.scale`) -/
def moduleScalesFlaggedOnly : Bool := {b(mod_guard == 'flag')}
/-- `Sim.finalize` likewise for the sim-level results -/
def simScalesFlaggedOnly : Bool := {b(sim_guard == 'flag')}
/-- `Sim.finalize` starts with `if self.results_ready: raise AlreadyRunError` -/
def simFinalizeGuarded : Bool := {b(guarded)}
/-- `Sim.finalize` sets `self.results_ready = True` -/
def simFinalizeSetsReady : Bool := {b(sets)}
/-- default `how` of `Sim.summarize`, in dict order -/
def summaryHow : List (String × String) := [{hrows}]
/-- `get_func(key, how, default=...)` -/
def summaryDefault : String := {lean_str(how_default)}
/-- `if hkey in key` (substring) rather than a prefix test -/
def summaryMatchSubstring : Bool := {b(rule == 'substring')}
end StarsimModel.Gen
'''
    facts = dict(results=[[r['cls'], r['name'], r['scale'], r['dtype']] for r in rows],
                 cumulative=[[c['cls'], c['result'], c['source'], c['form']] for c in cums],
                 rates=[[q['cls'], q['result'], q['source'], q['has_out']] for q in rates],
                 module_scale_guard=mod_guard, sim_scale_guard=sim_guard, finalize_guarded=guarded,
                 finalize_sets_ready=sets, summary_how=how, summary_rule=rule, summary_default=how_default,
                 validate_total_pop=vtp, result_defaults=dict(scale=dscale, dtype=ddtype))
    return body, facts
