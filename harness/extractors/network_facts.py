"""
Extractor for C14: the filter expressions of starsim/networks.py that the theorems of Props/C14.lean rest on.

    DynamicNetwork.end_pairs     the duration update and the conjuncts of the keep-mask
    MaternalNet.end_pairs        the conjuncts of the keep-mask
    MaternalNet.step             which edges get beta 0
    SexualNetwork.active         conjuncts
    SexualNetwork.available      base conjuncts and the edge columns whose members are excluded
    Network.remove_uids          the keep expression
    RandomNet.add_pairs          conjuncts of `born`
    ErdosRenyiNet / DiskNet.add_pairs   whether endpoints are array positions or identifiers
    People.remove_dead           networks are told before auids is filtered

Canonicalisation: local single-assignment names are substituted, `self.sim.people`/`people`, `self.edges.x` /
`edges.x` / `self.edges['x']` are normalised, conjunctions are flattened and sorted; so renaming a local, reordering
the conjuncts or going through one more local variable does not change the extracted fact.
"""
import ast, copy
from harness.extract import generator, ExtractError, lean_str, unparse

REL = 'starsim/networks.py'


def _locals(fn):
    """ name -> value for plain single-target assignments to a Name (last one wins is NOT accepted: must be unique) """
    out = {}
    for n in ast.walk(fn):
        if isinstance(n, ast.Assign) and len(n.targets) == 1 and isinstance(n.targets[0], ast.Name):
            nm = n.targets[0].id
            if nm in out:
                out[nm] = None   # assigned twice: do not substitute
            else:
                out[nm] = n.value
    return {k: v for k, v in out.items() if v is not None}


class _Subst(ast.NodeTransformer):
    def __init__(self, env, depth=0):
        self.env = env; self.depth = depth

    def visit_Name(self, node):
        if isinstance(node.ctx, ast.Load) and node.id in self.env and self.depth < 8:
            return _Subst(self.env, self.depth + 1).visit(copy.deepcopy(self.env[node.id]))
        return node


def _canon(node, env):
    node = _Subst(env).visit(copy.deepcopy(node))
    s = unparse(node).replace(' ', '')
    for a, b in (("self.sim.people", "people"), ("sim.people", "people"),
                 ("self.edges['p1']", "p1"), ("self.edges['p2']", "p2"), ("self.edges.", ""), ("edges.", ""),
                 ("self.t.dt", "dt"), ("self.ti", "ti"), ("self.t.ti", "ti"), ("people.", ""), ("self.", "")):
        s = s.replace(a, b)
    return s


def _conj(node, env):
    """ flatten `a & b & c` (after substituting locals) into sorted canonical conjuncts """
    node = _Subst(env).visit(copy.deepcopy(node))
    out = []
    def rec(n):
        if isinstance(n, ast.BinOp) and isinstance(n.op, ast.BitAnd):
            rec(n.left); rec(n.right)
        else:
            out.append(_canon(n, {}))
    rec(node)
    return sorted(out)


def _mask_of_filter_loop(fn):
    """ the MASK in `for k in ...meta_keys(): <edges>[k] = <edges>[k][MASK]` """
    for n in ast.walk(fn):
        if isinstance(n, ast.For) and 'meta_keys' in unparse(n.iter) and len(n.body) == 1:
            st = n.body[0]
            if isinstance(st, ast.Assign) and isinstance(st.value, ast.Subscript) and isinstance(st.value.value, ast.Subscript):
                return st.value.slice
    raise ExtractError(f'{fn.name}: filter loop over meta_keys not found')


def _lst(xs):
    return '[' + ', '.join(lean_str(x) for x in xs) + ']'


def _assigned_values(fn, name):
    """ every value ever bound to the local `name` in `fn` (plain, augmented and annotated assignments; a tuple target or a
        loop/with binding of the name is unsupported) """
    out = []
    for n in ast.walk(fn):
        if isinstance(n, ast.Assign):
            for t in n.targets:
                if isinstance(t, ast.Name) and t.id == name:
                    out.append(n.value)
                elif any(isinstance(x, ast.Name) and x.id == name for x in ast.walk(t)) and not isinstance(t, (ast.Subscript, ast.Attribute)):
                    raise ExtractError(f'{fn.name}: `{name}` is bound through a compound target')
        elif isinstance(n, ast.AugAssign) and isinstance(n.target, ast.Name) and n.target.id == name:
            out.append(ast.BinOp(left=ast.Name(name, ast.Load()), op=n.op, right=n.value))
        elif isinstance(n, ast.AnnAssign) and isinstance(n.target, ast.Name) and n.target.id == name and n.value is not None:
            out.append(n.value)
        elif isinstance(n, (ast.For, ast.comprehension)) and any(isinstance(x, ast.Name) and x.id == name for x in ast.walk(n.target)):
            raise ExtractError(f'{fn.name}: `{name}` is bound by a loop')
        elif isinstance(n, ast.NamedExpr) and n.target.id == name:
            out.append(n.value)
    return out


class _Rename(ast.NodeTransformer):
    def __init__(self, old, new): self.old = old; self.new = new
    def visit_Name(self, node):
        return ast.Name(self.new, node.ctx) if node.id == self.old else node


def _dur_forms(fn, clsname):
    """ How the `dur` column handed to `self.append` in `add_pairs` is obtained from the class's duration parameter.  Every
        value the column expression can take is classified: `plain(<par>)` = the parameter repeated for every new edge,
        `drawn(<par>)` = one draw of the parameter per new edge, anything else is reported verbatim (`other:…`). """
    import re
    calls = [n for n in ast.walk(fn) if isinstance(n, ast.Call) and unparse(n.func) == 'self.append']
    if len(calls) != 1: raise ExtractError(f'{clsname}.add_pairs: exactly one self.append expected')
    kw = {k.arg: k.value for k in calls[0].keywords}
    if calls[0].args or None in kw or 'dur' not in kw or 'p1' not in kw:
        raise ExtractError(f'{clsname}.add_pairs: self.append(p1=…, dur=…) with keywords expected')
    env = _locals(fn)
    p1name = kw['p1'].id if isinstance(kw['p1'], ast.Name) else None
    if isinstance(kw['dur'], ast.Name):
        dname = kw['dur'].id
        vals = _assigned_values(fn, dname)
        if not vals: raise ExtractError(f'{clsname}.add_pairs: `{dname}` is never assigned')
    else:
        dname = None; vals = [kw['dur']]
    env = {k: v for k, v in env.items() if k not in (dname, p1name)}
    forms = set()
    for v in vals:
        v = copy.deepcopy(v)
        if p1name: v = _Rename(p1name, 'P1').visit(v)
        e = _canon(v, env)
        if not p1name: e = e.replace(_canon(kw['p1'], env), 'P1')
        m = (re.fullmatch(r'np\.ones\(len\(P1\)\)\*pars\.(\w+)', e) or re.fullmatch(r'pars\.(\w+)\*np\.ones\(len\(P1\)\)', e)
             or re.fullmatch(r'np\.full\(len\(P1\),(?:fill_value=)?pars\.(\w+)\)', e))
        if m: forms.add(f'plain({m.group(1)})'); continue
        m = re.fullmatch(r'pars\.(\w+)\.rvs\((?:P1|len\(P1\))\)', e)
        if m: forms.add(f'drawn({m.group(1)})'); continue
        forms.add('other:' + e[:80])
    return sorted(forms)


def _mat_add_forms(fn):
    """ MaternalNet.add_pairs(mother_inds, unborn_inds, dur, start): which columns the call appends """
    import re
    calls = [n for n in ast.walk(fn) if isinstance(n, ast.Call) and unparse(n.func) == 'self.append']
    if len(calls) != 1: raise ExtractError('MaternalNet.add_pairs: exactly one self.append expected')
    kw = {k.arg: k.value for k in calls[0].keywords}
    args = [a.arg for a in fn.args.args]
    out = []
    for col in ('dur', 'start', 'end'):
        if col not in kw or not isinstance(kw[col], ast.Name): raise ExtractError(f'MaternalNet.add_pairs: append({col}=<name>) expected')
        nm = kw[col].id
        vals = [_canon(v, {}) for v in _assigned_values(fn, nm)]
        forms = []
        if nm in args: forms.append(f'arg({nm})')
        for e in vals:
            if re.fullmatch(r'np\.ones_like\(dur\)\*ti|ti\*np\.ones_like\(dur\)|np\.full_like\(dur,ti\)|np\.full\(len\(dur\),ti\)', e): forms.append('ti')
            elif re.fullmatch(r'start\+(?:sc\.promotetoarray\(dur\)|np\.asarray\(dur\)|np\.array\(dur\)|dur)|(?:sc\.promotetoarray\(dur\)|dur)\+start', e): forms.append('start+dur')
            else: forms.append('other:' + e[:80])
        out.append(f'{col}=' + '|'.join(sorted(forms)))
    return out


@generator('NetworkFacts', [REL, 'starsim/people.py'])
def gen(src):
    facts = {}
    # DynamicNetwork.end_pairs
    fn = src.func(REL, 'end_pairs', 'DynamicNetwork'); env = _locals(fn)
    facts['end_pairs_keep'] = _conj(_mask_of_filter_loop(fn), env)
    upd = [n for n in ast.walk(fn) if isinstance(n, ast.Assign) and _canon(n.targets[0], env) == 'dur']
    if len(upd) != 1:
        raise ExtractError('DynamicNetwork.end_pairs: expected exactly one update of edges.dur')
    facts['end_pairs_dur'] = _canon(upd[0].value, env)
    # the update must precede the mask computation (the mask reads the updated column)
    order = [n for n in fn.body if isinstance(n, (ast.Assign, ast.For))]
    if order.index(upd[0]) > min(i for i, n in enumerate(order) if isinstance(n, ast.For)):
        raise ExtractError('DynamicNetwork.end_pairs: duration update after the filter loop')
    # MaternalNet
    fn = src.func(REL, 'end_pairs', 'MaternalNet'); env = _locals(fn)
    facts['mat_end_pairs_keep'] = _conj(_mask_of_filter_loop(fn), env)
    fn = src.func(REL, 'step', 'MaternalNet'); env = _locals(fn)
    zero = [n for n in ast.walk(fn) if isinstance(n, ast.Assign) and isinstance(n.targets[0], ast.Subscript)
            and _canon(n.targets[0].value, env) == 'beta']
    if len(zero) != 1 or unparse(zero[0].value) != '0':
        raise ExtractError('MaternalNet.step: `beta[mask] = 0` not found')
    facts['mat_step_zero'] = _canon(zero[0].targets[0].slice, env)
    # SexualNetwork.active / available
    fn = src.func(REL, 'active', 'SexualNetwork'); env = _locals(fn)
    ret = [n for n in ast.walk(fn) if isinstance(n, ast.Return)]
    facts['active'] = _conj(ret[0].value, env)
    fn = src.func(REL, 'available', 'SexualNetwork'); env = _locals(fn)
    ret = [n for n in ast.walk(fn) if isinstance(n, ast.Return)][0]
    if not (isinstance(ret.value, ast.Attribute) and ret.value.attr == 'uids' and isinstance(ret.value.value, ast.Name)):
        raise ExtractError('SexualNetwork.available: expected `return <mask>.uids`')
    mname = ret.value.value.id
    base = [n for n in fn.body if isinstance(n, ast.Assign) and isinstance(n.targets[0], ast.Name) and n.targets[0].id == mname]
    if len(base) != 1:
        raise ExtractError('SexualNetwork.available: mask must be assigned once')
    facts['available_base'] = _conj(base[0].value, {k: v for k, v in env.items() if k != mname})
    excl = []
    for n in fn.body:
        if isinstance(n, ast.Assign) and isinstance(n.targets[0], ast.Subscript) and unparse(n.targets[0].value) == mname:
            if unparse(n.value) != 'False':
                raise ExtractError('SexualNetwork.available: mask entries set to something other than False')
            excl.append(_canon(n.targets[0].slice, env))
    facts['available_excluded'] = sorted(excl)
    # remove_uids
    fn = src.func(REL, 'remove_uids', 'Network'); env = _locals(fn)
    facts['remove_uids_keep'] = _canon(_mask_of_filter_loop(fn), env)
    # RandomNet born
    fn = src.func(REL, 'add_pairs', 'RandomNet'); env = _locals(fn)
    if 'born' not in env: raise ExtractError('RandomNet.add_pairs: `born` not found')
    facts['random_born'] = _conj(env['born'], {k: v for k, v in env.items() if k != 'born'})
    # the plain-number branch: one contact count per ACTIVE agent (len(people)) or per eligible agent (born)?
    plain = None
    for n in ast.walk(fn):
        if isinstance(n, ast.If) and 'isinstance(self.pars.n_contacts' in unparse(n.test).replace(' ', '') and n.orelse:
            for m in n.orelse:
                if isinstance(m, ast.Assign) and unparse(m.targets[0]) == 'number_of_contacts':
                    plain = unparse(m.value).replace(' ', '')
    if plain is None:
        raise ExtractError('RandomNet.add_pairs: the branch for a non-Dist n_contacts was not found')
    if 'len(people)' in plain or 'len(self.sim.people)' in plain or 'len(people.auids)' in plain:
        facts['random_plain_counts'] = 'all-active'
    elif 'born' in plain:
        facts['random_plain_counts'] = 'eligible'
    else:
        raise ExtractError(f'RandomNet.add_pairs: cannot classify the plain-number contact vector {plain[:80]}')
    # ErdosRenyi endpoints: p1 = idx1[edge] (positions) or born_uids[idx1[edge]] (identifiers)
    fn = src.func(REL, 'add_pairs', 'ErdosRenyiNet'); env = _locals(fn)
    call = [n for n in ast.walk(fn) if isinstance(n, ast.Call) and unparse(n.func) == 'self.append']
    if len(call) != 1: raise ExtractError('ErdosRenyiNet.add_pairs: one self.append expected')
    kw = {k.arg: k.value for k in call[0].keywords}
    p1 = _canon(kw['p1'], env); p2 = _canon(kw['p2'], env)
    born = _canon(ast.Name('born_uids', ast.Load()), env) if 'born_uids' in env else None
    def kind(e):
        if born and e.startswith(born + '['): return 'uids'
        if e.startswith('born_uids['): return 'uids'
        if e.startswith('np.triu_indices(') or e.startswith('idx'): return 'positions'
        raise ExtractError(f'ErdosRenyiNet.add_pairs: cannot classify endpoint expression {e[:80]}')
    k1, k2 = kind(p1), kind(p2)
    if k1 != k2: raise ExtractError('ErdosRenyiNet.add_pairs: p1 and p2 built differently')
    facts['erdos_endpoints'] = k1
    # DiskNet endpoints
    fn = src.func(REL, 'add_pairs', 'DiskNet'); env = _locals(fn)
    asg = {}
    for n in ast.walk(fn):
        if isinstance(n, ast.Assign) and isinstance(n.targets[0], ast.Subscript) and unparse(n.targets[0].value) == 'self.edges':
            asg[ast.literal_eval(n.targets[0].slice)] = unparse(n.value).replace(' ', '')
    if 'p1' not in asg or 'p2' not in asg: raise ExtractError('DiskNet.add_pairs: edges[p1]/[p2] assignment not found')
    # where do the locals p1 / p2 come from: `p1, p2 = np.triu_indices(...)` (positions) or `p1, p2 = auids[i1], auids[i2]` (identifiers)
    origin = {}
    for n in ast.walk(fn):
        if isinstance(n, ast.Assign) and isinstance(n.targets[0], ast.Tuple):
            names = [unparse(t) for t in n.targets[0].elts]
            if isinstance(n.value, ast.Tuple) and len(n.value.elts) == len(names):
                for nm, v in zip(names, n.value.elts): origin[nm] = unparse(v).replace(' ', '')
            else:
                for nm in names: origin[nm] = unparse(n.value).replace(' ', '')
        elif isinstance(n, ast.Assign) and isinstance(n.targets[0], ast.Name):
            origin[n.targets[0].id] = unparse(n.value).replace(' ', '')
    def dkind(e):
        import re
        m = re.match(r'ss\.uids\((\w+)\[', e)
        src_expr = origin.get(m.group(1), '') if m else e
        if 'auids[' in src_expr or '.uid[' in src_expr or 'uid.raw[' in src_expr: return 'uids'
        if src_expr.startswith('np.triu_indices('): return 'positions'
        raise ExtractError(f'DiskNet.add_pairs: cannot classify endpoint expression {e[:80]} (from {src_expr[:60]})')
    d1, d2 = dkind(asg['p1']), dkind(asg['p2'])
    if d1 != d2: raise ExtractError('DiskNet.add_pairs: p1 and p2 built differently')
    facts['disk_endpoints'] = d1
    # People.remove_dead: network.remove_uids(uids) for every network, auids filtered by isin(..., invert=True)
    fn = src.func('starsim/people.py', 'remove_dead', 'People')
    txt = unparse(fn).replace(' ', '')
    facts['remove_dead_networks'] = 'fornetworkinself.sim.networks.values():' in txt and 'network.remove_uids(uids)' in txt
    facts['remove_dead_uids'] = _canon([n for n in ast.walk(fn) if isinstance(n, ast.Assign) and unparse(n.targets[0]) == 'uids'][0].value, {})
    # stated durations: the `dur` column of every add_pairs is the duration parameter itself (repeated or drawn per edge)
    facts['dur_forms'] = [[cls, _dur_forms(src.func(REL, 'add_pairs', cls), cls)]
                          for cls in ('RandomNet', 'ErdosRenyiNet', 'MFNet', 'MSMNet', 'EmbeddingNet')]
    facts['mat_add_forms'] = _mat_add_forms(src.func(REL, 'add_pairs', 'MaternalNet'))
    dur_forms_lean = '[' + ', '.join(f'({lean_str(c)}, {_lst(f)})' for c, f in facts['dur_forms']) + ']'
    body = f'''namespace StarsimModel.Gen
/-- `DynamicNetwork.end_pairs`: sorted conjuncts of the keep-mask -/
def endPairsKeep : List String := {_lst(facts['end_pairs_keep'])}
/-- `DynamicNetwork.end_pairs`: new value of `edges.dur` (computed before the mask) -/
def endPairsDur : String := {lean_str(facts['end_pairs_dur'])}
/-- `MaternalNet.end_pairs`: sorted conjuncts of the keep-mask -/
def matEndPairsKeep : List String := {_lst(facts['mat_end_pairs_keep'])}
/-- `MaternalNet.step`: edges whose beta is set to 0 -/
def matStepZero : String := {lean_str(facts['mat_step_zero'])}
/-- `SexualNetwork.active`: sorted conjuncts -/
def activeConj : List String := {_lst(facts['active'])}
/-- `SexualNetwork.available`: sorted conjuncts of the initial mask, and the index arrays set to False -/
def availableBase : List String := {_lst(facts['available_base'])}
def availableExcluded : List String := {_lst(facts['available_excluded'])}
/-- `Network.remove_uids`: keep expression -/
def removeUidsKeep : String := {lean_str(facts['remove_uids_keep'])}
/-- `RandomNet.add_pairs`: sorted conjuncts of `born` -/
def randomBorn : List String := {_lst(facts['random_born'])}
/-- `ErdosRenyiNet.add_pairs` / `DiskNet.add_pairs`: are the endpoints array positions (today) or identifiers -/
def erdosUsesPositions : Bool := {'true' if facts['erdos_endpoints'] == 'positions' else 'false'}
def diskUsesPositions : Bool := {'true' if facts['disk_endpoints'] == 'positions' else 'false'}
/-- `RandomNet.add_pairs`, plain-number `n_contacts`: is there one contact count per ACTIVE agent (today) although only the
    eligible ones are given source slots -/
def randomPlainCountsAllPeople : Bool := {'true' if facts['random_plain_counts'] == 'all-active' else 'false'}
/-- `People.remove_dead` tells every network to drop the dead agents -/
def removeDeadTellsNetworks : Bool := {'true' if facts['remove_dead_networks'] else 'false'}
def removeDeadUids : String := {lean_str(facts['remove_dead_uids'])}
/-- per class: every form the `dur` column handed to `append` in `add_pairs` can take (`plain(p)`: the parameter `p` repeated
    per new edge, `drawn(p)`: one draw of `p` per new edge, anything else verbatim) -/
def durForms : List (String × List String) := {dur_forms_lean}
/-- `MaternalNet.add_pairs`: the `dur`, `start` and `end` columns it appends -/
def matAddForms : List String := {_lst(facts['mat_add_forms'])}
end StarsimModel.Gen
'''
    return body, facts
