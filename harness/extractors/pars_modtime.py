"""
C17 round 6 — regenerates `Generated/ParsModTime.lean` from `starsim/time.py`:

  * the HEAD of `Time.init(self, sim=None)` (everything before start/stop are converted) read statement by statement into the ordered
    list `Gen.timeInitSteps` over `normalizeUnit` (`self.unit = validate_unit(self.unit)`) and `inheritFromSim` (the block
    `if isinstance(sim, ss.Sim):` whose shape is verified: unit := sc.ifelse(self.unit, sim.t.unit); a comparison of self.unit with
    sim.t.unit choosing between `sim.t.dt` and a constant; self.dt := sc.ifelse(self.dt, <that>)); anything else -> ExtractError;
  * the constant used when the units differ (`Gen.timeMismatchDt`);
  * that `validate_unit` maps strictly through `unit_mapping[...]` and raises on a KeyError (`Gen.validateUnitStrict`).
"""
import ast
from fractions import Fraction
from harness.extract import generator, ExtractError, unparse

REL = 'starsim/time.py'


def _n(x): return unparse(x).replace(' ', '')


def _inherit_block(st):
    """ verify the shape of the `if isinstance(sim, ss.Sim):` block; returns the fallback dt as a Fraction """
    if st.orelse: raise ExtractError('Time.init: the inherit-from-sim block has an else branch')
    body = list(st.body)
    if not body or _n(body[0]) != 'self.unit=sc.ifelse(self.unit,sim.t.unit)':
        raise ExtractError(f'Time.init: inherit block does not start with `self.unit = sc.ifelse(self.unit, sim.t.unit)`: `{unparse(body[0])[:90] if body else None}`')
    sel = body[1] if len(body) > 1 else None
    if not (isinstance(sel, ast.If) and _n(sel.test) in ('self.unit==sim.t.unit', 'sim.t.unit==self.unit')):
        raise ExtractError(f'Time.init: expected `if self.unit == sim.t.unit:` after the unit is inherited, found `{unparse(sel)[:90] if sel is not None else None}`')
    def assigns(stmts):
        out = {}
        for s in stmts:
            if not (isinstance(s, ast.Assign) and len(s.targets) == 1 and isinstance(s.targets[0], ast.Name)):
                raise ExtractError(f'Time.init: unsupported statement in the unit comparison: `{unparse(s)[:90]}`')
            out[s.targets[0].id] = s.value
        return out
    a, b = assigns(sel.body), assigns(sel.orelse)
    if set(a) != set(b): raise ExtractError(f'Time.init: the two branches of the unit comparison assign different names: {sorted(a)} vs {sorted(b)}')
    tail = body[2:]
    fills = {}
    for s in tail:
        if isinstance(s, ast.Assign) and len(s.targets) == 1 and _n(s.targets[0]) in ('self.dt', 'self.start', 'self.stop') \
                and isinstance(s.value, ast.Call) and _n(s.value.func) == 'sc.ifelse' and len(s.value.args) == 2 \
                and _n(s.value.args[0]) == _n(s.targets[0]) and isinstance(s.value.args[1], ast.Name):
            fills[_n(s.targets[0])] = s.value.args[1].id
        else:
            raise ExtractError(f'Time.init: unsupported statement in the inherit block: `{unparse(s)[:90]}`')
    if 'self.dt' not in fills: raise ExtractError('Time.init: the inherit block never fills self.dt')
    loc = fills['self.dt']
    if loc not in a or _n(a[loc]) != 'sim.t.dt':
        raise ExtractError(f'Time.init: with equal units the inherited dt is `{unparse(a.get(loc))}`, expected `sim.t.dt`')
    fb = b[loc]
    if not (isinstance(fb, ast.Constant) and isinstance(fb.value, (int, float)) and not isinstance(fb.value, bool)):
        raise ExtractError(f'Time.init: with different units the inherited dt is `{unparse(fb)}`, expected a numeric constant')
    return Fraction(fb.value)


@generator('ParsModTime', [REL])
def gen_modtime(src):
    fn = src.func(REL, 'init', 'Time')
    args = [a.arg for a in fn.args.args]
    if args[:2] != ['self', 'sim']: raise ExtractError(f'Time.init: parameters {args}, expected (self, sim=None)')
    steps = []; fallback = None
    for st in fn.body:
        if isinstance(st, ast.Expr) and isinstance(st.value, ast.Constant) and isinstance(st.value.value, str): continue
        s = _n(st)
        if s == 'self.unit=validate_unit(self.unit)':
            steps.append('.normalizeUnit'); continue
        if isinstance(st, ast.If) and _n(st.test) == 'isinstance(sim,ss.Sim)':
            fallback = _inherit_block(st); steps.append('.inheritFromSim'); continue
        if isinstance(st, ast.Assign) and _n(st.targets[0]) == 'self.start':
            break           # from here on start / stop / the vectors are built (C07's part)
        raise ExtractError(f'Time.init: unsupported statement before start/stop are converted: `{unparse(st)[:90]}`')
    if fallback is None: raise ExtractError('Time.init: no `if isinstance(sim, ss.Sim):` block')
    vu = src.func(REL, 'validate_unit', None)
    body = [x for x in vu.body if not (isinstance(x, ast.Expr) and isinstance(x.value, ast.Constant))]
    arg = vu.args.args[0].arg
    strict = (len(body) == 2 and isinstance(body[0], ast.Try) and len(body[0].body) == 1 and _n(body[0].body[0]) == f'{arg}=unit_mapping[{arg}]'
              and len(body[0].handlers) == 1 and _n(body[0].handlers[0].type) == 'KeyError' and isinstance(body[0].handlers[0].body[-1], ast.Raise)
              and not body[0].orelse and not body[0].finalbody and isinstance(body[1], ast.Return) and _n(body[1].value) == arg)
    if not strict: raise ExtractError('validate_unit is not `try: unit = unit_mapping[unit] except KeyError: raise ...; return unit`')
    lean = f'''import StarsimModel.Model.ParsModTime
namespace StarsimModel.Gen
open StarsimModel.ParsModTime

/-- the head of `Time.init(sim)`: its statements in source order (up to the conversion of start / stop) -/
def timeInitSteps : List InitStep := [{', '.join(steps)}]
/-- the dt a module inherits when its unit differs from the sim's -/
def timeMismatchDt : Rat := ({fallback.numerator} : Rat) / {fallback.denominator}
/-- `validate_unit`: `unit_mapping[unit]`, KeyError -> KeyNotFoundError -/
def validateUnitStrict : Bool := true
end StarsimModel.Gen
'''
    return lean, dict(steps=steps, fallback=[fallback.numerator, fallback.denominator], validate_unit_strict=True)
