"""
C01 / C02 / C18: static scan of starsim/**/*.py for reads of process-global state, and the facts that make a
distribution's seed a function of its path only.

Generated/GlobalReads.lean
  globalReads : List (file, class, function, callee)   every call to a module-level NumPy random function
                (np.random.<fn> other than generator constructors), sc.randround (and local aliases of it), the stdlib
                `random` module, builtin hash(), attributed to the enclosing class and function.
Generated/SeedFacts.lean
  expression texts of Dist.process_seed, Dists.init's call of dist.init, Module.start_step, Sim.init's reseeding,
  checked by `decide` in Props/C01.lean / C02.lean.
"""
import ast, os, glob
from harness.extract import generator, ExtractError, unparse, lean_str

CONSTRUCTORS = {'default_rng', 'Generator', 'PCG64', 'SeedSequence', 'RandomState', 'BitGenerator', 'MT19937', 'Philox', 'SFC64'}
WRITERS = {'seed', 'set_state'}   # reseeding the global generator is what Sim.init does on purpose


def scan_file(path, rel):
    tree = ast.parse(open(path).read())
    imports_stdlib_random = any(isinstance(n, ast.Import) and any(a.name == 'random' and a.asname is None for a in n.names) for n in ast.walk(tree))
    # module-level aliases of sc.randround / np.random functions:  rr = sc.randround
    aliases = {}
    for st in tree.body:
        if isinstance(st, ast.Assign) and len(st.targets) == 1 and isinstance(st.targets[0], ast.Name):
            v = unparse(st.value)
            if v == 'sc.randround' or v.startswith('np.random.') or v.startswith('numpy.random.'):
                aliases[st.targets[0].id] = v
    rows = []

    def classify(call):
        name = unparse(call.func)
        if name in aliases:
            name = aliases[name]
        if name == 'sc.randround':
            return 'sc.randround'
        for pre in ('np.random.', 'numpy.random.'):
            if name.startswith(pre):
                fn = name[len(pre):]
                if fn.split('.')[0] in CONSTRUCTORS or fn.startswith('mtrand'):
                    return None
                if fn in WRITERS:
                    return 'write:' + name
                return name
        if imports_stdlib_random and name.startswith('random.'):
            fn = name.split('.', 1)[1]
            return ('write:' if fn in WRITERS else '') + name
        if name == 'hash':
            return 'hash'
        return None

    def is_set_expr(n):
        return isinstance(n, (ast.Set, ast.SetComp)) or (isinstance(n, ast.Call) and unparse(n.func) in ('set', 'frozenset'))

    ORDER_CONSUMERS = {'list', 'tuple', 'np.array', 'np.asarray', 'enumerate', 'iter', 'next', 'ss.uids', 'np.fromiter', 'zip', 'dict.fromkeys'}

    def set_order_use(n):
        """ the iteration order of a set reaches a value: list(set(..)), for x in set(..), [.. for x in set(..)] """
        if isinstance(n, ast.Call) and unparse(n.func) in ORDER_CONSUMERS and n.args and is_set_expr(n.args[0]):
            return True
        if isinstance(n, (ast.For, ast.AsyncFor)) and is_set_expr(n.iter):
            return True
        if isinstance(n, ast.comprehension) and is_set_expr(n.iter):
            return True
        return False

    def walk(node, cls, fn):
        for ch in ast.iter_child_nodes(node):
            if isinstance(ch, ast.ClassDef):
                walk(ch, ch.name, fn)
            elif isinstance(ch, (ast.FunctionDef, ast.AsyncFunctionDef)):
                walk(ch, cls, ch.name if fn is None else fn + '.' + ch.name)
            else:
                if isinstance(ch, ast.Call):
                    k = classify(ch)
                    if k:
                        rows.append((rel, cls or '', fn or '', k))
                if set_order_use(ch):
                    rows.append((rel, cls or '', fn or '', 'set-order'))   # hash-seed dependent for strings
                walk(ch, cls, fn)
    walk(tree, None, None)
    return rows


def scan_shared_mutables(path, rel):
    """ objects created once at class-definition / function-definition time and then shared by every instance, every
        call and every simulation of the process: class-body assignments of mutable displays or constructor calls, and
        mutable default arguments.  (Immutable defaults — numbers, strings, None, tuples, attribute constants — are not listed.) """
    tree = ast.parse(open(path).read())
    MUT = (ast.List, ast.Dict, ast.Set, ast.ListComp, ast.DictComp, ast.SetComp, ast.Call)
    rows = []
    def visit(node, cls):
        for ch in ast.iter_child_nodes(node):
            if isinstance(ch, ast.ClassDef):
                for st in ch.body:
                    if isinstance(st, (ast.Assign, ast.AnnAssign)) and st.value is not None and isinstance(st.value, MUT):
                        if isinstance(st.value, ast.Call) and unparse(st.value.func) in ('property', 'staticmethod', 'classmethod'):
                            continue
                        tgt = unparse(st.targets[0]) if isinstance(st, ast.Assign) else unparse(st.target)
                        rows.append((rel, ch.name, 'class-attribute', f'{tgt} = {unparse(st.value)[:60]}'))
                visit(ch, ch.name)
            elif isinstance(ch, (ast.FunctionDef, ast.AsyncFunctionDef, ast.Lambda)):
                a = ch.args
                names = [x.arg for x in a.args][len(a.args) - len(a.defaults):] + [x.arg for x, d in zip(a.kwonlyargs, a.kw_defaults) if d is not None]
                defs = list(a.defaults) + [d for d in a.kw_defaults if d is not None]
                for nm, d in zip(names, defs):
                    if isinstance(d, MUT):
                        rows.append((rel, (cls + '.' if cls else '') + getattr(ch, 'name', '<lambda>'), 'mutable-default', f'{nm}={unparse(d)[:60]}'))
                visit(ch, cls)
            else:
                visit(ch, cls)
    visit(tree, None)
    return rows


def all_py(repo):
    out = []
    for p in sorted(glob.glob(os.path.join(repo, 'starsim', '**', '*.py'), recursive=True)):
        out.append(os.path.relpath(p, repo))
    return out


SCAN_FILES = ['starsim/arrays.py', 'starsim/demographics.py', 'starsim/disease.py', 'starsim/distributions.py', 'starsim/interventions.py',
              'starsim/loop.py', 'starsim/modules.py', 'starsim/networks.py', 'starsim/parameters.py', 'starsim/people.py', 'starsim/products.py',
              'starsim/results.py', 'starsim/run.py', 'starsim/settings.py', 'starsim/sim.py', 'starsim/time.py', 'starsim/utils.py',
              'starsim/diseases/cholera.py', 'starsim/diseases/ebola.py', 'starsim/diseases/gonorrhea.py', 'starsim/diseases/hiv.py',
              'starsim/diseases/measles.py', 'starsim/diseases/ncd.py', 'starsim/diseases/sir.py', 'starsim/diseases/syphilis.py']


@generator('GlobalReads', SCAN_FILES)
def gen_global_reads(src):
    rows = []
    present = set(all_py(src.repo))
    # a new simulation source file must be added to the scan list (fail closed); calibration / samples / version / __init__ are not simulation code
    extra = [f for f in present if f not in SCAN_FILES and os.path.basename(f) not in ('__init__.py', 'version.py', 'calibration.py', 'samples.py')]
    if extra:
        raise ExtractError(f'source files not covered by the global-state scan: {extra}')
    for rel in SCAN_FILES:
        rows += scan_file(os.path.join(src.repo, rel), rel)
    shared = []
    for rel in SCAN_FILES:
        shared += scan_shared_mutables(os.path.join(src.repo, rel), rel)
    shared = sorted(set(shared))
    reads = sorted(set(r for r in rows if not r[3].startswith('write:')))
    writes = sorted(set(r for r in rows if r[3].startswith('write:')))
    def tab(rs):
        return ',\n  '.join(f'({lean_str(a)}, {lean_str(b)}, {lean_str(c)}, {lean_str(d)})' for a, b, c, d in rs)
    body = f'''namespace StarsimModel.Gen
/-- (file, class, function, callee): every read of process-global random / hash state in simulation code -/
def globalReads : List (String × String × String × String) := [
  {tab(reads)}]
/-- deliberate (re)seeding of the global generators -/
def globalWrites : List (String × String × String × String) := [
  {tab(writes)}]
/-- (file, class or function, kind, text): mutable objects created once per process and shared by all instances / calls /
    simulations (class-body mutable attributes, mutable default arguments) -/
def sharedMutables : List (String × String × String × String) := [
  {tab(shared)}]
end StarsimModel.Gen
'''
    return body, dict(reads=[list(r) for r in reads], writes=[list(r) for r in writes], shared=[list(r) for r in shared])


def find_assign(fn, target):
    for st in ast.walk(fn):
        if isinstance(st, ast.Assign) and len(st.targets) == 1 and unparse(st.targets[0]) == target:
            return st.value
    raise ExtractError(f'{fn.name}: no assignment to {target}')


@generator('SeedFacts', ['starsim/distributions.py', 'starsim/modules.py', 'starsim/sim.py', 'starsim/utils.py'])
def gen_seed_facts(src):
    rel = 'starsim/distributions.py'
    ps = src.func(rel, 'process_seed', 'Dist')
    unique = unparse(find_assign(ps, 'unique_name'))
    offset = [unparse(st.value) for st in ast.walk(ps) if isinstance(st, ast.Assign) and unparse(st.targets[0]) == 'self.offset']
    seed = unparse(find_assign(ps, 'self.seed'))
    s2i = src.func(rel, 'str2int')
    s2i_int = unparse(find_assign(s2i, 'integer')); s2i_seed = unparse(find_assign(s2i, 'seed'))
    # Dists.init: the search and the per-dist init call
    di = src.func(rel, 'init', 'Dists')
    search = unparse(find_assign(di, 'self.dists'))
    init_calls = [unparse(n) for n in ast.walk(di) if isinstance(n, ast.Call) and unparse(n.func) == 'dist.init']
    loop_iter = [unparse(n.iter) + ' -> ' + unparse(n.target) for n in ast.walk(di) if isinstance(n, ast.For)]
    # Module.start_step
    ss_ = src.func('starsim/modules.py', 'start_step', 'Module')
    jumps = [unparse(n) for n in ast.walk(ss_) if isinstance(n, ast.Call) and isinstance(n.func, ast.Attribute) and n.func.attr in ('jump_dt', 'jump')]
    # copy_to_module ownership test
    ctm = src.func(rel, 'copy_to_module', 'Dists')
    matches = unparse(find_assign(ctm, 'matches'))
    # Dist.rng creation
    init = src.func(rel, 'init', 'Dist')
    rngs = [unparse(st.value) for st in ast.walk(init) if isinstance(st, ast.Assign) and unparse(st.targets[0]) == 'self.rng']
    # Sim.init: reseeding
    sim_init = src.func('starsim/sim.py', 'init', 'Sim')
    setseed = [unparse(n) for n in ast.walk(sim_init) if isinstance(n, ast.Call) and unparse(n.func) == 'ss.set_seed']
    sim_dists = src.func('starsim/sim.py', 'init_dists', 'Sim')
    dist_init = [unparse(n) for n in ast.walk(sim_dists) if isinstance(n, ast.Call) and isinstance(n.func, ast.Attribute) and n.func.attr == 'init']
    facts = dict(unique_name=unique, offset=offset, seed=seed, str2int_integer=s2i_int, str2int_seed=s2i_seed, search=search,
                 dist_init_calls=init_calls, dist_loop=loop_iter, start_step_jumps=jumps, ownership=matches, rng=rngs,
                 sim_set_seed=setseed, sim_dists_init=dist_init)
    def L(xs): return '[' + ', '.join(lean_str(x) for x in xs) + ']'
    body = f'''namespace StarsimModel.Gen.Seed
/-- `Dist.process_seed`: `unique_name = …` -/
def uniqueName : String := {lean_str(unique)}
/-- `Dist.process_seed`: the right-hand sides assigned to `self.offset` -/
def offsetExprs : List String := {L(offset)}
/-- `Dist.process_seed`: `self.seed = …` -/
def seedExpr : String := {lean_str(seed)}
/-- `str2int`: how the string is turned into an integer -/
def str2intInteger : String := {lean_str(s2i_int)}
def str2intSeed : String := {lean_str(s2i_seed)}
/-- `Dists.init`: how the distributions are found and named -/
def searchExpr : String := {lean_str(search)}
def distLoop : List String := {L(loop_iter)}
def distInitCalls : List String := {L(init_calls)}
/-- `Dist.init`: how the generator is created -/
def rngExprs : List String := {L(rngs)}
/-- `Module.start_step`: which distributions are advanced -/
def startStepJumps : List String := {L(jumps)}
/-- `Dists.copy_to_module`: ownership test -/
def ownershipExpr : String := {lean_str(matches)}
/-- `Sim.init`: reseeding of the legacy global generators, and initialisation of the distributions -/
def simSetSeed : List String := {L(setseed)}
def simDistsInit : List String := {L(dist_init)}
end StarsimModel.Gen.Seed
'''
    return body, facts
