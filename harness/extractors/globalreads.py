"""
C01 / C02 / C18: static scan of starsim/**/*.py for reads of process-global state, and the facts that make a
distribution's seed a function of its path only.

Generated/GlobalReads.lean
  globalReads : List (file, class, function, callee)   every call to a module-level NumPy random function
                (np.random.<fn> other than generator constructors), sc.randround (and local aliases of it), the stdlib
                `random` module, builtin hash(), attributed to the enclosing class and function.
Generated/SeedFacts.lean
  expression texts of Dist.process_seed, Dists.init's call of dist.init, Module.start_step, Sim.init's reseeding,
  checked by `decide` in Props/C01.lean / C02.lean.
"""
import ast, os, glob
from harness.extract import generator, ExtractError, unparse, lean_str

CONSTRUCTORS = {'default_rng', 'Generator', 'PCG64', 'SeedSequence', 'RandomState', 'BitGenerator', 'MT19937', 'Philox', 'SFC64'}
WRITERS = {'seed', 'set_state'}   # reseeding the global generator is what Sim.init does on purpose


def scan_file(path, rel):
    tree = ast.parse(open(path).read())
    imports_stdlib_random = any(isinstance(n, ast.Import) and any(a.name == 'random' and a.asname is None for a in n.names) for n in ast.walk(tree))
    # module-level aliases of sc.randround / np.random functions:  rr = sc.randround
    aliases = {}
    for st in tree.body:
        if isinstance(st, ast.Assign) and len(st.targets) == 1 and isinstance(st.targets[0], ast.Name):
            v = unparse(st.value)
            if v == 'sc.randround' or v.startswith('np.random.') or v.startswith('numpy.random.'):
                aliases[st.targets[0].id] = v
    rows = []

    def classify(call):
        name = unparse(call.func)
        if name in aliases:
            name = aliases[name]
        if name == 'sc.randround':
            return 'sc.randround'
        for pre in ('np.random.', 'numpy.random.'):
            if name.startswith(pre):
                fn = name[len(pre):]
                if fn.split('.')[0] in CONSTRUCTORS or fn.startswith('mtrand'):
                    return None
                if fn in WRITERS:
                    return 'write:' + name
                return name
        if imports_stdlib_random and name.startswith('random.'):
            fn = name.split('.', 1)[1]
            return ('write:' if fn in WRITERS else '') + name
        if name == 'hash':
            return 'hash'
        return None

    SETOPS = (ast.BitOr, ast.BitAnd, ast.Sub, ast.BitXor)
    SETMETHODS = ('union', 'intersection', 'difference', 'symmetric_difference', 'copy')
    setnames = [set()]      # names bound to a set in the function being walked (flow-insensitive, per function)

    def is_set_expr(n):
        if isinstance(n, (ast.Set, ast.SetComp)) or (isinstance(n, ast.Call) and unparse(n.func) in ('set', 'frozenset')):
            return True
        if isinstance(n, ast.Name) and n.id in setnames[0]:
            return True
        if isinstance(n, ast.BinOp) and isinstance(n.op, SETOPS) and (is_set_expr(n.left) or is_set_expr(n.right)):
            return True
        if isinstance(n, ast.Call) and isinstance(n.func, ast.Attribute) and n.func.attr in SETMETHODS and is_set_expr(n.func.value):
            return True
        return False

    def bound_sets(fn_node):
        """ local names assigned a set anywhere in this function (two passes: sets built from other local sets) """
        names = set()
        for _ in range(2):
            setnames[0] = names
            for st in ast.walk(fn_node):
                if isinstance(st, ast.Assign) and is_set_expr(st.value):
                    names |= {t.id for t in st.targets if isinstance(t, ast.Name)}
                elif isinstance(st, ast.AnnAssign) and st.value is not None and is_set_expr(st.value) and isinstance(st.target, ast.Name):
                    names.add(st.target.id)
                elif isinstance(st, ast.AugAssign) and isinstance(st.op, SETOPS) and isinstance(st.target, ast.Name) and is_set_expr(st.value):
                    names.add(st.target.id)
        return names

    ORDER_CONSUMERS = {'list', 'tuple', 'np.array', 'np.asarray', 'enumerate', 'iter', 'next', 'ss.uids', 'np.fromiter', 'zip', 'dict.fromkeys'}

    def set_order_use(n):
        """ the iteration order of a set reaches a value: list(set(..)), for x in set(..), [.. for x in set(..)] """
        if isinstance(n, ast.Call) and unparse(n.func) in ORDER_CONSUMERS and n.args and is_set_expr(n.args[0]):
            return True
        if isinstance(n, (ast.For, ast.AsyncFor)) and is_set_expr(n.iter):
            return True
        if isinstance(n, ast.comprehension) and is_set_expr(n.iter):
            return True
        if isinstance(n, ast.Call) and isinstance(n.func, ast.Attribute) and n.func.attr == 'pop' and not n.args and is_set_expr(n.func.value):
            return True     # set.pop(): an arbitrary element
        return False

    def walk(node, cls, fn):
        for ch in ast.iter_child_nodes(node):
            if isinstance(ch, ast.ClassDef):
                walk(ch, ch.name, fn)
            elif isinstance(ch, (ast.FunctionDef, ast.AsyncFunctionDef)):
                outer = setnames[0]
                setnames[0] = outer | bound_sets(ch)
                walk(ch, cls, ch.name if fn is None else fn + '.' + ch.name)
                setnames[0] = outer
            else:
                if isinstance(ch, ast.Call):
                    k = classify(ch)
                    if k:
                        rows.append((rel, cls or '', fn or '', k))
                if set_order_use(ch):
                    rows.append((rel, cls or '', fn or '', 'set-order'))   # hash-seed dependent for strings
                walk(ch, cls, fn)
    walk(tree, None, None)
    return rows


def scan_shared_mutables(path, rel):
    """ objects created once at class-definition / function-definition time and then shared by every instance, every
        call and every simulation of the process: class-body assignments of mutable displays or constructor calls, and
        mutable default arguments.  (Immutable defaults — numbers, strings, None, tuples, attribute constants — are not listed.) """
    tree = ast.parse(open(path).read())
    MUT = (ast.List, ast.Dict, ast.Set, ast.ListComp, ast.DictComp, ast.SetComp, ast.Call)
    rows = []
    def visit(node, cls):
        for ch in ast.iter_child_nodes(node):
            if isinstance(ch, ast.ClassDef):
                for st in ch.body:
                    if isinstance(st, (ast.Assign, ast.AnnAssign)) and st.value is not None and isinstance(st.value, MUT):
                        if isinstance(st.value, ast.Call) and unparse(st.value.func) in ('property', 'staticmethod', 'classmethod'):
                            continue
                        tgt = unparse(st.targets[0]) if isinstance(st, ast.Assign) else unparse(st.target)
                        rows.append((rel, ch.name, 'class-attribute', f'{tgt} = {unparse(st.value)[:60]}'))
                visit(ch, ch.name)
            elif isinstance(ch, (ast.FunctionDef, ast.AsyncFunctionDef, ast.Lambda)):
                a = ch.args
                names = [x.arg for x in a.args][len(a.args) - len(a.defaults):] + [x.arg for x, d in zip(a.kwonlyargs, a.kw_defaults) if d is not None]
                defs = list(a.defaults) + [d for d in a.kw_defaults if d is not None]
                for nm, d in zip(names, defs):
                    if isinstance(d, MUT):
                        rows.append((rel, (cls + '.' if cls else '') + getattr(ch, 'name', '<lambda>'), 'mutable-default', f'{nm}={unparse(d)[:60]}'))
                visit(ch, cls)
            else:
                visit(ch, cls)
    visit(tree, None)
    return rows


def all_py(repo):
    out = []
    for p in sorted(glob.glob(os.path.join(repo, 'starsim', '**', '*.py'), recursive=True)):
        out.append(os.path.relpath(p, repo))
    return out


SCAN_FILES = ['starsim/arrays.py', 'starsim/demographics.py', 'starsim/disease.py', 'starsim/distributions.py', 'starsim/interventions.py',
              'starsim/loop.py', 'starsim/modules.py', 'starsim/networks.py', 'starsim/parameters.py', 'starsim/people.py', 'starsim/products.py',
              'starsim/results.py', 'starsim/run.py', 'starsim/settings.py', 'starsim/sim.py', 'starsim/time.py', 'starsim/utils.py',
              'starsim/diseases/cholera.py', 'starsim/diseases/ebola.py', 'starsim/diseases/gonorrhea.py', 'starsim/diseases/hiv.py',
              'starsim/diseases/measles.py', 'starsim/diseases/ncd.py', 'starsim/diseases/sir.py', 'starsim/diseases/syphilis.py']


@generator('GlobalReads', SCAN_FILES)
def gen_global_reads(src):
    rows = []
    present = set(all_py(src.repo))
    # a new simulation source file must be added to the scan list (fail closed); calibration / samples / version / __init__ are not simulation code
    extra = [f for f in present if f not in SCAN_FILES and os.path.basename(f) not in ('__init__.py', 'version.py', 'calibration.py', 'samples.py')]
    if extra:
        raise ExtractError(f'source files not covered by the global-state scan: {extra}')
    for rel in SCAN_FILES:
        rows += scan_file(os.path.join(src.repo, rel), rel)
    shared = []
    for rel in SCAN_FILES:
        shared += scan_shared_mutables(os.path.join(src.repo, rel), rel)
    shared = sorted(set(shared))
    reads = sorted(set(r for r in rows if not r[3].startswith('write:')))
    writes = sorted(set(r for r in rows if r[3].startswith('write:')))
    def tab(rs):
        return ',\n  '.join(f'({lean_str(a)}, {lean_str(b)}, {lean_str(c)}, {lean_str(d)})' for a, b, c, d in rs)
    body = f'''namespace StarsimModel.Gen
/-- (file, class, function, callee): every read of process-global random / hash state in simulation code -/
def globalReads : List (String × String × String × String) := [
  {tab(reads)}]
/-- deliberate (re)seeding of the global generators -/
def globalWrites : List (String × String × String × String) := [
  {tab(writes)}]
/-- (file, class or function, kind, text): mutable objects created once per process and shared by all instances / calls /
    simulations (class-body mutable attributes, mutable default arguments) -/
def sharedMutables : List (String × String × String × String) := [
  {tab(shared)}]
end StarsimModel.Gen
'''
    return body, dict(reads=[list(r) for r in reads], writes=[list(r) for r in writes], shared=[list(r) for r in shared])


def find_assign(fn, target):
    for st in ast.walk(fn):
        if isinstance(st, ast.Assign) and len(st.targets) == 1 and unparse(st.targets[0]) == target:
            return st.value
    raise ExtractError(f'{fn.name}: no assignment to {target}')


def calls_in(node, pred):
    return [n for n in ast.walk(node) if isinstance(n, ast.Call) and pred(n)]


def kw(call, name):
    for k in call.keywords:
        if k.arg == name: return k.value
    return None


def tr_seed_expr(n, env):
    """ Python int expression over names (None / 0 are falsy) -> Lean Nat term.  `a or b` = pyOr a b. """
    if isinstance(n, ast.Constant) and isinstance(n.value, int) and not isinstance(n.value, bool):
        return str(n.value)
    if isinstance(n, ast.Constant) and n.value is None:
        return '0'
    if isinstance(n, (ast.Name, ast.Attribute)):
        k = unparse(n)
        if k in env: return env[k]
        raise ExtractError(f'process_seed: unknown name {k}')
    if isinstance(n, ast.BoolOp) and isinstance(n.op, ast.Or):
        out = tr_seed_expr(n.values[-1], env)
        for v in reversed(n.values[:-1]):
            out = f'(pyOr {tr_seed_expr(v, env)} {out})'
        return out
    if isinstance(n, ast.BinOp) and isinstance(n.op, ast.Add):
        return f'({tr_seed_expr(n.left, env)} + {tr_seed_expr(n.right, env)})'
    raise ExtractError(f'process_seed: unsupported expression {unparse(n)}')


def B(x):
    return 'true' if x else 'false'


@generator('SeedFacts', ['starsim/distributions.py', 'starsim/modules.py', 'starsim/sim.py', 'starsim/utils.py'])
def gen_seed_facts(src):
    """ Semantic facts (not source text) about how a distribution gets its name, seed, generator and per-step jump """
    rel = 'starsim/distributions.py'
    ps = src.func(rel, 'process_seed', 'Dist')
    # seed formula, translated
    seed_node = find_assign(ps, 'self.seed')
    seed_lean = tr_seed_expr(seed_node, {'self.offset': 'offset', 'seed': 'seedArg', 'self.seed': 'prev'})
    # the name that is hashed: `trace or self.trace or self.name` (any or-chain starting with the trace argument)
    un = find_assign(ps, 'unique_name')
    prefers_trace = isinstance(un, ast.BoolOp) and isinstance(un.op, ast.Or) and unparse(un.values[0]) == 'trace'
    offs = [st.value for st in ast.walk(ps) if isinstance(st, ast.Assign) and unparse(st.targets[0]) == 'self.offset']
    offset_hashes_name = any(isinstance(v, ast.Call) and unparse(v.func) in ('str2int', 'ss.distributions.str2int') and v.args and unparse(v.args[0]) == 'unique_name' for v in offs)
    # str2int: a process-independent digest reduced modulo `modulo`
    s2i = src.func(rel, 'str2int')
    uses_builtin_hash = bool(calls_in(s2i, lambda c: unparse(c.func) == 'hash'))
    uses_digest = bool(calls_in(s2i, lambda c: unparse(c.func) in ('sc.sha', 'hashlib.sha224', 'hashlib.sha256', 'hashlib.md5', 'hashlib.sha1')))
    ret = [n.value for n in ast.walk(s2i) if isinstance(n, ast.Return)]
    reduces_mod = any(isinstance(n, ast.BinOp) and isinstance(n.op, ast.Mod) and unparse(n.right) == 'modulo' for n in ast.walk(s2i))
    # Dist.init: generator from the seed
    init = src.func(rel, 'init', 'Dist')
    rng_from_seed = bool(calls_in(init, lambda c: unparse(c.func).endswith('default_rng') and any(unparse(a) == 'self.seed' for a in list(c.args) + [k.value for k in c.keywords])))
    # Dists.init: names come from the search, every dist gets (trace, base seed)
    di = src.func(rel, 'init', 'Dists')
    search = find_assign(di, 'self.dists')
    search_by_path = isinstance(search, ast.Call) and unparse(search.func) == 'sc.search' and kw(search, 'type') is not None and unparse(kw(search, 'type')) == 'Dist'
    loops = [n for n in ast.walk(di) if isinstance(n, ast.For) and unparse(n.iter) == 'self.dists.items()']
    passes = False
    for lp in loops:
        if isinstance(lp.target, ast.Tuple) and len(lp.target.elts) == 2:
            tvar = unparse(lp.target.elts[0]); dvar = unparse(lp.target.elts[1])
            for c in calls_in(lp, lambda c: unparse(c.func) == f'{dvar}.init'):
                t, sd = kw(c, 'trace'), kw(c, 'seed')
                if t is not None and unparse(t) == tvar and sd is not None and unparse(sd) in ('base_seed', 'self.base_seed'):
                    passes = True
    # Module.start_step: own dists, not forced
    ss_ = src.func('starsim/modules.py', 'start_step', 'Module')
    jumps = calls_in(ss_, lambda c: isinstance(c.func, ast.Attribute) and c.func.attr in ('jump_dt', 'jump'))
    own = bool(jumps) and all(unparse(c.func.value) == 'self.dists' for c in jumps)
    def truthy(v): return v is not None and not (isinstance(v, ast.Constant) and v.value in (False, None, 0))
    forced = any(truthy(kw(c, 'force')) or len(c.args) >= 2 for c in jumps)
    # ownership of a dist = identity of its module
    ctm = src.func(rel, 'copy_to_module', 'Dists')
    by_identity = any(isinstance(n, ast.Compare) and ({unparse(n.left), unparse(n.comparators[0])} in ({'id(dist.module)', 'id(module)'}, {'dist.module', 'module'}))
                      and isinstance(n.ops[0], (ast.Eq, ast.Is)) for n in ast.walk(ctm))
    # Sim.init reseeds the legacy generators and initialises the dists with the sim's rand_seed
    sim_init = src.func('starsim/sim.py', 'init', 'Sim')
    reseeds = bool(calls_in(sim_init, lambda c: unparse(c.func) in ('ss.set_seed', 'set_seed') and c.args and unparse(c.args[0]) == 'self.pars.rand_seed'))
    sim_dists = src.func('starsim/sim.py', 'init_dists', 'Sim')
    dists_with_seed = bool(calls_in(sim_dists, lambda c: isinstance(c.func, ast.Attribute) and c.func.attr == 'init' and kw(c, 'base_seed') is not None
                                    and unparse(kw(c, 'base_seed')) == 'self.pars.rand_seed'))
    facts = dict(seed_expr=unparse(seed_node), unique_name=unparse(un), prefers_trace=prefers_trace, offset_hashes_name=offset_hashes_name,
                 uses_builtin_hash=uses_builtin_hash, uses_digest=uses_digest, reduces_mod=reduces_mod, rng_from_seed=rng_from_seed,
                 search_by_path=search_by_path, init_passes_trace_and_seed=passes, start_step_own=own, start_step_forced=forced,
                 ownership_by_identity=by_identity, sim_reseeds=reseeds, sim_dists_with_seed=dists_with_seed,
                 start_step_calls=[unparse(c) for c in jumps])
    body = f'''namespace StarsimModel.Gen.Seed
/-- Python's `a or b` on integers where 0 / None are falsy -/
def pyOr (a b : Nat) : Nat := if a ≠ 0 then a else b
/-- `Dist.process_seed`: `self.seed = {unparse(seed_node)}` as a function of (hash of the name, seed argument, previous seed) -/
def seedFormula (offset seedArg prev : Nat) : Nat := {seed_lean}
/-- the hashed name is the trace when one is given (`{unparse(un)}`) and `self.offset = str2int(that name)` -/
def namePrefersTrace : Bool := {B(prefers_trace)}
def offsetHashesName : Bool := {B(offset_hashes_name)}
/-- `str2int`: no use of the interpreter's randomised `hash()`, a stable digest instead, reduced modulo `modulo` -/
def usesBuiltinHash : Bool := {B(uses_builtin_hash)}
def usesStableDigest : Bool := {B(uses_digest)}
def reducesModulo : Bool := {B(reduces_mod)}
/-- `Dist.init`: the generator is `default_rng(self.seed)` -/
def rngFromSeed : Bool := {B(rng_from_seed)}
/-- `Dists.init`: distributions are found by `sc.search(..., type=Dist)`; each gets `init(trace=<its path>, seed=<base seed>)` -/
def searchByPath : Bool := {B(search_by_path)}
def initPassesTraceAndSeed : Bool := {B(passes)}
/-- `Module.start_step` jumps the module's OWN dists, unforced -/
def startStepOwn : Bool := {B(own)}
def startStepForced : Bool := {B(forced)}
/-- `Dists.copy_to_module`: a dist belongs to the module it refers to (identity) -/
def ownershipByIdentity : Bool := {B(by_identity)}
/-- `Sim.init` reseeds the legacy generators with `pars.rand_seed` and initialises the dists with it -/
def simReseeds : Bool := {B(reseeds)}
def simDistsWithSeed : Bool := {B(dists_with_seed)}
end StarsimModel.Gen.Seed
'''
    return body, facts


# ---------------------------------------------------------------------------
# where distributions are constructed (C01: "changing the seed changes every distribution's stream")

def dist_classes(src):
    """ names of the distribution classes defined in starsim/distributions.py (transitive subclasses of Dist, multi_random) """
    tree = src.tree('starsim/distributions.py')
    names = {'Dist'}
    for _ in range(4):
        for n in tree.body:
            if isinstance(n, ast.ClassDef) and any(unparse(b).split('.')[-1] in names for b in n.bases):
                names.add(n.name)
    for n in tree.body:
        if isinstance(n, ast.ClassDef) and n.name == 'multi_random': names.add(n.name)
    return names


@generator('DistSites', SCAN_FILES)
def gen_dist_sites(src):
    """ Every construction of a distribution object in simulation code, by enclosing class and function.
        A distribution receives the simulation seed in `Sim.init_dists` (`Dists.init` walks the objects reachable from the
        sim at that moment): one constructed later (in `step`, `administer`, `init_post`, …) or one that initialises
        itself (`strict=` anything but True: `Dist.__init__` then calls `self.init()` with no seed) never sees rand_seed.
          lateDists    constructions outside `__init__` (file, class, function, constructor)
          selfSeeded   constructions passing `strict=<not literally True>`
        Also the position of `init_dists` in `Sim.init` relative to the modules' `init_pre` / `init_post`. """
    dcls = dist_classes(src)
    late, selfseeded, ctors = [], [], []
    for rel in SCAN_FILES:
        tree = ast.parse(open(os.path.join(src.repo, rel)).read())
        in_dists = rel == 'starsim/distributions.py'
        def is_ctor(call):
            f = unparse(call.func); nm = f.split('.')[-1]
            if nm not in dcls: return None
            if f == 'ss.' + nm or f == 'ss.distributions.' + nm or f == 'starsim.' + nm or (in_dists and f == nm): return f
            return None
        def walk(node, cls, fn):
            for ch in ast.iter_child_nodes(node):
                if isinstance(ch, ast.ClassDef): walk(ch, ch.name, fn)
                elif isinstance(ch, (ast.FunctionDef, ast.AsyncFunctionDef)): walk(ch, cls, ch.name if fn is None else fn + '.' + ch.name)
                else:
                    if isinstance(ch, ast.Call):
                        g = unparse(ch.func)
                        if g.split('.')[-1] in CONSTRUCTORS and ('random' in g.split('.') or g.split('.')[0] in ('np', 'numpy') or g in CONSTRUCTORS):
                            ctors.append((rel, cls or '', fn or '', g + '(' + ', '.join([unparse(a) for a in ch.args] + [f'{k.arg}={unparse(k.value)}' for k in ch.keywords]) + ')'))
                        f = is_ctor(ch)
                        if f:
                            if fn is not None and fn.split('.')[0] != '__init__':
                                late.append((rel, cls or '', fn, f))
                            for k in ch.keywords:
                                if k.arg == 'strict' and not (isinstance(k.value, ast.Constant) and k.value.value is True):
                                    selfseeded.append((rel, cls or '', fn or '', f'{f}(strict={unparse(k.value)})'))
                                if k.arg is None:   # **kwargs may carry strict
                                    pass
                    walk(ch, cls, fn)
        walk(tree, None, None)
    late = sorted(set(late)); selfseeded = sorted(set(selfseeded)); ctors = sorted(set(ctors))
    # Sim.init: init_dists comes after every init_pre and before init_post / the first draw
    sim_init = src.func('starsim/sim.py', 'init', 'Sim')
    order = []
    for n in ast.walk(sim_init):
        if isinstance(n, ast.Call) and isinstance(n.func, ast.Attribute) and n.func.attr in ('init_pre', 'init_mods_pre', 'init_people', 'init_dists', 'init_post', 'init_vals', 'init_people_vals', 'init_mod_vals'):
            order.append((n.lineno, n.col_offset, n.func.attr))
    order = [a for _, _, a in sorted(order)]
    if 'init_dists' not in order:
        raise ExtractError('Sim.init does not call init_dists')
    k = order.index('init_dists')
    PRE = ('init_pre', 'init_mods_pre', 'init_people')
    pre_before = all(a not in PRE for a in order[k + 1:]) and any(a in ('init_pre', 'init_mods_pre') for a in order[:k]) and 'init_people' in order[:k]
    mods_pre = src.func('starsim/sim.py', 'init_mods_pre', 'Sim')
    if 'init_mods_pre' in order and not calls_in(mods_pre, lambda c: isinstance(c.func, ast.Attribute) and c.func.attr == 'init_pre'):
        pre_before = False
    post_after = all(a not in ('init_post', 'init_vals', 'init_people_vals', 'init_mod_vals') for a in order[:k])
    def tab(rs):
        return ',\n  '.join(f'({lean_str(a)}, {lean_str(b)}, {lean_str(c)}, {lean_str(d)})' for a, b, c, d in rs)
    body = f'''namespace StarsimModel.Gen.DistSites
/-- (file, class, function, constructor): distribution objects constructed outside `__init__` -/
def lateDists : List (String × String × String × String) := [
  {tab(late)}]
/-- (file, class, function, call): distributions constructed with `strict=` anything but `True` (they seed themselves, without rand_seed) -/
def selfSeeded : List (String × String × String × String) := [
  {tab(selfseeded)}]
/-- (file, class, function, call): every construction of a NumPy generator / bit generator / seed sequence in simulation code -/
def rngConstructors : List (String × String × String × String) := [
  {tab(ctors)}]
/-- `Sim.init` calls, in order: {' '.join(order)} -/
def initPreBeforeInitDists : Bool := {B(pre_before)}
def initDistsBeforeInitPost : Bool := {B(post_after)}
end StarsimModel.Gen.DistSites
'''
    return body, dict(late=[list(r) for r in late], self_seeded=[list(r) for r in selfseeded], rng_constructors=[list(r) for r in ctors], sim_init_order=order, dist_classes=sorted(dcls))
