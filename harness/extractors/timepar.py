"""
Extractor for C06 (and C16): facts of starsim/time.py beyond the `time_units` table.

Generated/TimeParConsts.lean:
  unitAliases      -- `unit_mapping_reverse` (string aliases per canonical unit; the `None: [None]` row and the
                      function-object aliases days/perday/years/peryear are checked and recorded as facts)
  defaultSelfDt    -- `TimePar.__init__(..., self_dt=<literal>)`
  initFallbackDt   -- `TimePar.init`: `self.parent_dt = sc.ifelse(self.parent_dt, self.self_dt, <literal>)`
  toDefaultDt      -- `TimePar.to`:   `parent_dt = sc.ifelse(dt, <literal>)`
Fails closed on any other shape.
"""
import ast
from harness.extract import generator, ExtractError, lean_rat, lean_str, lit_rat, unparse

REL = 'starsim/time.py'


def _assign_value(fn, target):
    out = [n.value for n in ast.walk(fn) if isinstance(n, ast.Assign) and len(n.targets) == 1 and unparse(n.targets[0]) == target]
    if len(out) != 1:
        raise ExtractError(f'{fn.name}: expected exactly one assignment to {target}, found {len(out)}')
    return out[0]


def _ifelse_args(node, where):
    if not (isinstance(node, ast.Call) and unparse(node.func) == 'sc.ifelse' and not node.keywords):
        raise ExtractError(f'{where}: not an sc.ifelse(...) call: {unparse(node)[:80]}')
    return node.args


@generator('TimeParConsts', [REL])
def gen_timepar_consts(src):
    # --- unit_mapping_reverse / unit_mapping
    rev = None; fwd = None
    for n in src.tree(REL).body:
        if isinstance(n, ast.Assign) and len(n.targets) == 1:
            t = unparse(n.targets[0])
            if t == 'unit_mapping_reverse': rev = n.value
            if t == 'unit_mapping': fwd = n.value
    if not isinstance(rev, ast.Dict):
        raise ExtractError('unit_mapping_reverse is not a dict literal')
    if fwd is None or unparse(fwd) != '{v: k for k, vlist in unit_mapping_reverse.items() for v in vlist}':
        raise ExtractError(f'unit_mapping is not the inversion of unit_mapping_reverse: {unparse(fwd) if fwd is not None else None}')
    rows = []; callables = {}; none_row = False
    for k, v in zip(rev.keys, rev.values):
        if not isinstance(v, ast.List):
            raise ExtractError('unit_mapping_reverse: value is not a list literal')
        if isinstance(k, ast.Constant) and k.value is None:
            if [unparse(e) for e in v.elts] != ['None']:
                raise ExtractError('unit_mapping_reverse[None] must be [None]')
            none_row = True
            continue
        if not (isinstance(k, ast.Constant) and isinstance(k.value, str)):
            raise ExtractError(f'unit_mapping_reverse: unsupported key {unparse(k)}')
        strs = []
        for e in v.elts:
            if isinstance(e, ast.Constant) and isinstance(e.value, str):
                strs.append(e.value)
            elif isinstance(e, ast.Name):
                callables.setdefault(k.value, []).append(e.id)
            else:
                raise ExtractError(f'unit_mapping_reverse[{k.value!r}]: unsupported alias {unparse(e)}')
        rows.append((k.value, strs))
    if not none_row:
        raise ExtractError('unit_mapping_reverse has no None row')
    # --- TimePar.__init__ defaults
    init = src.func(REL, '__init__', 'TimePar')
    names = [a.arg for a in init.args.args]
    if names != ['self', 'v', 'unit', 'parent_unit', 'parent_dt', 'self_dt']:
        raise ExtractError(f'TimePar.__init__ signature changed: {names}')
    dfl = init.args.defaults
    if [unparse(d) for d in dfl[:3]] != ['None', 'None', 'None']:
        raise ExtractError('TimePar.__init__: unit/parent_unit/parent_dt defaults are not None')
    self_dt = lit_rat(dfl[3])
    # --- TimePar.init fallback
    tinit = src.func(REL, 'init', 'TimePar')
    calls = [n.value for n in ast.walk(tinit) if isinstance(n, ast.Assign) and unparse(n.targets[0]) == 'self.parent_dt'
             and isinstance(n.value, ast.Call)]
    if len(calls) != 1:
        raise ExtractError('TimePar.init: expected one computed assignment to self.parent_dt')
    a = _ifelse_args(calls[0], 'TimePar.init')
    if [unparse(x) for x in a[:2]] != ['self.parent_dt', 'self.self_dt'] or len(a) != 3:
        raise ExtractError('TimePar.init: parent_dt fallback chain changed')
    init_fallback = lit_rat(a[2])
    au = [unparse(n.value) for n in ast.walk(tinit) if isinstance(n, ast.Assign) and unparse(n.targets[0]) in ('self.unit', 'self.parent_unit')
          and isinstance(n.value, ast.Call)]
    if au != ['sc.ifelse(self.unit, self.parent_unit)', 'sc.ifelse(self.parent_unit, self.unit)']:
        raise ExtractError(f'TimePar.init: unit inheritance chain changed: {au}')
    # --- TimePar.to defaults
    to = src.func(REL, 'to', 'TimePar')
    a = _ifelse_args(_assign_value(to, 'parent_dt'), 'TimePar.to')
    if len(a) != 2 or unparse(a[0]) != 'dt':
        raise ExtractError('TimePar.to: parent_dt default changed')
    to_dt = lit_rat(a[1])
    u = _assign_value(to, 'unit')
    if unparse(u) != 'sc.ifelse(unit, self.parent_unit, self.unit)':
        raise ExtractError(f'TimePar.to: unit default chain changed: {unparse(u)}')
    lrows = ',\n  '.join(f'({lean_str(k)}, [{", ".join(lean_str(s) for s in v)}])' for k, v in rows)
    body = f'''namespace StarsimModel.Gen
/-- `time.unit_mapping_reverse`: canonical unit -> string aliases (the `None: [None]` row is implicit) -/
def unitAliases : List (String × List String) := [
  {lrows}]
/-- `TimePar.__init__(..., self_dt=...)` -/
def defaultSelfDt : Rat := {lean_rat(self_dt)}
/-- `TimePar.init`: last fallback of `parent_dt` -/
def initFallbackDt : Rat := {lean_rat(init_fallback)}
/-- `TimePar.to`: default `dt` -/
def toDefaultDt : Rat := {lean_rat(to_dt)}
end StarsimModel.Gen
'''
    return body, dict(aliases={k: v for k, v in rows}, callable_aliases=callables, self_dt=str(self_dt),
                      init_fallback=str(init_fallback), to_dt=str(to_dt))
