"""
C05: translate the starsim-defined formulas of the distribution families (parameter translations and
quantile functions) from starsim/distributions.py into Lean, twice from the same AST:

  Generated/DistFormulasR.lean   over ℝ   (imports single Mathlib modules; used by Props/C05.lean)
  Generated/DistFormulasF.lean   over Float (core only; used by Drivers/C05.lean)

so that the proved definition and the executed definition are the same term up to the number type.
Fails closed on any expression outside the supported vocabulary.
"""
import ast
from harness.extract import generator, ExtractError, unparse, lean_str

REL = 'starsim/distributions.py'


class Tr:
    """ Python expression AST -> Lean term text, for a number type """
    def __init__(self, kind, env):
        self.kind = kind          # 'R' | 'F'
        self.env = dict(env)      # python name / attribute text -> lean variable or already-translated term

    def num(self, v):
        if isinstance(v, bool): raise ExtractError('bool literal')
        if isinstance(v, int):
            return f'({v} : ℝ)' if self.kind == 'R' else f'({v} : Float)'
        if isinstance(v, float):
            if v == int(v):
                return self.num(int(v))
            raise ExtractError(f'non-integer float literal {v}')
        raise ExtractError(f'literal {v!r}')

    def fn(self, name):
        table = {'np.sqrt': ('Real.sqrt', 'Float.sqrt'), 'np.log': ('Real.log', 'Float.log'), 'np.exp': ('Real.exp', 'Float.exp')}
        if name not in table: raise ExtractError(f'unsupported function {name}')
        return table[name][0 if self.kind == 'R' else 1]

    def tr(self, n):
        if isinstance(n, ast.Constant):
            return self.num(n.value)
        if isinstance(n, (ast.Name, ast.Attribute)):
            key = unparse(n)
            if key in self.env: return self.env[key]
            raise ExtractError(f'unknown name {key}')
        if isinstance(n, ast.UnaryOp) and isinstance(n.op, ast.USub):
            return f'(-{self.tr(n.operand)})'
        if isinstance(n, ast.BinOp):
            if isinstance(n.op, ast.Pow):
                if isinstance(n.right, ast.Constant) and isinstance(n.right.value, int) and n.right.value >= 0:
                    base = self.tr(n.left)
                    if self.kind == 'R': return f'({base} ^ {n.right.value})'
                    return '(' + ' * '.join([base] * n.right.value) + ')' if n.right.value else '(1 : Float)'
                raise ExtractError('non-constant power')
            ops = {ast.Add: '+', ast.Sub: '-', ast.Mult: '*', ast.Div: '/'}
            for k, s in ops.items():
                if isinstance(n.op, k):
                    return f'({self.tr(n.left)} {s} {self.tr(n.right)})'
            raise ExtractError(f'operator {type(n.op).__name__}')
        if isinstance(n, ast.Call):
            name = unparse(n.func)
            if name in self.env and isinstance(self.env[name], tuple):   # call of a known stream function, e.g. self.rand(size)
                return self.env[name][0]
            if len(n.args) != 1 or n.keywords: raise ExtractError(f'call shape {unparse(n)}')
            return f'({self.fn(name)} {self.tr(n.args[0])})'
        raise ExtractError(f'unsupported expression {unparse(n)[:60]}')

    def cmp(self, n):
        if isinstance(n, ast.Compare) and len(n.ops) == 1:
            ops = {ast.Lt: '<', ast.LtE: '≤', ast.Gt: '>', ast.GtE: '≥'}
            for k, s in ops.items():
                if isinstance(n.ops[0], k):
                    return f'({self.tr(n.left)} {s} {self.tr(n.comparators[0])})'
        raise ExtractError(f'unsupported comparison {unparse(n)[:60]}')


def assigns(fn):
    """ ordered (target text, value node) of simple assignments in a function body; other statements listed """
    out = []
    for st in fn.body:
        if isinstance(st, ast.Expr) and isinstance(st.value, ast.Constant): continue
        out.append(st)
    return out


def method(src, cls, name):
    return src.func(REL, name, cls)


def single_expr(fn, target):
    """ value of the assignment `target = ...` (first occurrence) in fn """
    for st in ast.walk(fn):
        if isinstance(st, ast.Assign) and len(st.targets) == 1 and unparse(st.targets[0]) == target:
            return st.value
    raise ExtractError(f'{fn.name}: assignment to {target} not found')


def build(src, kind):
    T = 'ℝ' if kind == 'R' else 'Float'
    defs = []
    facts = {}

    def emit(name, args, body, doc, ret=None):
        sig = ' '.join(f'({a} : {T})' for a in args)
        defs.append(f'/-- {doc} -/\ndef {name} {sig} : {ret or T} := {body}\n')

    # uniform
    f = method(src, 'uniform', 'make_rvs')
    e = single_expr(f, 'rvs')
    t = Tr(kind, {'p.high': 'high', 'p.low': 'low', 'self.rand': ('u',)})
    emit('uniformMakeRvs', ['u', 'low', 'high'], t.tr(e), '`uniform.make_rvs`: ' + unparse(e)); facts['uniform.make_rvs'] = unparse(e)
    f = method(src, 'uniform', 'ppf')
    e = single_expr(f, 'rvs')
    t = Tr(kind, {'p.high': 'high', 'p.low': 'low', 'rands': 'u'})
    emit('uniformPpf', ['u', 'low', 'high'], t.tr(e), '`uniform.ppf`: ' + unparse(e)); facts['uniform.ppf'] = unparse(e)
    # bernoulli
    for meth, env in (('make_rvs', {'self._pars.p': 'p', 'self.rand': ('u',)}), ('ppf', {'self._pars.p': 'p', 'rands': 'u'})):
        f = method(src, 'bernoulli', meth)
        e = single_expr(f, 'rvs')
        t = Tr(kind, env)
        c = t.cmp(e)
        nm = 'bernoulliMakeRvs' if meth == 'make_rvs' else 'bernoulliPpf'
        if kind == 'R':
            defs.append(f'/-- `bernoulli.{meth}`: {unparse(e)} -/\ndef {nm} (u p : ℝ) : Prop := {c}\n')
        else:
            defs.append(f'/-- `bernoulli.{meth}`: {unparse(e)} -/\ndef {nm} (u p : Float) : Bool := decide {c}\n')
        facts[f'bernoulli.{meth}'] = unparse(e)
    # randint.ppf (before the integer cast)
    f = method(src, 'randint', 'ppf')
    e = single_expr(f, 'rvs')
    floors = []
    if isinstance(e, ast.Call) and unparse(e.func) == 'np.floor' and len(e.args) == 1:   # floor applied to the raw formula
        floors = [unparse(e)]
        e = e.args[0]
    t = Tr(kind, {'p.high': 'high', 'p.low': 'low', 'rands': 'u'})
    emit('randintPpfRaw', ['u', 'low', 'high'], t.tr(e), '`randint.ppf` before floor / integer cast: ' + unparse(e)); facts['randint.ppf'] = unparse(e)
    casts = [unparse(n) for n in ast.walk(f) if isinstance(n, ast.Call) and isinstance(n.func, ast.Attribute) and n.func.attr == 'astype']
    if len(casts) != 1:
        raise ExtractError(f'randint.ppf: expected exactly one integer cast, found {casts}')
    facts['randint.cast'] = casts; facts['randint.floor'] = floors
    defs.append(f'/-- does `randint.ppf` apply `np.floor` before the cast? -/\ndef randintFloors : Bool := {"true" if floors else "false"}\n')
    # lognorm_ex.convert_ex_to_im
    f = method(src, 'lognorm_ex', 'convert_ex_to_im')
    env = {'mean': 'mean', 'std': 'std'}
    t = Tr(kind, env)
    order = []
    for st in f.body:
        if isinstance(st, ast.Assign) and len(st.targets) == 1 and isinstance(st.targets[0], ast.Name):
            nm = st.targets[0].id
            if nm in ('p', 'mean', 'std'):
                txt = unparse(st.value)
                if (nm, txt) not in (('p', 'self._pars'), ('mean', "p.pop('mean')"), ('std', "p.pop('std')")):
                    raise ExtractError(f'convert_ex_to_im: unexpected {nm} = {txt}')
                continue
            t.env[nm] = t.tr(st.value); order.append(nm)
    if 'sigma_im' not in t.env or 'mean_im' not in t.env:
        raise ExtractError('convert_ex_to_im: sigma_im / mean_im not found')
    stores = {unparse(st.targets[0]): unparse(st.value) for st in f.body if isinstance(st, ast.Assign) and isinstance(st.targets[0], ast.Attribute)}
    if stores != {'p.mean': 'mean_im', 'p.sigma': 'sigma_im'}:
        raise ExtractError(f'convert_ex_to_im: stores {stores}')
    emit('lognormExSigmaIm', ['mean', 'std'], t.env['sigma_im'], '`lognorm_ex.convert_ex_to_im`: sigma of the underlying normal')
    emit('lognormExMeanIm', ['mean', 'std'], t.env['mean_im'], '`lognorm_ex.convert_ex_to_im`: mean of the underlying normal')
    facts['lognorm_ex'] = {k: unparse(single_expr(f, k)) for k in ('std2', 'mean2', 'sigma_im', 'mean_im') if k in t.env}
    # the rejection guard `mean <= 0`
    guards = [unparse(n.test) for n in ast.walk(f) if isinstance(n, ast.If)]
    facts['lognorm_ex.guard'] = guards
    defs.append(f'/-- `lognorm_ex` rejects a scalar mean ≤ 0 -/\ndef lognormExRejectsNonposMean : Bool := {"true" if any("mean <= 0" in g for g in guards) else "false"}\n')
    # lognorm_im.sync_pars -> SciPy (s, scale, loc)
    f = method(src, 'lognorm_im', 'sync_pars')
    t = Tr(kind, {'p.sigma': 'sigma', 'p.mean': 'mean'})
    for key in ('spars.s', 'spars.scale', 'spars.loc'):
        e = single_expr(f, key)
        emit('lognormIm' + key.split('.')[1].capitalize(), ['mean', 'sigma'], t.tr(e), f'`lognorm_im.sync_pars`: SciPy `{key.split(".")[1]}` = {unparse(e)}')
        facts['lognorm_im.' + key] = unparse(e)
    # poisson.sync_pars: dict(mu=self._pars.lam)
    f = method(src, 'poisson', 'sync_pars')
    e = single_expr(f, 'spars')
    if not (isinstance(e, ast.Call) and unparse(e.func) == 'dict' and len(e.keywords) == 1 and e.keywords[0].arg == 'mu'):
        raise ExtractError(f'poisson.sync_pars: {unparse(e)}')
    t = Tr(kind, {'self._pars.lam': 'lam'})
    emit('poissonMu', ['lam'], t.tr(e.keywords[0].value), '`poisson.sync_pars`: SciPy `mu`'); facts['poisson.mu'] = unparse(e.keywords[0].value)
    # time scaling of variates: dur / rate update_values
    for cls, nm in (('dur', 'durValues'), ('rate', 'rateValues')):
        f = src.func('starsim/time.py', 'update_values', cls)
        e = single_expr(f, 'self.values')
        t = Tr(kind, {'self.v': 'v', 'self.factor': 'factor'})
        emit(nm, ['v', 'factor'], t.tr(e), f'`{cls}.update_values`: {unparse(e)}'); facts[f'{cls}.update_values'] = unparse(e)
    return defs, facts


def timepar_refusals(src):
    """ which families override preprocess_timepar with an unconditional / conditional NotImplementedError """
    tree = src.tree(REL)
    out = {}
    for node in tree.body:
        if isinstance(node, ast.ClassDef) and any(unparse(b) == 'Dist' for b in node.bases):
            for m in node.body:
                if isinstance(m, ast.FunctionDef) and m.name == 'preprocess_timepar':
                    raises = [n for n in ast.walk(m) if isinstance(n, ast.Raise)]
                    uncond = any(isinstance(st, ast.Raise) for st in m.body)
                    cond = bool(raises) and not uncond
                    out[node.name] = 'always' if uncond else ('unless_allowed' if cond else 'never')
    return out


@generator('DistFormulasR', [REL, 'starsim/time.py'])
def gen_r(src):
    defs, facts = build(src, 'R')
    ref = timepar_refusals(src)
    rows = ', '.join(f'({lean_str(k)}, {lean_str(v)})' for k, v in sorted(ref.items()))
    body = ('import Mathlib.Analysis.SpecialFunctions.Pow.Real\nimport Mathlib.Analysis.SpecialFunctions.Log.Basic\n'
            'import Mathlib.Analysis.SpecialFunctions.Sqrt\n'
            'namespace StarsimModel.Gen.DistR\nnoncomputable section\n' + '\n'.join(defs) +
            f'\nend\n/-- families overriding `preprocess_timepar` with a refusal -/\ndef timeparRefusals : List (String × String) := [{rows}]\n'
            'end StarsimModel.Gen.DistR\n')
    facts['timepar_refusals'] = ref
    return body, facts


@generator('DistFormulasF', [REL, 'starsim/time.py'])
def gen_f(src):
    defs, facts = build(src, 'F')
    body = 'namespace StarsimModel.Gen.DistF\n' + '\n'.join(defs) + '\nend StarsimModel.Gen.DistF\n'
    return body, facts
