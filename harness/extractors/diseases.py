"""
Translator for C13 (DESIGN 3.3 / 6-C13):  starsim/diseases/*.py + starsim/disease.py  ->  Generated/Disease_<name>.lean

For every built-in compartmental disease class the mask-assignment code of
    step_state / set_prognoses / step_die / infectious
(including everything reached through super() calls and helper methods of the class, resolved through the
single-inheritance chain exactly as Python's MRO would) is turned into PER-AGENT functions

    stepState, setPrognoses, stepDie : Flags -> <Method>G -> Flags          infectious : Flags -> Bool

on a record of Bool flags (one field per ss.State / ss.BoolArr of the class).  These methods have no cross-agent data
flow: every effect on a flag is `self.flag[mask] = True/False` with `mask` computed agent-wise, so the per-agent
function is exact up to the *guard atoms*, free Bool inputs that stand for
    cmp     a comparison on non-flag arrays (`self.ti_recovered <= self.ti`)        (observable: evaluated on the arrays)
    param   membership of the agent in a uid-array parameter (`uids`)                 (observable: call argument)
    filter  the outcome of a Bernoulli `.filter(uids)` / boolean `.rvs(uids)`         (observable: wrapped call, by call path)
    ext     an externally supplied mask (`sim.people.alive`)                           (observable)
    len     "some OTHER agent is in X" for `if len(X):`  (condition = X_agent || atom) (existential in the correspondence)
    cfg     a non-mask `if` condition (`self.pars.log`)                               (observable: evaluated)
Leaving the atoms free is a sound over-approximation.  Atoms that cannot influence any flag are pruned.

Anything outside the supported statement / expression vocabulary raises ExtractError (fail closed).
"""
import ast, os, re
from harness.extract import generator, ExtractError, lean_str, unparse

DISEASE_CLASSES = dict(   # generated name -> (file, class)
    sir=('starsim/diseases/sir.py', 'SIR'),
    sis=('starsim/diseases/sir.py', 'SIS'),
    measles=('starsim/diseases/measles.py', 'Measles'),
    ebola=('starsim/diseases/ebola.py', 'Ebola'),
    cholera=('starsim/diseases/cholera.py', 'Cholera'),
    gonorrhea=('starsim/diseases/gonorrhea.py', 'Gonorrhea'),
    hiv=('starsim/diseases/hiv.py', 'HIV'),
    syphilis=('starsim/diseases/syphilis.py', 'Syphilis'),
)
BASE_FILES = dict(Infection='starsim/disease.py', Disease='starsim/disease.py', SIR='starsim/diseases/sir.py')
METHODS = [('step_state', 'stepState', 'StepStateG'), ('set_prognoses', 'setPrognoses', 'SetPrognosesG'),
           ('step_die', 'stepDie', 'StepDieG')]
FLAG_CTORS = {'ss.State', 'ss.BoolArr'}
ARR_CTORS = {'ss.FloatArr', 'ss.Arr', 'ss.IndexArr', 'ss.IntArr'}

# attribute paths (after alias substitution) that denote plain scalars / objects without any per-agent flag content
SCALAR_PATHS = {'self.ti', 'self.now', 'self.t.ti', 'self.t.dt', 'self.sim.ti', 'self.sim.year', 'self.sim.t.ti',
                'self.sim.t.dt', 'self.name', 'self.t.unit', 'self.sim.now'}
OBJECT_PATHS = {'self', 'self.sim', 'self.pars', 'self.results', 'self.sim.people', 'self.t', 'self.sim.t', 'self.log'}
# pure functions whose result never aliases a flag array (arguments are still checked)
PURE_FUNCS = {'rr', 'sc.randround', 'np.maximum', 'np.minimum', 'np.round', 'np.array', 'np.count_nonzero', 'np.sum',
              'np.full', 'np.zeros', 'np.ones', 'np.abs', 'np.exp', 'np.log', 'np.sqrt', 'np.isnan', 'float', 'int',
              'np.interp', 'np.mean', 'ss.time_ratio'}
PURE_METHODS = {'sum', 'count', 'mean', 'any', 'all', 'astype', 'nonzero', 'max', 'min'}
NOEFFECT_CALLS = {'self.log.add_entries', 'self.log.append'}


# ---------------------------------------------------------------------------
# abstract values

class Mask:
    """ per-agent Bool; `e` is a Lean-expression tree """
    def __init__(self, e, uk=False): self.e = e; self.uk = uk      # uk: known to be a uid array (not a BoolArr)

class Rvs:
    """ result of `<dist>.rvs(U)`: boolean outcome (atom) or a number array, decided by how it is used """
    def __init__(self, base, atom, neg=False): self.base = base; self.atom = atom; self.neg = neg

class Opaque:
    """ a number / array / object that carries no flag content """
    def __init__(self, text=''): self.text = text

class ArrRef:
    """ a non-flag agent array of the module (timer etc.) """
    def __init__(self, name): self.name = name

class FlagRef:
    """ the flag array object itself (assignable); raw=True for `self.flag.raw` (indexable by uid arrays only) """
    def __init__(self, name, raw=False): self.name = name; self.raw = raw

class Obj:
    """ object path (self, self.sim, self.pars, ...) """
    def __init__(self, path): self.path = path

class Const:
    def __init__(self, v): self.v = v

class Param:
    def __init__(self, name, atom=None): self.name = name; self.atom = atom

class LenOf:
    def __init__(self, mask): self.mask = mask


# Lean expression trees: ('flag',n) ('atom',field) ('var',n) ('and',a,b) ('or',a,b) ('xor',a,b) ('not',a) ('const',b)

def e_and(a, b):
    if a == ('const', True): return b
    if b == ('const', True): return a
    return ('and', a, b)

def render(e):
    k = e[0]
    if k == 'flag': return f's.{e[1]}'
    if k == 'atom': return f'g.{e[1]}'
    if k == 'var': return e[1]
    if k == 'const': return 'true' if e[1] else 'false'
    if k == 'not': return f'!{render_p(e[1])}'
    if k == 'and': return f'{render_p(e[1])} && {render_p(e[2])}'
    if k == 'or': return f'({render_p(e[1])} || {render_p(e[2])})'
    if k == 'xor': return f'(xor {render_p(e[1])} {render_p(e[2])})'
    raise ExtractError(f'internal: cannot render {e!r}')

def render_p(e):
    s = render(e)
    return f'({s})' if e[0] == 'and' else s

def refs(e, out):
    if e[0] in ('var', 'atom'):
        out.add((e[0], e[1]))
    elif e[0] in ('and', 'or', 'xor'):
        refs(e[1], out); refs(e[2], out)
    elif e[0] == 'not':
        refs(e[1], out)
    return out


def lean_ident(text):
    s = re.sub(r'[^A-Za-z0-9]+', '_', text).strip('_')
    if not s or s[0].isdigit(): s = 'x' + s
    return s[:48]


# ---------------------------------------------------------------------------
# class model

class ClassInfo:
    def __init__(self, src, rel, name):
        self.rel = rel; self.name = name
        self.node = src.cls(rel, name)
        if len(self.node.bases) != 1:
            raise ExtractError(f'{name}: exactly one base class supported, found {[unparse(b) for b in self.node.bases]}')
        self.base = unparse(self.node.bases[0]).split('.')[-1]
        self.funcs = {}; self.props = {}
        for n in self.node.body:
            if isinstance(n, ast.FunctionDef):
                decos = [unparse(d) for d in n.decorator_list]
                if 'property' in decos:
                    self.props[n.name] = n
                elif decos and decos != ['staticmethod']:
                    raise ExtractError(f'{name}.{n.name}: unsupported decorator {decos}')
                elif not decos:
                    self.funcs[n.name] = n


def mro_of(src, rel, name):
    out = []
    seen = set()
    while True:
        if name in seen: raise ExtractError('inheritance cycle')
        seen.add(name)
        ci = ClassInfo(src, rel, name)
        out.append(ci)
        if ci.base in ('Module', 'Base', 'object'):
            break
        if ci.base not in BASE_FILES:
            raise ExtractError(f'{name}: base class {ci.base} is not a known disease base')
        rel, name = BASE_FILES[ci.base], ci.base
    return out


def collect_states(mro):
    """ flags (ss.State/BoolArr) and non-flag arrays declared by define_states along the chain, base first """
    flags, arrs = [], []
    for ci in reversed(mro):
        init = ci.funcs.get('__init__')
        if init is None: continue
        for n in ast.walk(init):
            if isinstance(n, ast.Call) and unparse(n.func) == 'self.define_states':
                if n.keywords:
                    raise ExtractError(f'{ci.name}.__init__: define_states with keywords')
                for a in n.args:
                    if not (isinstance(a, ast.Call) and a.args and isinstance(a.args[0], ast.Constant) and isinstance(a.args[0].value, str)):
                        raise ExtractError(f'{ci.name}.__init__: unsupported state declaration {unparse(a)[:60]}')
                    ctor = unparse(a.func); nm = a.args[0].value
                    if ctor in FLAG_CTORS:
                        if nm in arrs: raise ExtractError(f'{nm} declared both as flag and as array')
                        if nm not in flags: flags.append(nm)
                    elif ctor in ARR_CTORS:
                        if nm in flags: raise ExtractError(f'{nm} declared both as flag and as array')
                        if nm not in arrs: arrs.append(nm)
                    else:
                        raise ExtractError(f'{ci.name}.__init__: unknown state constructor {ctor}')
    return flags, arrs


# ---------------------------------------------------------------------------
# the symbolic executor of one method

class Translator:
    def __init__(self, name, mro, flags, arrs):
        self.name = name; self.mro = mro; self.flags = flags; self.arrs = arrs
        self.clsname = mro[0].name

    def find(self, meth, start=0, kind='funcs'):
        for i in range(start, len(self.mro)):
            d = getattr(self.mro[i], kind)
            if meth in d:
                return i, d[meth]
        return None, None

    # ---- one method ------------------------------------------------------
    def translate_method(self, meth):
        self.ops = []          # ('let', var, expr, lineinfo) | ('set', flag, maskexpr, bool, lineinfo)
        self.atoms = []        # dicts
        self.nvar = 0
        self.writes = {}       # non-flag array -> number of writes so far
        self.timers = []       # symbolic record of non-flag writes
        self.events = []       # request_death etc
        self.pc = []           # path condition: list of (expr, absorbs:set of rendered masks)
        self.depth = 0
        self.path = []         # inline call path: list of (file, lo, hi)
        idx, fn = self.find(meth)
        if fn is None:
            raise ExtractError(f'{self.clsname}.{meth} not found along the inheritance chain')
        self.defined_in = self.mro[idx].name
        env = self.bind_params(fn, None, [], {}, top=True)
        self.run_body(fn, idx, env)
        return self.finish()

    def bind_params(self, fn, call, argvals, kwvals, top=False):
        a = fn.args
        if a.vararg or a.kwarg or a.kwonlyargs or a.posonlyargs:
            raise ExtractError(f'{fn.name}: *args/**kwargs/keyword-only parameters unsupported')
        names = [x.arg for x in a.args]
        if not names or names[0] != 'self':
            raise ExtractError(f'{fn.name}: first parameter must be self')
        names = names[1:]
        defaults = dict(zip(names[len(names) - len(a.defaults):], a.defaults)) if a.defaults else {}
        env = {'self': Obj('self')}
        if top:
            # atoms of the entry method's parameters are named by position (`uids`, `sources`), so renaming a
            # parameter does not change the generated interface
            canon = ['uids', 'sources']
            for i, n in enumerate(names):
                env[n] = Param(canon[i] if i < len(canon) else n)
            return env
        if len(argvals) > len(names):
            raise ExtractError(f'{fn.name}: too many positional arguments')
        for n, v in zip(names, argvals):
            env[n] = v
        for k, v in kwvals.items():
            if k not in names or k in env:
                raise ExtractError(f'{fn.name}: bad keyword argument {k}')
            env[k] = v
        for n in names:
            if n not in env:
                if n not in defaults:
                    raise ExtractError(f'{fn.name}: missing argument {n}')
                d = defaults[n]
                if not isinstance(d, ast.Constant):
                    raise ExtractError(f'{fn.name}: non-constant default for {n}')
                env[n] = Const(d.value)
        return env

    def run_body(self, fn, cls_idx, env):
        self.depth += 1
        if self.depth > 8:
            raise ExtractError(f'{fn.name}: inlining too deep (recursion?)')
        body = list(fn.body)
        for i, st in enumerate(body):
            if isinstance(st, ast.Return):
                if i != len(body) - 1:
                    raise ExtractError(f'{fn.name}: early return at line {st.lineno}')
                if st.value is not None:
                    self.ev(st.value, env, cls_idx, fn)
                continue
            self.stmt(st, env, cls_idx, fn)
        self.depth -= 1

    # ---- helpers ---------------------------------------------------------
    def fresh(self, hint):
        self.nvar += 1
        return f'm{self.nvar}_{lean_ident(hint)}'

    def new_atom(self, kind, text, hint, node=None, fn=None, **kw):
        base = {'cmp': 'c', 'filter': 'f', 'param': 'p', 'ext': 'x', 'len': 'n', 'cfg': 'k'}[kind] + '_' + lean_ident(hint)
        field = base; k = 1
        while any(a['field'] == field for a in self.atoms):
            k += 1; field = f'{base}_{k}'
        at = dict(field=field, kind=kind, text=text, line=getattr(node, 'lineno', None), **kw)
        if node is not None:
            st = kw.get('stmt', node)
            at['path'] = [list(p) for p in self.path] + [[self.cur_file, st.lineno, st.end_lineno]]
        at.pop('stmt', None)
        self.atoms.append(at)
        return ('atom', field)

    def pc_expr(self, mask_e):
        """ conjunction of the path condition with a mask, dropping `len(X)` conditions implied by the mask itself """
        m = render(mask_e)
        e = mask_e
        for cond, absorbs in reversed(self.pc):
            if m in absorbs: continue
            e = e_and(cond, e)
        return e

    def as_mask(self, v, what, node):
        if isinstance(v, Mask): return v.e
        if isinstance(v, Param):
            if v.atom is None:
                v.atom = self.new_atom('param', v.name, v.name)
            return v.atom
        if isinstance(v, FlagRef): return ('flag', v.name)
        if isinstance(v, Const) and isinstance(v.v, bool): return ('const', v.v)
        raise ExtractError(f'line {node.lineno}: {what} is not a per-agent mask: `{unparse(node)[:70]}`')

    def path_of(self, node, env):
        """ dotted attribute path with local aliases substituted, or None """
        if isinstance(node, ast.Name):
            v = env.get(node.id)
            if isinstance(v, Obj): return v.path
            return None
        if isinstance(node, ast.Attribute):
            b = self.path_of(node.value, env)
            if b is None: return None
            p = f'{b}.{node.attr}'
            if p == f'self.sim.people.{self.clsname.lower()}':   # people.<module name> is the module itself (default name)
                return 'self'
            return p
        return None

    def canon(self, node, env):
        """ source text of an expression with local aliases of objects / scalars substituted (for atom names / evaluation) """
        class T(ast.NodeTransformer):
            def visit_Name(s, n):
                v = env.get(n.id)
                if isinstance(v, Obj): return ast.parse(v.path, mode='eval').body
                if isinstance(v, Opaque) and v.text: return ast.parse(v.text, mode='eval').body
                if isinstance(v, Const): return ast.Constant(v.v)
                return n
        import copy
        return unparse(T().visit(copy.deepcopy(node)))

    # ---- expressions -----------------------------------------------------
    def ev(self, node, env, ci, fn):
        self.cur_file = os.path.basename(self.mro[ci].rel)
        if isinstance(node, ast.Constant):
            return Const(node.value)
        if isinstance(node, ast.Name):
            if node.id not in env:
                if node.id in ('np', 'ss', 'sc', 'rr'): return Opaque()
                raise ExtractError(f'line {node.lineno}: unknown name {node.id}')
            return env[node.id]
        if isinstance(node, ast.Attribute):
            return self.ev_attr(node, env, ci, fn)
        if isinstance(node, ast.BinOp):
            l = self.ev(node.left, env, ci, fn); r = self.ev(node.right, env, ci, fn)
            if isinstance(node.op, (ast.BitAnd, ast.BitOr, ast.BitXor)):
                a = self.as_mask(l, 'operand', node.left); b = self.as_mask(r, 'operand', node.right)
                return Mask(({ast.BitAnd: 'and', ast.BitOr: 'or', ast.BitXor: 'xor'}[type(node.op)], a, b))
            if isinstance(node.op, (ast.Add, ast.Sub, ast.Mult, ast.Div, ast.Pow, ast.FloorDiv, ast.Mod)):
                self.numeric(l, node.left); self.numeric(r, node.right)
                return Opaque()
            raise ExtractError(f'line {node.lineno}: unsupported operator in `{unparse(node)[:60]}`')
        if isinstance(node, ast.UnaryOp):
            v = self.ev(node.operand, env, ci, fn)
            if isinstance(node.op, ast.Invert):
                if isinstance(v, Rvs): return Rvs(v.base, v.atom, not v.neg)
                return Mask(('not', self.as_mask(v, 'operand of ~', node.operand)))
            if isinstance(node.op, (ast.USub, ast.UAdd)):
                self.numeric(v, node.operand); return Opaque()
            raise ExtractError(f'line {node.lineno}: unsupported unary operator')
        if isinstance(node, ast.Compare):
            if len(node.ops) != 1:
                raise ExtractError(f'line {node.lineno}: chained comparison')
            l = self.ev(node.left, env, ci, fn); r = self.ev(node.comparators[0], env, ci, fn)
            if isinstance(l, LenOf) or isinstance(r, LenOf):
                raise ExtractError(f'line {node.lineno}: len() comparison outside an `if` test')
            self.numeric(l, node.left); self.numeric(r, node.comparators[0])
            arrs = sorted({n for n in self.arr_names(node, env)})
            if not arrs:
                raise ExtractError(f'line {node.lineno}: comparison `{unparse(node)[:60]}` involves no agent array')
            text = self.canon(node, env)
            ver = tuple(self.writes.get(a, 0) for a in arrs)
            for a in self.atoms:   # the same comparison with no intervening write is the same atom
                if a['kind'] == 'cmp' and a['text'] == text and a['ver'] == list(ver):
                    return Mask(('atom', a['field']))
            opn = {ast.LtE: 'le', ast.Lt: 'lt', ast.GtE: 'ge', ast.Gt: 'gt', ast.Eq: 'eq', ast.NotEq: 'ne'}.get(type(node.ops[0]))
            if opn is None:
                raise ExtractError(f'line {node.lineno}: unsupported comparison operator')
            hint = '_'.join(arrs) + '_' + opn
            return Mask(self.new_atom('cmp', text, hint, node, ver=list(ver), arrays=arrs, at_entry=all(v == 0 for v in ver)))
        if isinstance(node, ast.Subscript):
            return self.ev_subscript(node, env, ci, fn)
        if isinstance(node, ast.Call):
            return self.ev_call(node, env, ci, fn, stmt=None)
        if isinstance(node, (ast.List, ast.Tuple)):
            for e in node.elts: self.ev(e, env, ci, fn)
            return Opaque()
        raise ExtractError(f'line {node.lineno}: unsupported expression `{unparse(node)[:70]}`')

    def arr_names(self, node, env):
        out = set()
        for n in ast.walk(node):
            if isinstance(n, ast.Attribute):
                p = self.path_of(n, env)
                if p and p.startswith('self.') and p[5:] in self.arrs:
                    out.add(p[5:])
        return out

    def numeric(self, v, node):
        """ value used arithmetically: must not be a flag mask """
        if isinstance(v, (Opaque, ArrRef, Const, Rvs)): return
        if isinstance(v, Param):   # e.g. `sources`
            return
        raise ExtractError(f'line {node.lineno}: flag/mask value used as a number in `{unparse(node)[:60]}`')

    def ev_attr(self, node, env, ci, fn):
        p = self.path_of(node, env)
        if p is not None:
            if p in OBJECT_PATHS: return Obj(p)
            if p in SCALAR_PATHS: return Opaque(p)
            if p == 'self.sim.people.alive':
                for a in self.atoms:
                    if a['kind'] == 'ext' and a['text'] == p: return Mask(('atom', a['field']))
                return Mask(self.new_atom('ext', p, 'alive', node))
            if p in ('self.sim.people.uid', 'self.sim.people.age', 'self.sim.people.auids'):
                return Opaque()
            if p.startswith('self.pars.') and p.count('.') == 2: return Opaque('')   # a parameter (number, dist, dict)
            if p.startswith('self.results.') and p.count('.') == 2: return Opaque('')
            if p.startswith('self.') and p.count('.') == 1:
                nm = p[5:]
                if nm in self.flags: return FlagRef(nm)
                if nm in self.arrs: return ArrRef(nm)
                _, prop = self.find(nm, kind='props')
                if prop is not None:
                    return self.inline_property(nm)
                if nm == 'statesdict': return Obj('self.statesdict')
                raise ExtractError(f'line {node.lineno}: unknown attribute self.{nm}')
            if node.attr not in ('uids', 'raw', 'values'):
                raise ExtractError(f'line {node.lineno}: unsupported attribute path {p}')
        # attribute of a computed value
        v = self.ev(node.value, env, ci, fn)
        if node.attr == 'uids':
            return Mask(self.as_mask(v, '.uids base', node.value), uk=True)
        if node.attr == 'raw' and isinstance(v, FlagRef):
            return FlagRef(v.name, raw=True)
        if node.attr in ('raw', 'values') and isinstance(v, ArrRef):
            return Opaque()
        if isinstance(v, Opaque):   # attribute of a parameter / result object
            return Opaque()
        raise ExtractError(f'line {node.lineno}: unsupported attribute `{unparse(node)[:60]}`')

    def inline_property(self, nm):
        i, prop = self.find(nm, kind='props')
        body = [s for s in prop.body if not (isinstance(s, ast.Expr) and isinstance(s.value, ast.Constant))]
        if len(body) != 1 or not isinstance(body[0], ast.Return) or body[0].value is None:
            raise ExtractError(f'property {nm}: only `return <mask expression>` supported')
        if len(prop.args.args) != 1:
            raise ExtractError(f'property {nm}: unexpected parameters')
        self.depth += 1
        if self.depth > 8: raise ExtractError('property recursion')
        save = self.cur_file
        v = self.ev(body[0].value, {'self': Obj('self')}, i, prop)
        self.cur_file = save
        self.depth -= 1
        return Mask(self.as_mask(v, f'property {nm}', body[0].value))

    def ev_subscript(self, node, env, ci, fn):
        base = self.ev(node.value, env, ci, fn)
        if isinstance(base, Obj) and base.path == 'self.statesdict':
            k = self.ev(node.slice, env, ci, fn)
            if isinstance(k, Const) and k.v in self.flags: return FlagRef(k.v)
            if isinstance(k, Const) and k.v in self.arrs: return ArrRef(k.v)
            raise ExtractError(f'line {node.lineno}: statesdict key is not a literal state name')
        if isinstance(base, Obj) and base.path in ('self.pars', 'self.results'):
            self.ev(node.slice, env, ci, fn)
            return Opaque()
        idx = self.ev(node.slice, env, ci, fn)
        if isinstance(base, (Mask, Param)):      # a uid set indexed by an aligned boolean outcome
            b = self.as_mask(base, 'uid set', node.value)
            if isinstance(idx, Rvs):
                if render(idx.base) != render(b):
                    raise ExtractError(f'line {node.lineno}: boolean index drawn for a different uid set')
                return Mask(('and', b, ('not', idx.atom) if idx.neg else idx.atom), uk=True)
            raise ExtractError(f'line {node.lineno}: unsupported index into a uid set `{unparse(node)[:60]}`')
        if isinstance(base, FlagRef):
            # reading flag values for a uid set: a per-agent mask restricted to that set
            m = self.as_mask(idx, 'index', node.slice)
            return Mask(('and', m, ('flag', base.name)))
        if isinstance(base, (ArrRef, Opaque, Rvs)):
            if isinstance(idx, (Mask, Param, FlagRef)): self.as_mask(idx, 'index', node.slice)
            return Opaque()
        raise ExtractError(f'line {node.lineno}: unsupported subscript `{unparse(node)[:60]}`')

    def ev_call(self, node, env, ci, fn, stmt):
        f = node.func
        ftxt = unparse(f)
        args = node.args; kws = node.keywords
        if any(k.arg is None for k in kws) or any(isinstance(a, ast.Starred) for a in args):
            raise ExtractError(f'line {node.lineno}: star-arguments unsupported')
        # len(X)
        if ftxt == 'len' and len(args) == 1:
            v = self.ev(args[0], env, ci, fn)
            return LenOf(self.as_mask(v, 'len() argument', args[0]))
        # set operations on uid sets
        if ftxt in ('np.setdiff1d', 'np.intersect1d', 'np.union1d') and len(args) == 2 and not kws:
            a = self.as_mask(self.ev(args[0], env, ci, fn), 'set operand', args[0])
            b = self.as_mask(self.ev(args[1], env, ci, fn), 'set operand', args[1])
            return Mask({'np.setdiff1d': ('and', a, ('not', b)), 'np.intersect1d': ('and', a, b), 'np.union1d': ('or', a, b)}[ftxt], uk=True)
        if ftxt in PURE_FUNCS:
            for a in args: self.ev(a, env, ci, fn)
            for k in kws: self.ev(k.value, env, ci, fn)
            return Opaque()
        if isinstance(f, ast.Attribute):
            meth = f.attr
            # super().m(...)
            if isinstance(f.value, ast.Call) and unparse(f.value) == 'super()':
                return self.inline(meth, ci + 1, node, env, ci, fn, stmt)
            p = self.path_of(f.value, env)
            if p == 'self':
                return self.inline(meth, 0, node, env, ci, fn, stmt)
            if p == 'self.sim.people' and meth == 'request_death':
                if len(args) != 1 or kws: raise ExtractError('request_death signature')
                m = self.as_mask(self.ev(args[0], env, ci, fn), 'request_death argument', args[0])
                self.events.append(dict(event='request_death', line=node.lineno, mask=render(self.pc_expr(m))))
                return Opaque()
            full = f'{p}.{meth}' if p else None
            if full in NOEFFECT_CALLS:
                for a in args: self.ev(a, env, ci, fn)
                return Opaque()
            recv = self.ev(f.value, env, ci, fn)
            # distribution calls on a parameter
            if isinstance(recv, Opaque) and meth in ('filter', 'rvs'):
                rp = self.canon(f.value, env)
                if len(args) != 1 or kws:
                    raise ExtractError(f'line {node.lineno}: {meth}() needs exactly one positional uid argument here')
                a = self.ev(args[0], env, ci, fn)
                if isinstance(a, (Mask, Param, FlagRef)):
                    base = self.as_mask(a, f'{meth} argument', args[0])
                    atom = self.new_atom('filter', rp, rp.split('.')[-1], node, stmt=stmt or node, call=meth)
                    if meth == 'filter':
                        return Mask(('and', base, atom), uk=True)
                    return Rvs(base, atom)
                if meth == 'rvs':      # rvs(n): plain numbers
                    self.numeric(a, args[0]); return Opaque()
                raise ExtractError(f'line {node.lineno}: filter() of a non-mask')
            if isinstance(recv, Opaque) and meth == 'set':    # <dist>.set(p=...)
                for k in kws: self.ev(k.value, env, ci, fn)
                for a in args: self.ev(a, env, ci, fn)
                return Opaque()
            if meth in PURE_METHODS and isinstance(recv, (Mask, FlagRef, ArrRef, Opaque, Rvs)):
                for a in args: self.ev(a, env, ci, fn)
                return Opaque()
        raise ExtractError(f'line {node.lineno}: unsupported call `{unparse(node)[:70]}`')

    def inline(self, meth, start, node, env, ci, fn, stmt):
        i, target = self.find(meth, start)
        if target is None:
            raise ExtractError(f'line {node.lineno}: method {meth} not found (from {self.mro[min(start, len(self.mro)-1)].name})')
        argvals = [self.ev(a, env, ci, fn) for a in node.args]
        kwvals = {k.arg: self.ev(k.value, env, ci, fn) for k in node.keywords}
        # mask arguments are passed by (let-bound) name so that `len(X)` absorption and rvs bases stay syntactic
        def norm(v, a):
            if isinstance(v, Mask) and v.e[0] != 'var':
                nm = self.fresh('arg'); self.ops.append(('let', nm, v.e, f'argument `{unparse(a)[:40]}`'))
                return Mask(('var', nm))
            return v
        argvals = [norm(v, a) for v, a in zip(argvals, node.args)]
        new_env = self.bind_params(target, node, argvals, kwvals)
        st = stmt or node
        self.path.append((os.path.basename(self.mro[ci].rel), st.lineno, st.end_lineno))
        save = self.cur_file
        self.run_body(target, i, new_env)
        self.cur_file = save
        self.path.pop()
        return Opaque()

    # ---- statements ------------------------------------------------------
    def stmt(self, st, env, ci, fn):
        self.cur_file = os.path.basename(self.mro[ci].rel)
        where = f'{self.mro[ci].name}.{fn.name} line {st.lineno}'
        if isinstance(st, ast.Pass): return
        if isinstance(st, ast.Expr):
            if isinstance(st.value, ast.Constant): return        # docstring
            if isinstance(st.value, ast.Call):
                self.ev_call(st.value, env, ci, fn, stmt=st); return
            raise ExtractError(f'{where}: unsupported expression statement')
        if isinstance(st, ast.Assign):
            if len(st.targets) != 1:
                raise ExtractError(f'{where}: chained assignment')
            tgt = st.targets[0]
            if isinstance(tgt, ast.Name):
                if isinstance(st.value, ast.Call):
                    v = self.ev_call(st.value, env, ci, fn, stmt=st)
                else:
                    v = self.ev(st.value, env, ci, fn)
                if isinstance(v, (Mask, FlagRef)) or (isinstance(v, Param) and v.atom is not None):
                    e = self.as_mask(v, 'value', st.value)
                    nm = self.fresh(tgt.id)
                    self.ops.append(('let', nm, e, f'{self.cur_file}:{st.lineno}  {tgt.id} = {unparse(st.value)[:80]}'))
                    v = Mask(('var', nm), uk=isinstance(v, Param) or getattr(v, 'uk', False))
                elif isinstance(v, LenOf):
                    raise ExtractError(f'{where}: len() stored in a variable')
                elif isinstance(v, Opaque) and not v.text and isinstance(st.value, ast.BinOp):
                    v = Opaque(); v.tree = self._num_tree(st.value, env)     # e.g. `dur = ti + <draw>`: remember the structure
                env[tgt.id] = v
                return
            if isinstance(tgt, ast.Subscript):
                self.assign_sub(tgt, st.value, st, env, ci, fn, where, aug=False); return
            raise ExtractError(f'{where}: unsupported assignment target `{unparse(tgt)[:50]}`')
        if isinstance(st, ast.AugAssign):
            if isinstance(st.target, ast.Subscript):
                self.assign_sub(st.target, st.value, st, env, ci, fn, where, aug=True); return
            raise ExtractError(f'{where}: unsupported augmented assignment')
        if isinstance(st, ast.If):
            cond = self.if_cond(st.test, env, ci, fn, where)
            self.pc.append(cond)
            for s in st.body: self.stmt_no_return(s, env, ci, fn)
            self.pc.pop()
            if st.orelse:
                self.pc.append((('not', cond[0]), set()))
                for s in st.orelse: self.stmt_no_return(s, env, ci, fn)
                self.pc.pop()
            return
        if isinstance(st, ast.For):
            if st.orelse or not isinstance(st.target, ast.Name) or not isinstance(st.iter, (ast.List, ast.Tuple)) \
                    or not all(isinstance(e, ast.Constant) for e in st.iter.elts):
                raise ExtractError(f'{where}: only `for name in [literals]` supported')
            for e in st.iter.elts:
                env[st.target.id] = Const(e.value)
                for s in st.body: self.stmt_no_return(s, env, ci, fn)
            return
        raise ExtractError(f'{where}: unsupported statement `{unparse(st)[:70]}`')

    def stmt_no_return(self, s, env, ci, fn):
        if isinstance(s, ast.Return):
            raise ExtractError(f'{fn.name}: return inside a block at line {s.lineno}')
        self.stmt(s, env, ci, fn)

    def if_cond(self, test, env, ci, fn, where):
        t = test
        if isinstance(t, ast.Compare) and len(t.ops) == 1 and isinstance(t.comparators[0], ast.Constant) and t.comparators[0].value == 0 \
                and isinstance(t.ops[0], (ast.Gt, ast.NotEq)) and isinstance(t.left, ast.Call) and unparse(t.left.func) == 'len':
            t = t.left
        if isinstance(t, ast.Call) and unparse(t.func) == 'len':
            v = self.ev(t, env, ci, fn)
            m = v.mask
            atom = self.new_atom('len', self.canon(t, env), unparse(t.args[0]), t)
            return (('or', m, atom), {render(m)})
        # a configuration condition with no per-agent content
        names = {n.id for n in ast.walk(t) if isinstance(n, ast.Name)}
        v = self.ev(t, env, ci, fn)
        if isinstance(v, (Opaque, Const)) and not self.arr_names(t, env):
            text = self.canon(t, env)
            for a in self.atoms:
                if a['kind'] == 'cfg' and a['text'] == text: return (('atom', a['field']), set())
            return (self.new_atom('cfg', text, text, t), set())
        raise ExtractError(f'{where}: unsupported `if` test `{unparse(test)[:60]}`')

    def assign_sub(self, tgt, value, st, env, ci, fn, where, aug):
        base = self.ev(tgt.value, env, ci, fn)
        if isinstance(base, FlagRef):
            if aug: raise ExtractError(f'{where}: augmented assignment to flag {base.name}')
            idx = self.ev(tgt.slice, env, ci, fn)
            if base.raw and not (isinstance(idx, Param) or getattr(idx, 'uk', False)):
                # `flag.raw[BoolArr]` would index storage positions, not agents: only uid arrays are equivalent to `flag[uids]`
                raise ExtractError(f'{where}: `{base.name}.raw[...]` indexed by something not known to be a uid array')
            m = self.as_mask(idx, 'flag index', tgt.slice)
            if not (isinstance(value, ast.Constant) and isinstance(value.value, bool)):
                raise ExtractError(f'{where}: flag {base.name} assigned a non-literal value `{unparse(value)[:40]}`')
            self.ops.append(('set', base.name, self.pc_expr(m), value.value, f'{self.cur_file}:{st.lineno}  {unparse(st)[:90]}'))
            return
        if isinstance(base, ArrRef):
            idx = self.ev(tgt.slice, env, ci, fn)
            if isinstance(idx, (Mask, Param, FlagRef)):
                mtxt = render(self.pc_expr(self.as_mask(idx, 'index', tgt.slice)))
            else:
                raise ExtractError(f'{where}: non-flag array {base.name} indexed by a non-mask')
            if isinstance(value, ast.Call): v = self.ev_call(value, env, ci, fn, stmt=st)
            else: v = self.ev(value, env, ci, fn)
            if not isinstance(v, Mask): self.numeric(v, value)
            self.writes[base.name] = self.writes.get(base.name, 0) + 1
            self.timers.append(dict(array=base.name, line=st.lineno, file=self.cur_file, op='+=' if aug else '=',
                                    rhs=self.canon(value, env)[:120], mask=mtxt[:120]))
            if base.name.startswith('ti_'):
                tree = self.num_tree(value, env) if not aug else ('free', self.canon(value, env))
                self.ops.append(('tset', base.name, self.pc_expr(self.as_mask(idx, 'index', tgt.slice)), tree,
                                 f'{self.cur_file}:{st.lineno}  {unparse(st)[:90]}'))
            return
        if isinstance(base, Opaque):
            # results / parameter containers: `r.env_prev[ti] = ...`; never a flag
            p = self.path_of(tgt.value, env)
            ok = p is not None and (p.startswith('self.results.') or p.startswith('self.pars.'))
            if not ok:
                raise ExtractError(f'{where}: assignment into `{unparse(tgt.value)[:50]}` (cannot show it is not a flag)')
            self.ev(tgt.slice, env, ci, fn)
            v = self.ev(value, env, ci, fn)
            if not isinstance(v, Mask): self.numeric(v, value)
            return
        raise ExtractError(f'{where}: unsupported subscript assignment `{unparse(st)[:70]}`')

    # Two clocks (round 3): a module counts ITS OWN steps (`self.ti`, `self.t.ti`); the simulation counts its own
    # (`self.sim.ti`).  They coincide only while the module inherits the sim's timestep - a module may be given its own
    # `dt` / `unit` - so the timer model keeps them apart: `now` (module clock) and `simNow` (unrelated rational).
    NOW_PATHS = ('self.ti', 'self.t.ti')
    SIM_NOW_PATHS = ('self.sim.ti', 'self.sim.t.ti')

    def num_tree(self, node, env):
        tr = self._num_tree(node, env)
        if tr[0] in ('dur', 'free'):
            self.nserial = getattr(self, 'nserial', 0) + 1
            tr = (tr[0], tr[1], self.nserial)
        return tr

    def serialise(self, tr):
        if tr[0] == 'add': return ('add', self.serialise(tr[1]), self.serialise(tr[2]))
        if tr[0] in ('dur', 'free'):
            self.nserial = getattr(self, 'nserial', 0) + 1
            return (tr[0], tr[1], self.nserial)
        return tr

    def _num_tree(self, node, env):
        """ right-hand side of a timer write as ('now') | ('simnow') | ('timer', name) | ('dur', text) | ('add', a, b) | ('free', text):
            `now` = the module's own step index, `simnow` = the simulation's step index (a different clock),
            `dur` = an opaque duration (a drawn / rounded number, assumed non-negative by the timer theorems),
            `free` = anything else (no assumption) """
        if isinstance(node, ast.Name):
            v = env.get(node.id)
            if isinstance(v, Opaque) and v.text in self.NOW_PATHS: return ('now',)
            if isinstance(v, Opaque) and v.text in self.SIM_NOW_PATHS: return ('simnow',)
            if isinstance(v, Opaque) and getattr(v, 'tree', None) is not None: return self.serialise(v.tree)
            if isinstance(v, (Rvs, Opaque)): return ('dur', self.canon(node, env))
            return ('free', self.canon(node, env))
        p = self.path_of(node, env)
        if p in self.NOW_PATHS: return ('now',)
        if p in self.SIM_NOW_PATHS: return ('simnow',)
        if p and p.startswith('self.') and p[5:] in self.arrs and p[5:].startswith('ti_'): return ('timer', p[5:])
        if isinstance(node, ast.Subscript):
            b = self.path_of(node.value, env)
            if b and b.startswith('self.') and b[5:] in self.arrs and b[5:].startswith('ti_'): return ('timer', b[5:])
            if isinstance(node.value, ast.Name) and isinstance(env.get(node.value.id), (Rvs, Opaque)):
                return ('dur', self.canon(node, env))
            return ('free', self.canon(node, env))
        if isinstance(node, ast.BinOp) and isinstance(node.op, ast.Add):
            return ('add', self.num_tree(node.left, env), self.num_tree(node.right, env))
        if isinstance(node, ast.Call):
            txt = unparse(node.func)
            if txt in ('rr', 'sc.randround') and len(node.args) == 1:       # rounding a non-negative number keeps it non-negative
                inner = self.num_tree(node.args[0], env)
                return ('dur', self.canon(node, env)) if inner[0] == 'dur' else ('free', self.canon(node, env))
            if isinstance(node.func, ast.Attribute) and node.func.attr == 'rvs':
                return ('dur', self.canon(node, env))
        return ('free', self.canon(node, env))

    # ---- dead-code elimination and rendering ---------------------------------
    def finish(self):
        all_ops = self.ops
        # timer view: every flag update (masks may read flags), every timer write, the lets they need
        def has_flag(e):
            return e[0] == 'flag' or (e[0] in ('and', 'or', 'xor') and (has_flag(e[1]) or has_flag(e[2]))) or (e[0] == 'not' and has_flag(e[1]))

        def timer_view(outputs):
            tl_vars, tl_atoms = set(), set()
            tkeep = [False] * len(all_ops)
            for i in range(len(all_ops) - 1, -1, -1):
                op = all_ops[i]
                if op[0] in outputs:
                    tkeep[i] = True
                    for k, n in refs(op[2], set()): (tl_vars if k == 'var' else tl_atoms).add(n)
                elif op[0] == 'let' and op[1] in tl_vars:
                    tkeep[i] = True
                    for k, n in refs(op[2], set()): (tl_vars if k == 'var' else tl_atoms).add(n)
            return [op for op, k in zip(all_ops, tkeep) if k], tl_atoms
        t_ops, tl_atoms = timer_view(('tset',))
        if any(has_flag(op[2]) for op in t_ops):     # a timer mask reads flags: keep the flag updates as well
            t_ops, tl_atoms = timer_view(('tset', 'set'))
        self.t_ops = t_ops
        self.t_atoms = [a for a in self.atoms if a['field'] in tl_atoms]
        self.ops = [op for op in all_ops if op[0] != 'tset']
        live_vars, live_atoms = set(), set()
        keep = [False] * len(self.ops)
        for i in range(len(self.ops) - 1, -1, -1):
            op = self.ops[i]
            if op[0] == 'set':
                keep[i] = True
                for k, n in refs(op[2], set()):
                    (live_vars if k == 'var' else live_atoms).add(n)
            elif op[1] in live_vars:
                keep[i] = True
                for k, n in refs(op[2], set()):
                    (live_vars if k == 'var' else live_atoms).add(n)
        for a in self.atoms:   # where a comparison can be observed: on the arrays at entry, or at exit when no later write follows
            if a['kind'] == 'cmp':
                final = [self.writes.get(x, 0) for x in a['arrays']]
                a['observe'] = 'entry' if all(v == 0 for v in a['ver']) else ('exit' if a['ver'] == final else None)
        ops = [op for op, k in zip(self.ops, keep) if k]
        atoms = [a for a in self.atoms if a['field'] in live_atoms]
        pruned = [a for a in self.atoms if a['field'] not in live_atoms]
        return dict(ops=ops, atoms=atoms, pruned=pruned, timers=self.timers, events=self.events, defined_in=self.defined_in,
                    t_ops=self.t_ops, t_atoms=self.t_atoms)


def render_method(lean_name, gname, res):
    lines = []
    fields = [a['field'] for a in res['atoms']]
    lines.append(f'/-- guard atoms of `{lean_name}` (free Bool inputs) -/')
    lines.append(f'structure {gname} where')
    for a in res['atoms']:
        lines.append(f'  /-- {a["kind"]}: `{a["text"]}` (line {a["line"]}) -/')
        lines.append(f'  {a["field"]} : Bool')
    lines.append('deriving DecidableEq, Repr')
    lines.append('')
    lines += quantifier_instances(gname, fields)
    gvar = 'g' if fields else '_g'
    lines.append(f'def {lean_name} (s : Flags) ({gvar} : {gname}) : Flags :=')
    for op in res['ops']:
        if op[0] == 'let':
            lines.append(f'  -- {op[3]}')
            lines.append(f'  let {op[1]} := {render(op[2])}')
        else:
            lines.append(f'  -- {op[4]}')
            v = 'true' if op[3] else 'false'
            lines.append(f'  let s := {{ s with {op[1]} := if {render(op[2])} then {v} else s.{op[1]} }}')
    lines.append('  s')
    lines.append('')
    has_uids = 'p_uids' in fields
    lines.append(f'/-- the agent is in the `uids` argument (`true` when the method ignores the argument) -/')
    lines.append(f'def {gname}.uids ({gvar if has_uids else "_g"} : {gname}) : Bool := {"g.p_uids" if has_uids else "true"}')
    lines.append(f'def {gname}.ofList : List Bool → Option {gname}')
    pat = ', '.join(fields)
    lines.append(f'  | [{pat}] => some ⟨{pat}⟩' if fields else '  | [] => some ⟨⟩')
    lines.append('  | _ => none')
    lines.append('')
    return lines


def render_timers(cls, arrs, res):
    """ Lean timer model of set_prognoses: Timers record, durations, guards, `setPrognosesTimers` """
    timers = [a for a in arrs if a.startswith('ti_')]
    L = ['/-! ### scheduled times written by `set_prognoses` -/',
         f'/-- the `ti_*` arrays of `{cls}` for one agent (`none` = nan) -/', 'structure Timers where']
    for t in timers: L.append(f'  {t} : Option Rat')
    L += ['deriving DecidableEq, Repr', '',
          f'def Timers.const (v : Option Rat) : Timers := ⟨{", ".join("v" for _ in timers)}⟩', '']
    durs, frees = [], []
    names = {}
    def walk(tr):
        if tr[0] == 'add': walk(tr[1]); walk(tr[2])
        elif tr[0] in ('dur', 'free'):
            key = tr
            if key not in names:
                base = ('d_' if tr[0] == 'dur' else 'x_') + lean_ident(tr[1])[:40]
                nm = base; k = 1
                while nm in names.values(): k += 1; nm = f'{base}_{k}'
                names[key] = nm
                (durs if tr[0] == 'dur' else frees).append((nm, tr[1]))
    for op in res['t_ops']:
        if op[0] == 'tset': walk(op[3])
    L.append('/-- opaque numbers used by the timer writes: `d_*` durations (drawn / rounded; the theorems assume them non-negative), `x_*` anything else -/')
    L.append('structure SetPrognosesD where')
    for nm, txt in durs: L += [f'  /-- `{txt}` -/', f'  {nm} : Rat']
    for nm, txt in frees: L += [f'  /-- `{txt}` -/', f'  {nm} : Option Rat']
    L += ['deriving DecidableEq, Repr', '']
    conj = ' ∧ '.join(f'0 ≤ d.{nm}' for nm, _ in durs) or 'True'
    L.append(f'def SetPrognosesD.nonneg ({"d" if durs else "_d"} : SetPrognosesD) : Prop := {conj}')
    L.append('instance (d : SetPrognosesD) : Decidable d.nonneg := by unfold SetPrognosesD.nonneg; exact inferInstance')
    tup = ', '.join([nm for nm, _ in durs] + ['none' for _ in frees])
    body = f'[(⟨{tup}⟩ : SetPrognosesD)]'
    for nm, _ in reversed(durs):
        body = f'([0, 1] : List Rat).flatMap fun {nm} => {body}'
    L.append('/-- every assignment of 0 / 1 to the durations (a finite search space for the counterexample theorems) -/')
    L.append(f'def SetPrognosesD.all01 : List SetPrognosesD := {body}')
    L.append('')
    fields = [a['field'] for a in res['t_atoms']]
    L.append('/-- guard atoms that select which agents a timer write applies to -/')
    L.append('structure SetPrognosesTG where')
    for a in res['t_atoms']:
        L += [f'  /-- {a["kind"]}: `{a["text"]}` (line {a["line"]}) -/', f'  {a["field"]} : Bool']
    L += ['deriving DecidableEq, Repr', '']
    L += quantifier_instances('SetPrognosesTG', fields)
    def rt(tr):
        if tr[0] == 'now': return 'some now'
        if tr[0] == 'simnow': return 'some simNow'
        if tr[0] == 'timer': return f't.{tr[1]}'
        if tr[0] == 'dur': return f'some d.{names[tr]}'
        if tr[0] == 'free': return f'd.{names[tr]}'
        return f'TimerOps.oadd ({rt(tr[1])}) ({rt(tr[2])})'
    gv = 'g' if fields else '_g'
    uses_s = any(('s.' in render(op[2])) for op in res['t_ops'])
    uses_d = bool(durs or frees)
    def clocks(tr):
        if tr[0] == 'add': return clocks(tr[1]) | clocks(tr[2])
        return {tr[0]} & {'now', 'simnow'}
    uses_sim = any('simnow' in clocks(op[3]) for op in res['t_ops'] if op[0] == 'tset')
    uses_now = any('now' in clocks(op[3]) for op in res['t_ops'] if op[0] == 'tset')
    L.append('/-- `now` = the step index of the module itself (`self.ti`), `simNow` = the step index of the simulation (`self.sim.ti`): two')
    L.append('    clocks that agree only while the module inherits the simulation\'s timestep; the theorems quantify over both. -/')
    L.append(f'def setPrognosesTimers ({"now" if uses_now else "_now"} {"simNow" if uses_sim else "_simNow"} : Rat) ({"d" if uses_d else "_d"} : SetPrognosesD) ({"s" if uses_s else "_s"} : Flags) ({gv} : SetPrognosesTG) (t : Timers) : Timers :=')
    for op in res['t_ops']:
        if op[0] == 'let':
            L += [f'  -- {op[3]}', f'  let {op[1]} := {render(op[2])}']
        elif op[0] == 'set':
            if uses_s:
                v = 'true' if op[3] else 'false'
                L += [f'  -- {op[4]}', f'  let s := {{ s with {op[1]} := if {render(op[2])} then {v} else s.{op[1]} }}']
        else:
            L += [f'  -- {op[4]}', f'  let t := {{ t with {op[1]} := if {render(op[2])} then {rt(op[3])} else t.{op[1]} }}']
    L += ['  t', '']
    return L, dict(timers=timers, durations=[dict(field=n, text=t) for n, t in durs], free=[dict(field=n, text=t) for n, t in frees],
                   atoms=fields, uses_sim_clock=uses_sim,
                   writes=[dict(timer=op[1], mask=render(op[2]), rhs=rt(op[3]), src=op[4], clocks=sorted(clocks(op[3])))
                           for op in res['t_ops'] if op[0] == 'tset'])


def quantifier_instances(tname, fields):
    """ Decidable (∀ x : T, p x) / (∃ x : T, p x) by reduction to the Bool fields (core Lean only) """
    L = []
    if fields:
        bs = ' '.join(fields)
        tup = ', '.join(fields)
        under = ' '.join('_' for _ in fields)
        L.append(f'theorem {tname}.forall_iff (p : {tname} → Prop) : (∀ x, p x) ↔ (∀ {bs} : Bool, p ⟨{tup}⟩) :=')
        L.append(f'  ⟨fun h {under} => h _, fun h x => by cases x; apply h⟩')
        L.append(f'theorem {tname}.exists_iff (p : {tname} → Prop) : (∃ x, p x) ↔ (∃ {bs} : Bool, p ⟨{tup}⟩) :=')
        L.append(f'  ⟨fun ⟨x, h⟩ => by cases x; exact ⟨{", ".join("_" for _ in fields)}, h⟩, fun ⟨{tup}, h⟩ => ⟨⟨{tup}⟩, h⟩⟩')
    else:
        L.append(f'theorem {tname}.forall_iff (p : {tname} → Prop) : (∀ x, p x) ↔ p ⟨⟩ :=')
        L.append('  ⟨fun h => h _, fun h x => by cases x; exact h⟩')
        L.append(f'theorem {tname}.exists_iff (p : {tname} → Prop) : (∃ x, p x) ↔ p ⟨⟩ :=')
        L.append('  ⟨fun ⟨x, h⟩ => by cases x; exact h, fun h => ⟨⟨⟩, h⟩⟩')
    L.append(f'instance (p : {tname} → Prop) [DecidablePred p] : Decidable (∀ x, p x) := decidable_of_iff _ ({tname}.forall_iff p).symm')
    L.append(f'instance (p : {tname} → Prop) [DecidablePred p] : Decidable (∃ x, p x) := decidable_of_iff _ ({tname}.exists_iff p).symm')
    L.append('')
    return L


def outcome_clock(mro):
    """
    Which clock does `set_congenital` (the writer of the birth-outcome timers, outside the three translated methods)
    schedule in?  Returns None when the class chain only has the empty default, else
    dict(in_module_clock=bool, writes=[...]).  `self.ti` / `self.t.ti` = the module's own step index, `self.sim.ti` = the
    simulation's.  Fails closed when a non-trivial `set_congenital` schedules nothing recognisable.
    """
    fn = None
    for ci in mro:
        f = ci.funcs.get('set_congenital')
        if f is not None:
            body = [st for st in f.body if not (isinstance(st, ast.Expr) and isinstance(st.value, ast.Constant))]
            if all(isinstance(st, (ast.Pass, ast.Return)) for st in body):
                return None
            fn, owner = f, ci
            break
    if fn is None:
        return None
    alias = {}
    for n in ast.walk(fn):
        if isinstance(n, ast.Assign) and len(n.targets) == 1 and isinstance(n.targets[0], ast.Name) and isinstance(n.value, (ast.Attribute, ast.Name)):
            alias[n.targets[0].id] = n.value

    def path(node, depth=0):
        if isinstance(node, ast.Name):
            if node.id in alias and depth < 8: return path(alias[node.id], depth + 1)
            return node.id
        if isinstance(node, ast.Attribute):
            b = path(node.value, depth)
            return None if b is None else f'{b}.{node.attr}'
        return None
    writes = []
    for n in ast.walk(fn):
        if isinstance(n, (ast.Assign, ast.AugAssign)):
            tg = n.targets[0] if isinstance(n, ast.Assign) else n.target
            if not isinstance(tg, ast.Subscript): continue
            clocks = set()
            for m in ast.walk(n.value):
                pth = path(m) if isinstance(m, (ast.Attribute, ast.Name)) else None
                if pth in Translator.NOW_PATHS: clocks.add('module')
                elif pth in Translator.SIM_NOW_PATHS: clocks.add('sim')
            if clocks:
                writes.append(dict(line=n.lineno, text=unparse(n)[:100], clocks=sorted(clocks)))
    if not writes:
        raise ExtractError(f'{owner.name}.set_congenital schedules no time the translator recognises (cannot tell its clock)')
    return dict(defined_in=owner.name, in_module_clock=all(w['clocks'] == ['module'] for w in writes), writes=writes)


def translate_disease(src, name):
    rel, cls = DISEASE_CLASSES[name]
    mro = mro_of(src, rel, cls)
    flags, arrs = collect_states(mro)
    if 'susceptible' not in flags or 'infected' not in flags:
        raise ExtractError(f'{cls}: susceptible/infected flags not declared')
    tr = Translator(name, mro, flags, arrs)
    ns = name.capitalize()
    L = ['import StarsimModel.Model.TimerOps', f'namespace StarsimModel.Gen.{ns}', 'open StarsimModel', '',
         f'/-- the ss.State flags of `{cls}` (with those inherited from {", ".join(c.name for c in mro[1:])}) -/',
         'structure Flags where']
    for f in flags: L.append(f'  {f} : Bool')
    L += ['deriving DecidableEq, Repr', '']
    L += quantifier_instances('Flags', flags)
    L.append(f'def flagNames : List String := [{", ".join(lean_str(f) for f in flags)}]')
    pat = ', '.join(flags)
    L += ['def Flags.ofList : List Bool → Option Flags', f'  | [{pat}] => some ⟨{pat}⟩', '  | _ => none',
          f'def Flags.toList (s : Flags) : List Bool := [{", ".join("s." + f for f in flags)}]', '']
    facts = dict(cls=cls, mro=[c.name for c in mro], flags=flags, arrays=arrs, methods={})
    for py, ln, gn in METHODS:
        res = tr.translate_method(py)
        L.append(f'/-! ### `{cls}.{py}` (defined in {res["defined_in"]}) -/')
        L += render_method(ln, gn, res)
        if py == 'set_prognoses':
            tl, tf = render_timers(cls, arrs, res)
            timer_lines = tl; facts['timer_model'] = tf
        facts['methods'][py] = dict(
            defined_in=res['defined_in'], lean=ln,
            atoms=[{k: a.get(k) for k in ('field', 'kind', 'text', 'line', 'path', 'observe', 'call') if a.get(k) is not None or k == 'field'}
                   for a in res['atoms']],
            pruned=[dict(field=a['field'], kind=a['kind'], text=a['text']) for a in res['pruned']],
            sets=[dict(flag=o[1], value=o[3], src=o[4]) for o in res['ops'] if o[0] == 'set'],
            timers=res['timers'], events=res['events'])
    L += timer_lines
    # does the class resolve disease deaths itself?
    sd = facts['methods']['step_die']
    L.append(f'/-- `{cls}.step_die` changes flags (i.e. is not the empty `Disease.step_die`) -/')
    L.append(f'def hasStepDie : Bool := {"true" if sd["sets"] else "false"}')
    requests = any(e['event'] == 'request_death' for m in facts['methods'].values() for e in m['events'])
    L.append(f'/-- some translated method calls `people.request_death` -/')
    L.append(f'def requestsDeath : Bool := {"true" if requests else "false"}')
    facts['has_step_die'] = bool(sd['sets']); facts['requests_death'] = requests
    # does every infection record the current step in ti_infected?  (new_infections counts `ti_infected == ti`)
    # (the step counted by `update_results` is the module's own: `count_nonzero(ti_infected == self.ti)`; the sim's index is another clock)
    NOW = {'self.ti', 'self.t.ti'}
    writes = [t for t in facts['methods']['set_prognoses']['timers'] if t['array'] == 'ti_infected']
    state = None
    for w in writes:
        full = w['mask'] == 'g.p_uids' and w['op'] == '='
        now = w['rhs'] in NOW and w['op'] == '='
        if full: state = now
        elif not now: state = False
    if state is None:
        raise ExtractError(f'{cls}.set_prognoses never assigns ti_infected for the infected agents')
    L.append('/-- every agent passed to `set_prognoses` leaves it with `ti_infected` = the current step; writes in order: ' +
             '; '.join(f"{w['file']}:{w['line']} ti_infected[{w['mask']}] {w['op']} {w['rhs']}" for w in writes).replace('-/', '- /') + ' -/')
    L.append(f'def infectionTimeIsNow : Bool := {"true" if state else "false"}')
    facts['infection_time_is_now'] = bool(state)
    facts['ti_infected_writes'] = writes
    # birth outcomes (set_congenital): which clock are they scheduled in?  (step_state compares them with the module's own index)
    oc = outcome_clock(mro)
    facts['outcome_clock'] = oc
    if oc is not None:
        L.append('/-- `set_congenital` schedules every birth outcome in the module\'s own clock (`self.ti`), the clock `step_state` compares it in; writes: ' +
                 '; '.join(f"line {w['line']}: {w['text']} [{'+'.join(w['clocks'])}]" for w in oc['writes']).replace('-/', '- /') + ' -/')
        L.append(f'def congenitalOutcomeInModuleClock : Bool := {"true" if oc["in_module_clock"] else "false"}')
    # infectious
    tr.ops = []; tr.atoms = []; tr.nvar = 0; tr.writes = {}; tr.timers = []; tr.events = []; tr.pc = []; tr.depth = 0; tr.path = []
    tr.cur_file = ''
    inf = tr.inline_property('infectious')
    if tr.atoms or tr.ops:
        raise ExtractError(f'{cls}.infectious depends on more than the flags')
    L.append(f'/-- `{cls}.infectious` -/')
    L.append(f'def infectious (s : Flags) : Bool := {render(inf.e)}')
    facts['infectious'] = render(inf.e)
    L.append('')
    L.append('/-- line-protocol entry point: method name, flag bits, guard bits -> flag bits after the method -/')
    L.append('def run (method : String) (fl gl : List Bool) : Option (List Bool) :=')
    L.append('  match method, Flags.ofList fl with')
    for py, ln, gn in METHODS:
        L.append(f'  | {lean_str(py)}, some s => ({gn}.ofList gl).map fun g => ({ln} s g).toList')
    L.append('  | _, _ => none')
    L.append('def guardCount (method : String) : Option Nat :=')
    L.append('  match method with')
    for py, ln, gn in METHODS:
        L.append(f'  | {lean_str(py)} => some {len(facts["methods"][py]["atoms"])}')
    L.append('  | _ => none')
    L.append('')
    L.append(f'end StarsimModel.Gen.{ns}')
    return '\n'.join(L) + '\n', facts


def _register(name):
    rel, cls = DISEASE_CLASSES[name]
    files = sorted({rel, 'starsim/disease.py'} | ({'starsim/diseases/sir.py'} if name in ('measles', 'ebola') else set()))
    @generator(f'Disease_{name}', files)
    def gen(src, _name=name):
        try:
            return translate_disease(src, _name)
        except ExtractError:
            raise
        except Exception as e:     # fail closed on anything the translator did not anticipate
            raise ExtractError(f'translator failed on {_name}: {type(e).__name__}: {e}')
    return gen


for _n in DISEASE_CLASSES:
    _register(_n)
