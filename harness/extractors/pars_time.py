"""
C17 (round 5) -> Generated/ParsTimePar.lean

The FIELDS of a time parameter supplied in list / dict form go through `TimePar.set(*list)` / `TimePar.set(**dict)`:
  * `TimePar.set`       statement by statement: `if f is not None: self.f = f` (the supplied object, unchanged),
                        `if self.initialized or force: self.update_cached()`, `self.validate_units()`, `return self`
  * `TimePar.__init__`  statement by statement: `self.f = f` for the five fields, internal attributes reset to None / False,
                        `self.validate_units()`
  * `validate_units`    which fields are mapped STRICTLY through `unit_mapping[...]` (KeyError -> ValueError)
  * `unit_mapping_reverse` (the documented name table) and that `unit_mapping` is its inversion; the keys of `time_units`
  * `Pars._update_timepar` hands a list to `old.set(*new)` and a dict to `old.set(**new)`
Pure `ast`; any other statement / expression shape -> ExtractError (fail closed).
"""
import ast
from harness.extract import generator, ExtractError, lean_str, unparse

FIELDS = {'v': '.v', 'unit': '.unit', 'parent_unit': '.parentUnit', 'parent_dt': '.parentDt', 'self_dt': '.selfDt'}
REL = 'starsim/time.py'


def _self_attr(e):
    if isinstance(e, ast.Attribute) and isinstance(e.value, ast.Name) and e.value.id == 'self': return e.attr
    return None


def _doc(st):
    return isinstance(st, ast.Expr) and isinstance(st.value, ast.Constant) and isinstance(st.value.value, str)


def _plain_store(st):
    """ `self.f = f` -> f """
    if isinstance(st, ast.Assign) and len(st.targets) == 1 and _self_attr(st.targets[0]) in FIELDS \
            and isinstance(st.value, ast.Name) and st.value.id == _self_attr(st.targets[0]):
        return st.value.id
    return None


def extract_set(src):
    fn = src.func(REL, 'set', 'TimePar')
    names = [a.arg for a in fn.args.args][1:]
    if names[:5] != list(FIELDS) or fn.args.vararg or fn.args.kwarg:
        raise ExtractError(f'TimePar.set: positional parameters are {names}, expected {list(FIELDS)} first (a list value is spread over them)')
    if any(not (isinstance(d, ast.Constant) and d.value in (None, False)) for d in fn.args.defaults):
        raise ExtractError('TimePar.set: a parameter default is not None/False')
    steps = []
    for st in fn.body:
        if _doc(st): continue
        if isinstance(st, ast.Return):
            if st.value is None or unparse(st.value) == 'self': continue
            raise ExtractError(f'TimePar.set returns `{unparse(st.value)}`')
        if isinstance(st, ast.If) and not st.orelse:
            t = st.test
            if isinstance(t, ast.Compare) and len(t.ops) == 1 and isinstance(t.ops[0], ast.IsNot) and isinstance(t.left, ast.Name) \
                    and isinstance(t.comparators[0], ast.Constant) and t.comparators[0].value is None and len(st.body) == 1:
                f = _plain_store(st.body[0])
                if f is None or f != t.left.id:
                    raise ExtractError(f'TimePar.set: `{unparse(st)[:90]}` does not store the supplied `{t.left.id}` unchanged')
                steps.append(f'.assignIfGiven {FIELDS[f]}'); continue
            tt = unparse(t).replace(' ', '')
            if tt in ('self.initializedorforce', 'forceorself.initialized') and len(st.body) == 1 and unparse(st.body[0]).replace(' ', '') == 'self.update_cached()':
                steps.append('.updateCachedIfLive'); continue
        if isinstance(st, ast.Expr) and unparse(st.value).replace(' ', '') == 'self.validate_units()':
            steps.append('.validate'); continue
        raise ExtractError(f'TimePar.set: unsupported statement `{unparse(st)[:90]}`')
    return steps


def extract_init(src):
    fn = src.func(REL, '__init__', 'TimePar')
    names = [a.arg for a in fn.args.args][1:]
    if names != list(FIELDS):
        raise ExtractError(f'TimePar.__init__: parameters are {names}, expected {list(FIELDS)}')
    steps = []
    for st in fn.body:
        if _doc(st) or (isinstance(st, ast.Return) and st.value is None): continue
        f = _plain_store(st)
        if f is not None:
            steps.append(f'.store {FIELDS[f]}'); continue
        if isinstance(st, ast.Assign) and len(st.targets) == 1 and _self_attr(st.targets[0]) in ('factor', 'values', 'initialized') \
                and isinstance(st.value, ast.Constant) and st.value.value in (None, False):
            continue
        if isinstance(st, ast.Expr) and unparse(st.value).replace(' ', '') == 'self.validate_units()':
            steps.append('.validate'); continue
        raise ExtractError(f'TimePar.__init__: unsupported statement `{unparse(st)[:90]}`')
    return steps


def extract_validate(src):
    """ fields mapped strictly: try: self.f = unit_mapping[self.f]  except KeyError: ... raise ValueError """
    fn = src.func(REL, 'validate_units', 'TimePar')
    out = []
    for st in fn.body:
        if _doc(st) or (isinstance(st, ast.Return) and st.value is None): continue
        ok = False
        if isinstance(st, ast.Try) and len(st.body) == 1 and len(st.handlers) == 1 and not st.orelse and not st.finalbody:
            a = st.body[0]; h = st.handlers[0]
            f = _self_attr(a.targets[0]) if isinstance(a, ast.Assign) and len(a.targets) == 1 else None
            if f in ('unit', 'parent_unit') and unparse(a.value).replace(' ', '') == f'unit_mapping[self.{f}]' \
                    and h.type is not None and unparse(h.type) == 'KeyError' \
                    and isinstance(h.body[-1], ast.Raise) and h.body[-1].exc is not None and unparse(h.body[-1].exc).startswith('ValueError') \
                    and all(isinstance(x, (ast.Assign, ast.Raise)) for x in h.body):
                out.append(FIELDS[f]); ok = True
        if not ok:
            raise ExtractError(f'TimePar.validate_units: unsupported statement `{unparse(st)[:90]}`')
    return out


def _uval(n):
    if isinstance(n, ast.Constant) and n.value is None: return 'none'
    if isinstance(n, ast.Constant) and isinstance(n.value, str): return f'some {lean_str(n.value)}'
    if isinstance(n, ast.Name): return f'some {lean_str("<fn:" + n.id + ">")}'
    raise ExtractError(f'unit_mapping_reverse: unsupported entry `{unparse(n)}`')


def extract_tables(src):
    tree = src.tree(REL)
    rev = fwd = tu = None
    for st in tree.body:
        if isinstance(st, ast.Assign) and len(st.targets) == 1 and isinstance(st.targets[0], ast.Name):
            if st.targets[0].id == 'unit_mapping_reverse': rev = st.value
            if st.targets[0].id == 'unit_mapping': fwd = st.value
            if st.targets[0].id == 'time_units': tu = st.value
    if not isinstance(rev, ast.Dict): raise ExtractError('unit_mapping_reverse is not a dict literal')
    table = []
    for k, v in zip(rev.keys, rev.values):
        if not isinstance(v, ast.List): raise ExtractError('unit_mapping_reverse: a value is not a list literal')
        table.append((_uval(k), [_uval(x) for x in v.elts]))
    want = '{v:kfork,vlistinunit_mapping_reverse.items()forvinvlist}'
    if fwd is None or unparse(fwd).replace(' ', '').replace('(', '').replace(')', '') != want.replace('(', '').replace(')', ''):
        raise ExtractError(f'unit_mapping is not the inversion of unit_mapping_reverse: `{unparse(fwd)[:90] if fwd is not None else None}`')
    if not (isinstance(tu, ast.Call) and unparse(tu.func) in ('sc.objdict', 'dict', 'sc.odict') and not tu.args):
        raise ExtractError('time_units is not sc.objdict(name=length, ...)')
    units = [k.arg for k in tu.keywords]
    return table, units


def extract_timepar_calls(src):
    fn = src.func('starsim/parameters.py', '_update_timepar', 'Pars')
    args = [a.arg for a in fn.args.args]
    old, new = args[2], args[3]
    calls = [unparse(n).replace(' ', '') for n in ast.walk(fn) if isinstance(n, ast.Call) and unparse(n.func) == f'{old}.set']
    for c in calls:
        if c not in (f'{old}.set({new})', f'{old}.set(*{new})', f'{old}.set(**{new})'):
            raise ExtractError(f'Pars._update_timepar: unexpected call `{c}`')
    return dict(list_spread=f'{old}.set(*{new})' in calls, dict_spread=f'{old}.set(**{new})' in calls, number=f'{old}.set({new})' in calls)


@generator('ParsTimePar', ['starsim/time.py', 'starsim/parameters.py'])
def gen_timepar(src):
    set_steps = extract_set(src)
    init_steps = extract_init(src)
    validated = extract_validate(src)
    table, units = extract_tables(src)
    calls = extract_timepar_calls(src)
    rows = ',\n   '.join(f"({k}, [{', '.join(vs)}])" for k, vs in table)
    tf = lambda b: 'true' if b else 'false'
    body = f'''import StarsimModel.Model.ParsTimeCore
namespace StarsimModel.Gen
open StarsimModel.ParsTime

/-- `TimePar.set`: its statements in source order -/
def tpSetSteps : List SetStep := [{', '.join(set_steps)}]
/-- `TimePar.__init__`: its statements in source order -/
def tpCtorSteps : List SetStep := [{', '.join(init_steps)}]
/-- `TimePar.validate_units`: the fields mapped through `unit_mapping[...]` (KeyError -> ValueError), in order -/
def tpValidated : List Field := [{', '.join(validated)}]
/-- `unit_mapping_reverse` (canonical unit, the names that spell it); `unit_mapping` is its inversion -/
def unitTable : List (Option String × List (Option String)) :=
  [{rows}]
/-- keys of `time_units` -/
def timeUnitNames : List String := [{', '.join(lean_str(u) for u in units)}]
/-- `Pars._update_timepar`: a list is spread positionally, a dict by keyword, a number is the first argument -/
def tpListSpread : Bool := {tf(calls['list_spread'])}
def tpDictSpread : Bool := {tf(calls['dict_spread'])}
def tpNumberFirst : Bool := {tf(calls['number'])}
end StarsimModel.Gen
'''
    facts = dict(set_steps=set_steps, init_steps=init_steps, validated=validated, table=table, time_units=units, calls=calls)
    return body, facts
