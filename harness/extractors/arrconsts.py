"""
Extractor for Generated/ArrConsts.lean (C10, C11): the reallocation rule of `Arr.grow`, the active-view definitions
(`Arr.values`, `Arr.true`, `Arr.false`, `Arr.__len__`), the key converter's dispatch order, the `nan` defaults of the
array subclasses, and what `People.grow` / `People.remove_dead` / `People.step_die` / `People.update_results` touch.

Pure AST; fails closed (ExtractError) on any construct outside the supported subset.
"""
import ast
from harness.extract import generator, ExtractError, lean_str, unparse

REL = 'starsim/arrays.py'
PREL = 'starsim/people.py'

NAMES = {'n_new': 'nNew', 'self.len_tot': 'lenTot', 'orig_len': 'origLen', 'n_grow': 'nGrow', 'self.len_used': 'lenUsed'}


def nat_expr(node):
    """ Translate an integer expression over the names of Arr.grow into a Lean Nat expression (fails closed) """
    if isinstance(node, ast.Constant) and isinstance(node.value, int) and not isinstance(node.value, bool) and node.value >= 0:
        return str(node.value)
    if isinstance(node, (ast.Name, ast.Attribute)):
        s = unparse(node)
        if s in NAMES:
            return NAMES[s]
        raise ExtractError(f'Arr.grow: unknown name {s!r} in the growth rule')
    if isinstance(node, ast.BinOp):
        ops = {ast.Add: '+', ast.Mult: '*', ast.FloorDiv: '/', ast.Sub: '-'}
        for k, v in ops.items():
            if isinstance(node.op, k):
                return f'({nat_expr(node.left)} {v} {nat_expr(node.right)})'
        raise ExtractError(f'Arr.grow: unsupported operator in {unparse(node)!r}')
    if isinstance(node, ast.Call) and isinstance(node.func, ast.Name) and node.func.id in ('max', 'min') and len(node.args) == 2 and not node.keywords:
        return f'(Nat.{node.func.id} {nat_expr(node.args[0])} {nat_expr(node.args[1])})'
    raise ExtractError(f'Arr.grow: unsupported expression {unparse(node)!r}')


def bool_expr(node):
    if isinstance(node, ast.Compare) and len(node.ops) == 1:
        ops = {ast.Gt: '>', ast.Lt: '<', ast.GtE: '≥', ast.LtE: '≤', ast.Eq: '==', ast.NotEq: '!='}
        for k, v in ops.items():
            if isinstance(node.ops[0], k):
                return f'decide ({nat_expr(node.left)} {v} {nat_expr(node.comparators[0])})'
    raise ExtractError(f'Arr.grow: unsupported condition {unparse(node)!r}')


def single_return(fn, what):
    body = [s for s in fn.body if not (isinstance(s, ast.Expr) and isinstance(s.value, ast.Constant))]
    if len(body) != 1 or not isinstance(body[0], ast.Return):
        raise ExtractError(f'{what}: expected a single return statement, found {[unparse(s)[:60] for s in body]}')
    return unparse(body[0].value)


def nan_default(src, cls):
    init = src.func(REL, '__init__', cls)
    names = [a.arg for a in init.args.args]
    if 'nan' in names:
        i = names.index('nan') - (len(names) - len(init.args.defaults))
        if i < 0:
            raise ExtractError(f'{cls}.__init__: nan has no default')
        return unparse(init.args.defaults[i])
    # IndexArr passes nan=... to super().__init__
    for n in ast.walk(init):
        if isinstance(n, ast.Call) and unparse(n.func) == 'super().__init__':
            for k in n.keywords:
                if k.arg == 'nan':
                    return unparse(k.value)
    raise ExtractError(f'{cls}.__init__: nan default not found')


@generator('ArrConsts', [REL, PREL])
def gen(src):
    grow = src.func(REL, 'grow', 'Arr')
    # --- Arr.grow: the statement skeleton we model -------------------------------------------------
    realloc_if = None
    for st in grow.body:
        if isinstance(st, ast.If):
            if realloc_if is not None:
                raise ExtractError('Arr.grow: more than one top-level if')
            realloc_if = st
    if realloc_if is None or realloc_if.orelse:
        raise ExtractError('Arr.grow: reallocation `if` not found (or has an else branch)')
    cond = bool_expr(realloc_if.test)
    n_grow = None; nan_if = None
    for st in realloc_if.body:
        if isinstance(st, ast.Assign) and unparse(st.targets[0]) == 'n_grow':
            n_grow = nat_expr(st.value)
        if isinstance(st, ast.If):
            nan_if = st
    if n_grow is None:
        raise ExtractError('Arr.grow: n_grow = <expr> not found')
    if nan_if is None or nan_if.orelse:
        raise ExtractError('Arr.grow: nan-fill `if` not found')
    nan_cond = bool_expr(nan_if.test)
    nan_body = [unparse(s) for s in nan_if.body]
    if nan_body != ['nan_uids = np.arange(self.len_used, self.len_tot)', 'self.set_nan(nan_uids)']:
        raise ExtractError(f'Arr.grow: nan-fill body changed: {nan_body}')
    stmts = [unparse(s) for s in grow.body if not isinstance(s, (ast.If, ast.Expr)) or (isinstance(s, ast.Expr) and not isinstance(s.value, ast.Constant))]
    expect = ['orig_len = self.len_used', 'n_new = len(new_uids)', 'self.len_used += n_new',
              'self.set(new_uids, new_vals=new_vals)', 'return']
    if stmts != expect:
        raise ExtractError(f'Arr.grow: statement skeleton changed: {stmts}')
    inner = [unparse(s) for s in realloc_if.body if not isinstance(s, ast.If)]
    expect_inner = [None, 'new_empty = np.empty(n_grow, dtype=self.dtype)', 'self.raw = np.concatenate([self.raw, new_empty], axis=0)',
                    'self.len_tot = len(self.raw)']
    if len(inner) != 4 or inner[1:] != expect_inner[1:]:
        raise ExtractError(f'Arr.grow: reallocation body changed: {inner}')
    # --- the active views --------------------------------------------------------------------------
    views = dict(
        values=single_return(src.func(REL, 'values', 'Arr'), 'Arr.values'),
        true=single_return(src.func(REL, 'true', 'Arr'), 'Arr.true'),
        false=single_return(src.func(REL, 'false', 'Arr'), 'Arr.false'),
        len=single_return(src.func(REL, '__len__', 'Arr'), 'Arr.__len__'),
        booluids=single_return(src.func(REL, 'uids', 'BoolArr'), 'BoolArr.uids'),
        indexuids=single_return(src.func(REL, 'uids', 'IndexArr'), 'IndexArr.uids'),
    )
    # Which storage does each view read?  ('active' = goes through self.auids; 'storage' = a prefix/all of raw)
    def view_kind(expr):
        return 'active' if 'self.auids' in expr or expr in ('self.true()', 'self.values') else 'storage'
    kinds = {k: view_kind(v) for k, v in views.items()}
    # --- _convert_key dispatch (ordered isinstance chain) --------------------------------------------
    ck = src.func(REL, '_convert_key', 'Arr')
    chain = []
    node = [s for s in ck.body if isinstance(s, ast.If)]
    if len(node) != 1:
        raise ExtractError('Arr._convert_key: expected one if/elif chain')
    node = node[0]
    while True:
        body = [unparse(s) for s in node.body if not (isinstance(s, ast.Assign) and unparse(s.targets[0]) == 'errormsg')]
        chain.append((unparse(node.test), '; '.join(body)))
        if len(node.orelse) == 1 and isinstance(node.orelse[0], ast.If):
            node = node.orelse[0]
        else:
            els = [unparse(s) for s in node.orelse if not (isinstance(s, ast.Assign) and unparse(s.targets[0]) == 'errormsg')]
            chain.append(('else', '; '.join(els)))
            break
    getitem = [unparse(s) for s in src.func(REL, '__getitem__', 'Arr').body]
    setitem = [unparse(s) for s in src.func(REL, '__setitem__', 'Arr').body]
    # int keys: does the converter map an int through the active index?
    int_rows = [(t, b) for t, b in chain if 'int' in t.replace('ss_int', 'int').replace('.astype(int)', '') and 'isinstance' in t and 'ndarray' not in t]
    if not int_rows:
        raise ExtractError('Arr._convert_key: no branch handles int keys')
    int_via_active = 'auids' in int_rows[0][1]
    # --- nan defaults --------------------------------------------------------------------------------
    nans = dict(FloatArr=nan_default(src, 'FloatArr'), BoolArr=nan_default(src, 'BoolArr'), IndexArr=nan_default(src, 'IndexArr'))
    if nans['IndexArr'] != '-1':
        raise ExtractError(f"IndexArr nan changed: {nans['IndexArr']}")
    # --- People ---------------------------------------------------------------------------------------
    pg = src.func(PREL, 'grow', 'People')
    grown = []
    for n in ast.walk(pg):
        if isinstance(n, ast.Call) and isinstance(n.func, ast.Attribute) and n.func.attr == 'grow':
            grown.append(unparse(n.func.value))
    grown_core = [g for g in grown if g.startswith('self.')]
    loops = [unparse(n.iter) for n in ast.walk(pg) if isinstance(n, ast.For)]
    auids_update = [unparse(n.value) for n in ast.walk(pg) if isinstance(n, ast.Assign) and unparse(n.targets[0]) == 'self.auids']
    rd = src.func(PREL, 'remove_dead', 'People')
    rd_assign = [unparse(n.value) for n in ast.walk(rd) if isinstance(n, ast.Assign) and unparse(n.targets[0]) == 'self.auids']
    ur = src.func(PREL, 'update_results', 'People')
    ur_assign = {unparse(n.targets[0]): unparse(n.value) for n in ast.walk(ur) if isinstance(n, ast.Assign)}
    sd = src.func(PREL, 'step_die', 'People')
    sd_stmts = [unparse(s) for s in sd.body if isinstance(s, ast.Assign)]
    rq = [unparse(s) for s in src.func(PREL, 'request_death', 'People').body if isinstance(s, ast.Assign)]

    def b(x): return 'true' if x else 'false'
    rows = ',\n  '.join(f'({lean_str(t)}, {lean_str(bd)})' for t, bd in chain)
    body = f'''namespace StarsimModel.Gen
/-- `Arr.grow`: reallocate when `{unparse(realloc_if.test)}` -/
def needsRealloc (origLen nNew lenTot : Nat) : Bool := {cond}
/-- `Arr.grow`: `n_grow = {unparse([s for s in realloc_if.body if isinstance(s, ast.Assign)][0].value)}` -/
def growAmount (nNew lenTot : Nat) : Nat := {n_grow}
/-- `Arr.grow`: the tail beyond `len_used` is filled with `nan` when `{unparse(nan_if.test)}` -/
def nanFillTail (nGrow nNew : Nat) : Bool := {nan_cond}
/-- which storage the user-facing views read: `true` = through `self.auids` (active agents) -/
def valuesViaActive : Bool := {b(kinds['values'] == 'active')}
def trueViaActive : Bool := {b(kinds['true'] == 'active')}
def falseViaActive : Bool := {b(kinds['false'] == 'active')}
def lenViaActive : Bool := {b(kinds['len'] == 'active')}
def boolUidsViaActive : Bool := {b(kinds['booluids'] == 'active')}
def indexUidsViaActive : Bool := {b(kinds['indexuids'] == 'active')}
/-- `Arr._convert_key`: does an `int` key go through the active index?  (`false` today: it indexes storage) -/
def intKeyViaActive : Bool := {b(int_via_active)}
/-- `Arr._convert_key`: ordered (test, action) chain -/
def convertKeyChain : List (String × String) := [
  {rows}]
/-- `IndexArr` nan -/
def indexArrNan : Int := -1
/-- `People.grow`: core index arrays grown explicitly (besides the `_states` registry loop) -/
def peopleGrowCore : List String := [{', '.join(lean_str(g) for g in grown_core)}]
def peopleGrowLoops : List String := [{', '.join(lean_str(g) for g in loops)}]
end StarsimModel.Gen
'''
    facts = dict(realloc_if=unparse(realloc_if.test), n_grow=n_grow, nan_if=unparse(nan_if.test), views=views, view_kinds=kinds,
                 convert_key=[list(c) for c in chain], getitem=getitem, setitem=setitem, int_via_active=int_via_active, nans=nans,
                 people_grow=dict(core=grown_core, all=grown, loops=loops, auids=auids_update),
                 remove_dead=rd_assign, update_results=ur_assign, step_die=sd_stmts, request_death=rq)
    return body, facts
