"""
Extractor for Generated/ArrConsts.lean (C10, C11): the reallocation rule of `Arr.grow`, the active-view definitions
(`Arr.values`, `Arr.true`, `Arr.false`, `Arr.__len__`), the key converter's dispatch order, the `nan` defaults of the
array subclasses, and what `People.grow` / `People.remove_dead` / `People.step_die` / `People.update_results` touch.

Pure AST; fails closed (ExtractError) on any construct outside the supported subset.
"""
import ast
from harness.extract import generator, ExtractError, lean_str, unparse

REL = 'starsim/arrays.py'
PREL = 'starsim/people.py'

class Sym:
    """ Symbolic straight-line evaluation of Arr.grow over (origLen, nNew, lenTot): robust to renamed locals / reordering """
    def __init__(self):
        self.env = {'self.len_used': 'origLen', 'self.len_tot': 'lenTot'}

    def expr(self, node):
        if isinstance(node, ast.Constant) and isinstance(node.value, int) and not isinstance(node.value, bool) and node.value >= 0:
            return str(node.value)
        if isinstance(node, (ast.Name, ast.Attribute)):
            s = unparse(node)
            if s in self.env:
                return self.env[s]
            raise ExtractError(f'Arr.grow: name {s!r} has no symbolic value in the growth rule')
        if isinstance(node, ast.Call) and isinstance(node.func, ast.Name) and node.func.id == 'len' and len(node.args) == 1:
            a = unparse(node.args[0])
            if a == 'new_uids': return 'nNew'
            if a == 'self.raw': return self.env['self.len_tot']
            raise ExtractError(f'Arr.grow: len({a}) not understood')
        if isinstance(node, ast.BinOp):
            ops = {ast.Add: '+', ast.Mult: '*', ast.FloorDiv: '/', ast.Sub: '-'}
            for k, v in ops.items():
                if isinstance(node.op, k):
                    return f'({self.expr(node.left)} {v} {self.expr(node.right)})'
            raise ExtractError(f'Arr.grow: unsupported operator in {unparse(node)!r}')
        if isinstance(node, ast.Call) and isinstance(node.func, ast.Name) and node.func.id in ('max', 'min') and len(node.args) == 2 and not node.keywords:
            return f'(Nat.{node.func.id} {self.expr(node.args[0])} {self.expr(node.args[1])})'
        raise ExtractError(f'Arr.grow: unsupported expression {unparse(node)!r}')

    def cond(self, node):
        if isinstance(node, ast.Compare) and len(node.ops) == 1:
            ops = {ast.Gt: '>', ast.Lt: '<', ast.GtE: '≥', ast.LtE: '≤', ast.Eq: '=', ast.NotEq: '≠'}
            for k, v in ops.items():
                if isinstance(node.ops[0], k):
                    return f'decide ({self.expr(node.left)} {v} {self.expr(node.comparators[0])})'
        raise ExtractError(f'Arr.grow: unsupported condition {unparse(node)!r}')

    def assign(self, st):
        """ record `x = e` / `x += e` when e is an integer expression we understand; otherwise forget x """
        if isinstance(st, ast.Assign) and len(st.targets) == 1:
            t = unparse(st.targets[0])
            try: self.env[t] = self.expr(st.value)
            except ExtractError: self.env.pop(t, None)
        elif isinstance(st, ast.AugAssign) and isinstance(st.op, ast.Add):
            t = unparse(st.target)
            try: self.env[t] = f'({self.env[t]} + {self.expr(st.value)})'
            except (ExtractError, KeyError): self.env.pop(t, None)


def fn_src(fn):
    return ' '.join(unparse(s) for s in fn.body if not (isinstance(s, ast.Expr) and isinstance(s.value, ast.Constant)))


def nan_default(src, cls):
    init = src.func(REL, '__init__', cls)
    names = [a.arg for a in init.args.args]
    if 'nan' in names:
        i = names.index('nan') - (len(names) - len(init.args.defaults))
        if i < 0:
            raise ExtractError(f'{cls}.__init__: nan has no default')
        return unparse(init.args.defaults[i])
    # IndexArr passes nan=... to super().__init__
    for n in ast.walk(init):
        if isinstance(n, ast.Call) and unparse(n.func) == 'super().__init__':
            for k in n.keywords:
                if k.arg == 'nan':
                    return unparse(k.value)
    raise ExtractError(f'{cls}.__init__: nan default not found')


@generator('ArrConsts', [REL, PREL])
def gen(src):
    grow = src.func(REL, 'grow', 'Arr')
    # --- Arr.grow: symbolic evaluation of the straight-line integer bookkeeping ------------------------
    sym = Sym()
    realloc_if = None
    for st in grow.body:
        if isinstance(st, ast.If):
            if realloc_if is not None:
                raise ExtractError('Arr.grow: more than one top-level if')
            realloc_if = st
            break
        sym.assign(st)
    if realloc_if is None or realloc_if.orelse:
        raise ExtractError('Arr.grow: reallocation `if` not found (or has an else branch)')
    # the condition is evaluated after `self.len_used += n_new`: express it over the entry values
    cond_src = unparse(realloc_if.test)
    cond = sym.cond(realloc_if.test)
    used_after = sym.env.get('self.len_used')
    n_grow = None; nan_if = None; grow_var = None; concat_seen = False
    for st in realloc_if.body:
        if isinstance(st, ast.If):
            nan_if = st
            continue
        if isinstance(st, ast.Assign) and isinstance(st.value, ast.Call) and unparse(st.value.func) == 'np.empty':
            # new_empty = np.empty(<n_grow>, ...): the amount appended
            n_grow = sym.expr(st.value.args[0]); grow_var = unparse(st.value.args[0])
            continue
        if isinstance(st, ast.Assign) and unparse(st.targets[0]) == 'self.raw':
            concat_seen = 'np.concatenate' in unparse(st.value) and 'self.raw' in unparse(st.value)
            continue
        if isinstance(st, ast.Assign) and unparse(st.targets[0]) == 'self.len_tot':
            if unparse(st.value) != 'len(self.raw)':
                raise ExtractError(f'Arr.grow: self.len_tot = {unparse(st.value)} (expected len(self.raw))')
            continue
        sym.assign(st)
    if n_grow is None or not concat_seen:
        raise ExtractError('Arr.grow: `np.empty(n_grow)` appended to self.raw not found')
    if nan_if is None or nan_if.orelse:
        raise ExtractError('Arr.grow: nan-fill `if` not found')
    sym.env[grow_var] = 'nGrow'
    nan_cond = sym.cond(nan_if.test)
    nan_body = ' '.join(unparse(s) for s in nan_if.body)
    if 'set_nan' not in nan_body or 'self.len_used' not in nan_body or 'self.len_tot' not in nan_body:
        raise ExtractError(f'Arr.grow: nan-fill body does not nan-fill [len_used, len_tot): {nan_body}')
    if used_after != '(origLen + nNew)':
        raise ExtractError(f'Arr.grow: len_used after the bump is {used_after}, expected origLen + nNew')
    tail = ' '.join(unparse(s) for s in grow.body[grow.body.index(realloc_if) + 1:])
    if 'self.set(new_uids' not in tail:
        raise ExtractError('Arr.grow: the new values are not written by self.set(new_uids, ...) after the reallocation')
    # --- the active views --------------------------------------------------------------------------
    views = dict(
        values=fn_src(src.func(REL, 'values', 'Arr')),
        true=fn_src(src.func(REL, 'true', 'Arr')),
        false=fn_src(src.func(REL, 'false', 'Arr')),
        len=fn_src(src.func(REL, '__len__', 'Arr')),
        booluids=fn_src(src.func(REL, 'uids', 'BoolArr')),
        indexuids=fn_src(src.func(REL, 'uids', 'IndexArr')),
    )
    # Which storage does each view read?  ('active' = goes through self.auids, directly or via values/true())
    def view_kind(expr):
        return 'active' if any(t in expr for t in ('self.auids', 'self.true()', 'self.values')) else 'storage'
    kinds = {k: view_kind(v) for k, v in views.items()}
    # --- _convert_key dispatch: ordered chain classified into (key kinds, action) ---------------------
    ck = src.func(REL, '_convert_key', 'Arr')
    chain = []
    node = [s for s in ck.body if isinstance(s, ast.If)]
    if len(node) != 1:
        raise ExtractError('Arr._convert_key: expected one if/elif chain')
    node = node[0]

    def classify_test(t):
        if t == 'else': return ['else']
        kinds = []
        if 'isinstance' in t:
            inner = t[t.index('('):]
            for nm, k in (('uids', 'uids'), ('ss_int', 'int'), ('int', 'int'), ('BoolArr', 'boolarr'), ('IndexArr', 'indexarr'), ('slice', 'slice'), ('np.ndarray', 'ndarray')):
                import re
                if re.search(r'(?<![\w.])' + re.escape(nm) + r'(?![\w])', inner) and k not in kinds:
                    kinds.append(k)
            if 'reticulate' in t: kinds = [k + '-reticulate' for k in kinds]
        elif 'len(key) == 0' in t:
            kinds = ['empty']
        if not kinds:
            raise ExtractError(f'Arr._convert_key: cannot classify the test {t!r}')
        return sorted(kinds)

    def classify_action(b):
        if b == 'return key': return 'identity'
        if b == 'return key.uids': return 'key.uids'
        if b == 'return self.auids[key]': return 'auids[key]'
        if b == 'return uids()': return 'empty'
        if b == 'return key.astype(int)': return 'astype'
        if b.startswith('raise '): return 'raise'
        raise ExtractError(f'Arr._convert_key: cannot classify the action {b!r}')

    while True:
        body = [unparse(s) for s in node.body if not (isinstance(s, ast.Assign) and unparse(s.targets[0]) == 'errormsg')]
        chain.append((unparse(node.test), '; '.join(body)))
        if len(node.orelse) == 1 and isinstance(node.orelse[0], ast.If):
            node = node.orelse[0]
        else:
            els = [unparse(s) for s in node.orelse if not (isinstance(s, ast.Assign) and unparse(s.targets[0]) == 'errormsg')]
            chain.append(('else', '; '.join(els)))
            break
    table = [('+'.join(classify_test(t)), classify_action(b)) for t, b in chain]
    getitem = fn_src(src.func(REL, '__getitem__', 'Arr'))
    setitem = fn_src(src.func(REL, '__setitem__', 'Arr'))
    if '_convert_key' not in getitem or 'self.raw[' not in getitem or '_convert_key' not in setitem or 'self.raw[' not in setitem:
        raise ExtractError('Arr.__getitem__/__setitem__ no longer funnel through _convert_key into self.raw')
    int_rows = [(k, a) for k, a in table if 'int' in k.split('+')]
    if not int_rows:
        raise ExtractError('Arr._convert_key: no branch handles int keys')
    int_via_active = int_rows[0][1] == 'auids[key]'
    if int_via_active:
        # a repaired tree would treat ints in their own branch; the table below then lists it as auids[key]
        pass
    # --- nan defaults --------------------------------------------------------------------------------
    nans = dict(FloatArr=nan_default(src, 'FloatArr'), BoolArr=nan_default(src, 'BoolArr'), IndexArr=nan_default(src, 'IndexArr'))
    if nans['IndexArr'] != '-1':
        raise ExtractError(f"IndexArr nan changed: {nans['IndexArr']}")
    # --- People ---------------------------------------------------------------------------------------
    pg = src.func(PREL, 'grow', 'People')
    grown = []
    for n in ast.walk(pg):
        if isinstance(n, ast.Call) and isinstance(n.func, ast.Attribute) and n.func.attr == 'grow':
            grown.append(unparse(n.func.value))
    grown_core = [g for g in grown if g.startswith('self.')]
    loops = [unparse(n.iter) for n in ast.walk(pg) if isinstance(n, ast.For)]
    auids_update = [unparse(n.value) for n in ast.walk(pg) if isinstance(n, ast.Assign) and unparse(n.targets[0]) == 'self.auids']
    rd = src.func(PREL, 'remove_dead', 'People')
    rd_assign = [unparse(n.value) for n in ast.walk(rd) if isinstance(n, ast.Assign) and unparse(n.targets[0]) == 'self.auids']
    ur = src.func(PREL, 'update_results', 'People')
    ur_assign = {unparse(n.targets[0]): unparse(n.value) for n in ast.walk(ur) if isinstance(n, ast.Assign)}
    sd = src.func(PREL, 'step_die', 'People')
    sd_stmts = [unparse(s) for s in sd.body if isinstance(s, ast.Assign)]
    rq = [unparse(s) for s in src.func(PREL, 'request_death', 'People').body if isinstance(s, ast.Assign)]

    def b(x): return 'true' if x else 'false'
    rows = ',\n  '.join(f'({lean_str(t)}, {lean_str(bd)})' for t, bd in table)
    body = f'''namespace StarsimModel.Gen
/-- `Arr.grow`: reallocate when `{cond_src}` (evaluated symbolically over the values at entry) -/
def needsRealloc (origLen nNew lenTot : Nat) : Bool := {cond}
/-- `Arr.grow`: the number of cells appended -/
def growAmount (nNew lenTot : Nat) : Nat := {n_grow}
/-- `Arr.grow`: the tail beyond `len_used` is filled with `nan` when `{unparse(nan_if.test)}` -/
def nanFillTail (nGrow nNew : Nat) : Bool := {nan_cond}
/-- which storage the user-facing views read: `true` = through `self.auids` (active agents) -/
def valuesViaActive : Bool := {b(kinds['values'] == 'active')}
def trueViaActive : Bool := {b(kinds['true'] == 'active')}
def falseViaActive : Bool := {b(kinds['false'] == 'active')}
def lenViaActive : Bool := {b(kinds['len'] == 'active')}
def boolUidsViaActive : Bool := {b(kinds['booluids'] == 'active')}
def indexUidsViaActive : Bool := {b(kinds['indexuids'] == 'active')}
/-- `Arr._convert_key`: does an `int` key go through the active index?  (`false` today: it indexes storage) -/
def intKeyViaActive : Bool := {b(int_via_active)}
/-- `Arr._convert_key`: ordered (key kinds tested, action) chain -/
def convertKeyChain : List (String × String) := [
  {rows}]
/-- `IndexArr` nan -/
def indexArrNan : Int := -1
/-- `People.grow`: core index arrays grown explicitly (besides the `_states` registry loop) -/
def peopleGrowCore : List String := [{', '.join(lean_str(g) for g in grown_core)}]
def peopleGrowLoops : List String := [{', '.join(lean_str(g) for g in loops)}]
end StarsimModel.Gen
'''
    facts = dict(realloc_if=unparse(realloc_if.test), n_grow=n_grow, nan_if=unparse(nan_if.test), views=views, view_kinds=kinds,
                 convert_key=[list(c) for c in chain], convert_key_table=[list(c) for c in table], getitem=getitem, setitem=setitem, int_via_active=int_via_active, nans=nans,
                 people_grow=dict(core=grown_core, all=grown, loops=loops, auids=auids_update),
                 remove_dead=rd_assign, update_results=ur_assign, step_die=sd_stmts, request_death=rq)
    return body, facts
