"""
C17 (round 3) -> Generated/ParsRefs.lean

Two families of facts that the dispatch table of `Pars.update` does not see:

(1) NAME-KEYED parameters resolved against the rest of the sim at init time: `Infection.validate_beta` turns `pars.beta`
    (scalar | dict keyed by network name) into the map `infect()` reads.  Extracted: which directions of the key comparison
    raise (a network without an entry / an entry naming no network), that both sides go through `ss.standardize_netkey`,
    what `standardize_netkey` does, that an unsupported type raises, that `init_pre` runs the validation and `infect`
    reads the map by standardized network key.
(2) OWNERSHIP of caller-supplied dicts: for every function that receives a user dict (`make_dist`, `Module.update_pars`,
    `Time.update`, `Pars.update`, `Pars._update_dist`, `Pars._update_timepar`), can the caller's object be mutated in place
    (pop / del / item assignment / update / clear / setdefault / popitem) before the name is UNCONDITIONALLY rebound to a
    fresh copy?  -> `Gen.argMutated`.

Pure `ast`; unknown shapes of a raising guard in the checked region -> ExtractError (fail closed).
"""
import ast
from harness.extract import generator, ExtractError, lean_str, unparse


def lb(b): return 'true' if b else 'false'


# ---------------------------------------------------------------------------
# (2) ownership of caller-supplied dicts

MUTATORS = {'pop', 'popitem', 'clear', 'update', 'setdefault', '__setitem__', '__delitem__', 'dict_update'}
FRESH_CALLS = {'sc.mergedicts', 'sc.dcp', 'sc.cp', 'dict', 'sc.objdict', 'sc.odict', 'copy.deepcopy', 'copy.copy', 'sc.mergedicts_copy'}

OWNERSHIP_TABLE = [
    # (file, class, function, parameter)
    ('starsim/distributions.py', None, 'make_dist', 'pars'),
    ('starsim/modules.py', 'Module', 'update_pars', 'pars'),
    ('starsim/time.py', 'Time', 'update', 'pars'),
    ('starsim/parameters.py', 'Pars', 'update', 'pars'),
    ('starsim/parameters.py', 'Pars', '_update_dist', 'new'),
    ('starsim/parameters.py', 'Pars', '_update_timepar', 'new'),
]


def is_fresh(expr, names):
    """ an expression that certainly yields a new container (shallow copy is enough for key-level ownership) """
    if isinstance(expr, ast.Call):
        f = unparse(expr.func)
        if f in FRESH_CALLS:
            return True
        if isinstance(expr.func, ast.Attribute) and expr.func.attr in ('copy', 'deepcopy') and isinstance(expr.func.value, ast.Name):
            return True
    if isinstance(expr, (ast.Dict, ast.DictComp)):
        return True
    if isinstance(expr, ast.BinOp) and isinstance(expr.op, ast.BitOr):      # a | b builds a new dict
        return True
    if isinstance(expr, ast.Name) and expr.id in names.get('__fresh__', ()):
        return True
    return False


def mutations_in(node, names):
    """ in-place mutations of any of `names` inside `node` -> list of source snippets """
    out = []
    for n in ast.walk(node):
        if isinstance(n, ast.Call) and isinstance(n.func, ast.Attribute) and n.func.attr in MUTATORS \
                and isinstance(n.func.value, ast.Name) and n.func.value.id in names:
            out.append(unparse(n)[:60])
        if isinstance(n, (ast.Assign, ast.AugAssign, ast.AnnAssign)):
            tgts = n.targets if isinstance(n, ast.Assign) else [n.target]
            for t in tgts:
                for s in ast.walk(t):
                    if isinstance(s, ast.Subscript) and isinstance(s.value, ast.Name) and s.value.id in names:
                        out.append(unparse(n)[:60])
        if isinstance(n, ast.Delete):
            for t in n.targets:
                if isinstance(t, ast.Subscript) and isinstance(t.value, ast.Name) and t.value.id in names:
                    out.append(unparse(n)[:60])
    return out


def arg_mutated(fn, par):
    """ walk the top-level statements in order; `names` = the parameter and its plain aliases while they still denote
        the caller's object.  A rebind inside a branch does not end the caller's ownership (it may not be taken). """
    allargs = [a.arg for a in fn.args.args + fn.args.kwonlyargs]
    if par not in allargs:
        raise ExtractError(f'{fn.name}: parameter {par!r} not found (has {allargs})')
    names = {par}
    fresh = set()           # locals known to hold a fresh container
    found = []
    for st in fn.body:
        if not names:
            break
        if isinstance(st, ast.Assign) and len(st.targets) == 1 and isinstance(st.targets[0], ast.Name):
            tgt = st.targets[0].id
            # mutations inside the right-hand side happen before the rebind
            found += mutations_in(st.value, names)
            if tgt not in names:
                if is_fresh(st.value, {'__fresh__': fresh}): fresh.add(tgt)
                else: fresh.discard(tgt)
            if tgt in names:
                if is_fresh(st.value, {'__fresh__': fresh}):
                    names.discard(tgt)
                elif not (isinstance(st.value, ast.Name) and st.value.id in names):
                    # rebound to something unknown (e.g. a helper's return value): may still be the caller's object
                    pass
                continue
            if isinstance(st.value, ast.Name) and st.value.id in names:
                names.add(tgt)            # plain alias of the caller's object
            continue
        found += mutations_in(st, names)
    return found


def extract_ownership(src):
    rows = []
    for rel, cls, fname, par in OWNERSHIP_TABLE:
        fn = src.func(rel, fname, cls)
        muts = arg_mutated(fn, par)
        rows.append(((cls + '.' if cls else '') + fname, par, muts))
    return rows


# ---------------------------------------------------------------------------
# (1) validate_beta

def _strip_keys(e):
    """ X.keys() -> X ; list(X) -> X ; set(X) -> X """
    while True:
        if isinstance(e, ast.Call) and isinstance(e.func, ast.Attribute) and e.func.attr == 'keys' and not e.args:
            e = e.func.value; continue
        if isinstance(e, ast.Call) and isinstance(e.func, ast.Name) and e.func.id in ('list', 'set', 'sorted', 'tuple', 'frozenset') and len(e.args) == 1:
            e = e.args[0]; continue
        return e


def _side(e, mapname, netname):
    e = _strip_keys(e)
    if isinstance(e, ast.Name):
        if e.id == mapname: return 'map'
        if e.id == netname: return 'nets'
    return None


def _is_set_call(e):
    return isinstance(e, ast.Call) and isinstance(e.func, ast.Name) and e.func.id in ('set', 'frozenset', 'sorted') and len(e.args) == 1


def _filter_comp(e, mapname, netname):
    """ [k for k in B if k not in A]  /  (k not in A for k in B)  ->  ('B-side', 'A-side') = elements of B required in A """
    if isinstance(e, (ast.ListComp, ast.GeneratorExp, ast.SetComp)) and len(e.generators) == 1:
        g = e.generators[0]
        if not isinstance(g.target, ast.Name): return None
        var = g.target.id
        conds = list(g.ifs)
        body = e.elt
        cmp_ = None
        if len(conds) == 1 and isinstance(body, ast.Name) and body.id == var:
            cmp_ = conds[0]
        elif not conds:
            cmp_ = body
        if isinstance(cmp_, ast.Compare) and len(cmp_.ops) == 1 and isinstance(cmp_.left, ast.Name) and cmp_.left.id == var:
            b = _side(g.iter, mapname, netname); a = _side(cmp_.comparators[0], mapname, netname)
            if a and b and a != b:
                if isinstance(cmp_.ops[0], ast.NotIn): return ('notin', b, a)
                if isinstance(cmp_.ops[0], ast.In): return ('in', b, a)
    return None


def guard_directions(test, env, mapname, netname):
    """ which violations make `test` true?  -> set of {'missing', 'extra'} or None if the test is not about the keys """
    def req(b, a):   # every element of side b must be in side a, else raise
        return {'missing'} if (b, a) == ('nets', 'map') else {'extra'}
    t = test
    if isinstance(t, ast.Name) and t.id in env:
        return guard_directions(env[t.id], env, mapname, netname)
    # len(X) / len(X) > 0 / X
    if isinstance(t, ast.Call) and isinstance(t.func, ast.Name) and t.func.id == 'len' and len(t.args) == 1:
        return guard_directions(t.args[0], env, mapname, netname)
    if isinstance(t, ast.Compare) and len(t.ops) == 1 and isinstance(t.ops[0], (ast.Gt, ast.NotEq)) \
            and isinstance(t.comparators[0], ast.Constant) and t.comparators[0].value == 0:
        return guard_directions(t.left, env, mapname, netname)
    # set(A) != set(B)
    if isinstance(t, ast.Compare) and len(t.ops) == 1 and isinstance(t.ops[0], ast.NotEq) and _is_set_call(t.left) and _is_set_call(t.comparators[0]):
        a, b = _side(t.left, mapname, netname), _side(t.comparators[0], mapname, netname)
        if a and b and a != b: return {'missing', 'extra'}
    # not (set(A) == set(B))
    if isinstance(t, ast.UnaryOp) and isinstance(t.op, ast.Not):
        inner = t.operand
        if isinstance(inner, ast.Compare) and len(inner.ops) == 1 and isinstance(inner.ops[0], ast.Eq) and _is_set_call(inner.left) and _is_set_call(inner.comparators[0]):
            a, b = _side(inner.left, mapname, netname), _side(inner.comparators[0], mapname, netname)
            if a and b and a != b: return {'missing', 'extra'}
        # not all(k in A for k in B)
        if isinstance(inner, ast.Call) and isinstance(inner.func, ast.Name) and inner.func.id == 'all' and len(inner.args) == 1:
            fc = _filter_comp(inner.args[0], mapname, netname)
            if fc and fc[0] == 'in': return req(fc[1], fc[2])
        # not set(B).issubset(A) / not set(B) <= set(A)
        if isinstance(inner, ast.Call) and isinstance(inner.func, ast.Attribute) and inner.func.attr == 'issubset' and len(inner.args) == 1:
            b, a = _side(inner.func.value, mapname, netname), _side(inner.args[0], mapname, netname)
            if a and b and a != b: return req(b, a)
        if isinstance(inner, ast.Compare) and len(inner.ops) == 1 and isinstance(inner.ops[0], ast.LtE):
            b, a = _side(inner.left, mapname, netname), _side(inner.comparators[0], mapname, netname)
            if a and b and a != b: return req(b, a)
    # any(k not in A for k in B)
    if isinstance(t, ast.Call) and isinstance(t.func, ast.Name) and t.func.id == 'any' and len(t.args) == 1:
        fc = _filter_comp(t.args[0], mapname, netname)
        if fc and fc[0] == 'notin': return req(fc[1], fc[2])
    # [k for k in B if k not in A]
    fc = _filter_comp(t, mapname, netname)
    if fc and fc[0] == 'notin': return req(fc[1], fc[2])
    # set(B) - set(A)
    if isinstance(t, ast.BinOp) and isinstance(t.op, ast.Sub):
        b, a = _side(t.left, mapname, netname), _side(t.right, mapname, netname)
        if a and b and a != b: return req(b, a)
    # a or b
    if isinstance(t, ast.BoolOp) and isinstance(t.op, ast.Or):
        parts = [guard_directions(v, env, mapname, netname) for v in t.values]
        if all(p is not None for p in parts): return set().union(*parts)
    return None


def mentions(node, names):
    return any(isinstance(n, ast.Name) and n.id in names for n in ast.walk(node))


def has_raise(stmts):
    return any(isinstance(n, ast.Raise) for st in stmts for n in ast.walk(st))


def extract_validate_beta(src):
    rel = 'starsim/disease.py'
    fn = src.func(rel, 'validate_beta', 'Infection')
    body = fn.body
    # the returned map
    rets = [st for st in body if isinstance(st, ast.Return)]
    if len(rets) != 1 or not isinstance(rets[0].value, ast.Name) or body[-1] is not rets[0]:
        raise ExtractError('validate_beta: expected a single final `return <map name>`')
    mapname = rets[0].value.id
    # the statement that builds the map: the LAST top-level if-chain assigning the map name
    def assigns_map(st):
        for n in ast.walk(st):
            if isinstance(n, ast.Assign):
                for t in n.targets:
                    if (isinstance(t, ast.Name) and t.id == mapname) or (isinstance(t, ast.Subscript) and isinstance(t.value, ast.Name) and t.value.id == mapname):
                        return True
        return False
    idx = [i for i, st in enumerate(body) if isinstance(st, ast.If) and assigns_map(st)]
    if not idx:
        raise ExtractError('validate_beta: no if-chain building the map found')
    build = body[idx[-1]]
    tail = body[idx[-1] + 1:-1]
    # --- the build chain: scalar -> every network; dict -> per supplied key (standardized); else raise
    branches = []
    cur = build
    while True:
        branches.append((cur.test, cur.body))
        if len(cur.orelse) == 1 and isinstance(cur.orelse[0], ast.If):
            cur = cur.orelse[0]
        else:
            final_else = cur.orelse
            break
    bad_type = None
    for n in ast.walk(ast.Module(body=final_else, type_ignores=[])):
        if isinstance(n, ast.Raise) and n.exc is not None:
            bad_type = unparse(n.exc.func if isinstance(n.exc, ast.Call) else n.exc)
    if bad_type is None:
        raise ExtractError('validate_beta: a beta that is neither scalar nor dict is not rejected (else branch without raise)')
    scalar_all_nets = False; dict_std = False; dict_keeps_entries = False
    for test, stmts in branches:
        txt = ' '.join(unparse(s) for s in stmts)
        if 'isinstance' in unparse(test) and 'dict' in unparse(test):
            # for k, v in β.items(): nkey = ss.standardize_netkey(k); map[nkey] = [v, v] | v
            loops = [s for s in stmts if isinstance(s, ast.For)]
            if len(loops) != 1 or not unparse(loops[0].iter).endswith('.items()'):
                raise ExtractError('validate_beta: dict branch is not a single loop over .items()')
            lp = loops[0]
            if not (isinstance(lp.target, ast.Tuple) and len(lp.target.elts) == 2 and all(isinstance(e, ast.Name) for e in lp.target.elts)):
                raise ExtractError('validate_beta: dict loop target')
            kvar, vvar = lp.target.elts[0].id, lp.target.elts[1].id
            std_names = set()
            stores = []
            for n in ast.walk(lp):
                if isinstance(n, ast.Assign) and len(n.targets) == 1:
                    t = n.targets[0]
                    if isinstance(t, ast.Name) and 'standardize_netkey' in unparse(n.value) and mentions(n.value, {kvar}):
                        std_names.add(t.id)
                    if isinstance(t, ast.Subscript) and isinstance(t.value, ast.Name) and t.value.id == mapname:
                        stores.append((t.slice, n.value))
            if not stores:
                raise ExtractError('validate_beta: dict loop never stores into the map')
            dict_std = all((isinstance(k, ast.Name) and k.id in std_names) or ('standardize_netkey' in unparse(k) and mentions(k, {kvar})) for k, _ in stores)
            dict_keeps_entries = all(mentions(v, {vvar}) for _, v in stores)
            if any(isinstance(n, (ast.Continue, ast.Break)) for n in ast.walk(lp)):
                raise ExtractError('validate_beta: dict loop skips entries (continue/break)')
        else:
            # scalar: {std(k): [β, β] for k in sim.networks.keys()}
            if 'networks' in txt and 'standardize_netkey' in txt and mapname in txt:
                scalar_all_nets = True
    # --- the tail: helper assignments, raising guards about the keys, nothing else
    env = {}
    netname = None
    missing = extra = False
    for st in tail:
        if isinstance(st, ast.Assign) and len(st.targets) == 1 and isinstance(st.targets[0], ast.Name):
            nm = st.targets[0].id
            v = st.value
            if 'networks' in unparse(v) and not mentions(v, {mapname}):
                if 'standardize_netkey' not in unparse(v):
                    raise ExtractError('validate_beta: network keys are not standardized before the comparison')
                netname = nm
            else:
                env[nm] = v
            continue
        if isinstance(st, ast.If):
            if not has_raise(st.body):
                if mentions(st, {mapname}) and any(isinstance(n, (ast.Assign, ast.Delete, ast.Call)) and mentions(n, {mapname}) for n in ast.walk(st)):
                    raise ExtractError(f'validate_beta: statement after the map is built touches the map: {unparse(st)[:60]}')
                continue
            if st.orelse:
                raise ExtractError('validate_beta: raising guard with an else branch')
            if netname is None:
                raise ExtractError('validate_beta: raising guard before the network keys are computed')
            d = guard_directions(st.test, env, mapname, netname)
            if d is None:
                raise ExtractError(f'validate_beta: unrecognised raising guard `{unparse(st.test)[:80]}`')
            missing |= 'missing' in d; extra |= 'extra' in d
            continue
        if isinstance(st, ast.Expr) and isinstance(st.value, ast.Constant):
            continue
        # anything else that touches the map (pop / del / filter) would silently drop entries
        raise ExtractError(f'validate_beta: unsupported statement after the map is built: {unparse(st)[:60]}')
    # --- init_pre runs it; infect reads map[std(network key)]
    ip = src.func(rel, 'init_pre', 'Infection')
    init_validates = any(isinstance(n, ast.Call) and unparse(n.func) == 'self.validate_beta' for n in ast.walk(ip))
    inf = src.func(rel, 'infect', 'Infection')
    inf_txt = unparse(inf)
    infect_reads_std = 'self.validate_beta()' in inf_txt and 'standardize_netkey' in inf_txt
    # --- standardize_netkey
    sk = src.func('starsim/utils.py', 'standardize_netkey')
    rets = [n for n in ast.walk(sk) if isinstance(n, ast.Return)]
    if len(rets) != 1:
        raise ExtractError('standardize_netkey: expected one return')
    e = rets[0].value
    lower = False; suffix = ''
    arg = sk.args.args[0].arg
    while not (isinstance(e, ast.Name) and e.id == arg):
        if isinstance(e, ast.Call) and isinstance(e.func, ast.Attribute) and e.func.attr == 'lower' and not e.args:
            lower = True; e = e.func.value
        elif isinstance(e, ast.Call) and isinstance(e.func, ast.Attribute) and e.func.attr == 'removesuffix' and len(e.args) == 1 \
                and isinstance(e.args[0], ast.Constant) and isinstance(e.args[0].value, str) and not suffix:
            if lower:
                raise ExtractError('standardize_netkey: suffix removed before lower-casing (order changed)')
            suffix = e.args[0].value; e = e.func.value
        else:
            raise ExtractError(f'standardize_netkey: unsupported expression {unparse(rets[0].value)}')
    return dict(missing=missing, extra=extra, dict_std=dict_std, dict_keeps=dict_keeps_entries, scalar_all=scalar_all_nets,
                bad_type=bad_type, init_validates=init_validates, infect_reads_std=infect_reads_std, lower=lower, suffix=suffix)


def err_of(name):
    return {'TypeError': '.type', 'ValueError': '.value', 'sc.KeyNotFoundError': '.keyNotFound'}.get(name, '.other')


@generator('ParsRefs', ['starsim/disease.py', 'starsim/utils.py', 'starsim/distributions.py', 'starsim/modules.py', 'starsim/time.py', 'starsim/parameters.py'])
def gen(src):
    b = extract_validate_beta(src)
    own = extract_ownership(src)
    rows = ', '.join(f'({lean_str(f)}, {lb(bool(m))})' for f, p, m in own)
    body = f'''import StarsimModel.Model.ParsCore
namespace StarsimModel.Gen
open StarsimModel.Pars

/-- `Infection.validate_beta`: a network of the sim without an entry in the beta map raises -/
def betaMissingRaises : Bool := {lb(b['missing'])}
/-- `Infection.validate_beta`: an entry of the beta map that names no network of the sim raises -/
def betaExtraRaises : Bool := {lb(b['extra'])}
/-- dict branch: every supplied key is stored under `ss.standardize_netkey(key)`, with the supplied entry -/
def betaDictStandardizes : Bool := {lb(b['dict_std'])}
def betaDictKeepsEntries : Bool := {lb(b['dict_keeps'])}
/-- scalar branch: the scalar is applied to every network of the sim -/
def betaScalarAllNetworks : Bool := {lb(b['scalar_all'])}
/-- a beta that is neither scalar nor dict -/
def betaBadType : Err := {err_of(b['bad_type'])}
/-- `Infection.init_pre` calls `validate_beta`; `infect` reads `validate_beta()[standardize_netkey(network key)]` -/
def betaValidatedAtInit : Bool := {lb(b['init_validates'])}
def betaInfectReadsStd : Bool := {lb(b['infect_reads_std'])}
/-- `ss.standardize_netkey(key)` = key.lower().removesuffix(<suffix>) -/
def netkeyLower : Bool := {lb(b['lower'])}
def netkeySuffix : String := {lean_str(b['suffix'])}

/-- (function, can the caller's dict be mutated in place before the name is rebound to a fresh copy?) -/
def argMutated : List (String × Bool) := [{rows}]
end StarsimModel.Gen
'''
    facts = dict(beta=b, ownership=[dict(func=f, par=p, mutations=m) for f, p, m in own])
    return body, facts


# ---------------------------------------------------------------------------
# round 4: SimPars.validate_demographics — the ORDER of the sim-level shortcut expansions and of the derived setting `use_aging`

def _is_self_attr(e, name):
    return isinstance(e, ast.Attribute) and isinstance(e.value, ast.Name) and e.value.id == 'self' and e.attr == name


def _appends(stmts, clsname, rate=None):
    """ does the block contain `self.demographics += ss.<clsname>(...)` (directly or via a local), with `<rate>=self.<rate>` if asked """
    env = {}
    for st in stmts:
        for n in ast.walk(st):
            if isinstance(n, ast.Assign) and len(n.targets) == 1 and isinstance(n.targets[0], ast.Name):
                env[n.targets[0].id] = n.value
    for st in stmts:
        for n in ast.walk(st):
            if isinstance(n, ast.AugAssign) and isinstance(n.op, ast.Add) and _is_self_attr(n.target, 'demographics'):
                v = env.get(n.value.id) if isinstance(n.value, ast.Name) else n.value
                if isinstance(v, ast.Call) and unparse(v.func) == f'ss.{clsname}':
                    if rate is None:
                        if not v.args and not v.keywords: return True
                    else:
                        if any(k.arg == rate and _is_self_attr(k.value, rate) for k in v.keywords) and len(v.keywords) == 1 and not v.args: return True
    return False


def extract_validate_demographics(src):
    rel = 'starsim/parameters.py'
    fn = src.func(rel, 'validate_demographics', 'SimPars')
    steps = []
    valid_name = None
    for st in fn.body:
        if isinstance(st, ast.Expr) and isinstance(st.value, ast.Constant): continue
        if isinstance(st, ast.Return) and st.value is None: continue
        txt = unparse(st)
        # valid = isinstance(self.demographics, ss.ndict) and not len(self.demographics)
        if isinstance(st, ast.Assign) and len(st.targets) == 1 and isinstance(st.targets[0], ast.Name):
            v = unparse(st.value).replace(' ', '')
            if v in ('isinstance(self.demographics,ss.ndict)and(notlen(self.demographics))', 'isinstance(self.demographics,ss.ndict)andnotlen(self.demographics)',
                     'isinstance(self.demographics,ss.ndict)andlen(self.demographics)==0'):
                valid_name = st.targets[0].id; steps.append('.computeValid'); continue
            raise ExtractError(f'validate_demographics: unsupported assignment `{txt[:70]}`')
        if isinstance(st, ast.If) and not st.orelse:
            t = unparse(st.test).replace(' ', '')
            if t in ('self.demographics==True', 'self.demographicsisTrue'):
                # demographics = autolist; += Births() if birth_rate is None; += Deaths() if death_rate is None
                resets = any(isinstance(n, ast.Assign) and any(_is_self_attr(x, 'demographics') for x in n.targets) for n in st.body)
                inner = [s for s in st.body if isinstance(s, ast.If)]
                okb = any(unparse(s.test).replace(' ', '') == 'self.birth_rateisNone' and _appends(s.body, 'Births') and not s.orelse for s in inner)
                okd = any(unparse(s.test).replace(' ', '') == 'self.death_rateisNone' and _appends(s.body, 'Deaths') and not s.orelse for s in inner)
                if not (resets and okb and okd and len(inner) == 2 and len(st.body) == 3):
                    raise ExtractError('validate_demographics: the `demographics=True` shortcut changed shape')
                steps.append('.trueShortcut'); continue
            for rate, cls, tag in (('birth_rate', 'Births', '.birthShortcut'), ('death_rate', 'Deaths', '.deathShortcut')):
                if t == f'self.{rate}isnotNone':
                    guards = [s for s in st.body if isinstance(s, ast.If)]
                    okg = (len(guards) == 1 and valid_name is not None and unparse(guards[0].test).replace(' ', '') == f'not{valid_name}'
                           and any(isinstance(n, ast.Raise) and 'ValueError' in unparse(n) for n in ast.walk(guards[0])) and not guards[0].orelse)
                    before_append = st.body.index(guards[0]) if guards else -1
                    if not okg or not _appends(st.body[before_append + 1:], cls, rate):
                        raise ExtractError(f'validate_demographics: the `{rate}` shortcut changed shape')
                    steps.append(tag); break
            else:
                if t == 'self.use_agingisNone':
                    if len(st.body) != 1 or not isinstance(st.body[0], ast.Assign) or not _is_self_attr(st.body[0].targets[0], 'use_aging'):
                        raise ExtractError('validate_demographics: the use_aging default changed shape')
                    v = unparse(st.body[0].value).replace(' ', '')
                    if v not in ('Trueifself.demographicselseFalse', 'bool(self.demographics)', 'len(self.demographics)>0', 'bool(len(self.demographics))'):
                        raise ExtractError(f'validate_demographics: use_aging is derived from `{v}`')
                    steps.append('.deriveAging')
                else:
                    raise ExtractError(f'validate_demographics: unsupported statement `{txt[:70]}`')
            continue
        raise ExtractError(f'validate_demographics: unsupported statement `{txt[:70]}`')
    # validate_modules: validate_demographics runs before the lists are converted
    vm = src.func(rel, 'validate_modules', 'SimPars')
    calls = [unparse(n.func) for st in vm.body for n in ast.walk(st) if isinstance(n, ast.Call)]
    order_ok = 'self.validate_demographics' in calls and 'self.convert_modules' in calls and calls.index('self.validate_demographics') < calls.index('self.convert_modules')
    # defaults of the shortcut parameters in SimPars.__init__
    init = src.func(rel, '__init__', 'SimPars')
    defaults = {}
    for n in ast.walk(init):
        if isinstance(n, ast.Assign) and len(n.targets) == 1 and isinstance(n.targets[0], ast.Attribute) and isinstance(n.targets[0].value, ast.Name) and n.targets[0].value.id == 'self':
            defaults[n.targets[0].attr] = unparse(n.value)
    for k in ('birth_rate', 'death_rate', 'use_aging'):
        if defaults.get(k) != 'None':
            raise ExtractError(f'SimPars.__init__: default of {k} is {defaults.get(k)!r}, expected None')
    return dict(steps=steps, before_convert=order_ok)


@generator('ParsSimLevel', ['starsim/parameters.py'])
def gen_simlevel(src):
    d = extract_validate_demographics(src)
    body = f'''import StarsimModel.Model.ParsSimCore
namespace StarsimModel.Gen
open StarsimModel.ParsSim

/-- `SimPars.validate_demographics`: its statements in source order -/
def demogSteps : List DStep := [{', '.join(d['steps'])}]
/-- `SimPars.validate_modules` calls `validate_demographics` before `convert_modules` -/
def demogBeforeConvert : Bool := {lb(d['before_convert'])}
end StarsimModel.Gen
'''
    return body, d
