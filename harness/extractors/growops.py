"""
Extractor for Generated/GrowOps.lean (C03): the statements of `People.grow` that matter for common random numbers, in source
order, in the vocabulary of Model/Grow.lean — when the new agents' slots are written and when the state defaults
(possibly random draws keyed by slot) are made.

Pure AST.  Every top-level statement of `grow` that mentions `slot`, `_states`, `states` or calls `.grow(` must be one
of the recognised forms; anything else fails closed (ExtractError).  Statements that touch none of these (argument checks,
the uid range, the early return for n == 0) are not part of the model.
"""
import ast
from harness.extract import generator, ExtractError, unparse

REL = 'starsim/people.py'


def classify(st, slot_default_names):
    """ -> GOp name, None (irrelevant), or raises """
    txt = unparse(st)
    # self.<arr>.grow(new_uids, new_vals=...)
    if isinstance(st, ast.Expr) and isinstance(st.value, ast.Call) and isinstance(st.value.func, ast.Attribute) and st.value.func.attr == 'grow':
        tgt = unparse(st.value.func.value)
        kw = {k.arg: unparse(k.value) for k in st.value.keywords}
        pos = [unparse(a) for a in st.value.args]
        nv = kw.get('new_vals', pos[1] if len(pos) > 1 else None)
        if tgt == 'self.uid': return 'uidGrow'
        if tgt == 'self.parent': return 'parentGrow'
        if tgt == 'self.slot':
            if nv in slot_default_names or nv is None: return 'slotGrowDefault'
            if nv == 'new_slots': return 'slotGrowGiven'
            raise ExtractError(f'People.grow: self.slot.grow with new_vals={nv!r} not understood')
        raise ExtractError(f'People.grow: unexpected array grown at top level: {txt!r}')
    # for state in self._states.values(): state.grow(new_uids)
    if isinstance(st, ast.For):
        it = unparse(st.iter)
        if '_states' in it or it.endswith('.states.values()') or it.endswith('.states()'):
            calls = [n for n in ast.walk(st) if isinstance(n, ast.Call) and isinstance(n.func, ast.Attribute) and n.func.attr == 'grow']
            if len(calls) == 1 and unparse(calls[0].func.value) == unparse(st.target):
                return 'statesGrow'
        raise ExtractError(f'People.grow: loop not understood: {txt[:80]!r}')
    # self.slot[new_uids] = new_slots
    if isinstance(st, ast.Assign) and len(st.targets) == 1 and isinstance(st.targets[0], ast.Subscript) and unparse(st.targets[0].value) == 'self.slot':
        if unparse(st.targets[0].slice) == 'new_uids' and unparse(st.value) == 'new_slots': return 'slotWrite'
        raise ExtractError(f'People.grow: write to self.slot not understood: {txt!r}')
    if isinstance(st, ast.Assign) and unparse(st.targets[0]) == 'self.auids': return 'auids'
    if any(w in txt for w in ('self.slot', '_states', '.grow(')):
        raise ExtractError(f'People.grow: statement touching slots / states not understood: {txt[:100]!r}')
    return None


@generator('GrowOps', [REL])
def gen_grow_ops(src):
    fn = src.func(REL, 'grow', 'People')
    ops = []; defaulted = False
    for st in fn.body:
        # new_slots = new_slots if new_slots is not None else new_uids
        if isinstance(st, ast.Assign) and unparse(st.targets[0]) == 'new_slots':
            v = st.value
            ok = isinstance(v, ast.IfExp) and unparse(v.body) == 'new_slots' and unparse(v.orelse) == 'new_uids' and 'new_slots' in unparse(v.test) and 'None' in unparse(v.test)
            if not ok: raise ExtractError(f'People.grow: defaulting of new_slots not understood: {unparse(st)!r}')
            defaulted = True; continue
        k = classify(st, {'new_uids'})
        if k: ops.append(k)
    if not defaulted:
        raise ExtractError('People.grow: `new_slots` is not defaulted to the new uids')
    body = f'''import StarsimModel.Model.Grow
namespace StarsimModel.Gen
open StarsimModel.Grow
/-- the statements of `People.grow` that grow / write slots and grow the states, in source order -/
def growOps : List GOp := [{", ".join("." + o for o in ops)}]
/-- slots asked for default to the new uids (`new_slots if new_slots is not None else new_uids`) -/
def growSlotsDefaultToUids : Bool := true
end StarsimModel.Gen
'''
    return body, dict(ops=ops)
