"""
Extractor for C18: facts of starsim/run.py  ->  lean/StarsimModel/Generated/RunFacts.lean

 * single_run: the reseeding statement (`sim.pars['rand_seed'] += ind` under `if reseed:`) as a Lean
   function of (seed, ind); default of `ind`/`reseed`; that the run is guarded by `do_run`.
 * multi_run: the default of `reseed` for a single Sim and for a list of sims; that member indices are
   `np.arange(n)` (0, 1, ...); that the serial path runs a copy.
 * MultiSim.reduce: which statistic is stored in `res[:]`, `res.low`, `res.high` in the mean and in the
   median branch (np.mean / np.std(ddof) / np.quantile(q) / np.median; local names are resolved through
   their assignments, so renaming a local variable does not change the facts); default bounds/quantiles.

Pure `ast`; anything outside the supported subset raises ExtractError (a broken tie).
"""
import ast, fractions
from harness.extract import generator, ExtractError, lean_rat, lit_rat, unparse

REL = 'starsim/run.py'


def _is_seed_target(node, simname='sim'):
    s = unparse(node).replace('"', "'")
    return s in (f"{simname}.pars['rand_seed']", f'{simname}.pars.rand_seed')


def _int_expr(node, seed_ok):
    """ Translate an integer expression over `ind` (and the current seed when seed_ok) into Lean (Int) """
    if isinstance(node, ast.Name) and node.id == 'ind':
        return 'ind'
    if seed_ok and _is_seed_target(node):
        return 'seed'
    if isinstance(node, ast.Constant) and isinstance(node.value, int) and not isinstance(node.value, bool):
        return f'({node.value} : Int)'
    if isinstance(node, ast.UnaryOp) and isinstance(node.op, ast.USub):
        return f'(-{_int_expr(node.operand, seed_ok)})'
    if isinstance(node, ast.Call) and unparse(node.func) == 'int' and len(node.args) == 1 and not node.keywords:
        return _int_expr(node.args[0], seed_ok)
    if isinstance(node, ast.BinOp) and isinstance(node.op, (ast.Add, ast.Sub, ast.Mult)):
        op = {ast.Add: '+', ast.Sub: '-', ast.Mult: '*'}[type(node.op)]
        return f'({_int_expr(node.left, seed_ok)} {op} {_int_expr(node.right, seed_ok)})'
    raise ExtractError(f'single_run: unsupported reseed expression {unparse(node)!r}')


def _default_of(fn, name):
    args = fn.args.args
    defaults = fn.args.defaults
    off = len(args) - len(defaults)
    for i, a in enumerate(args):
        if a.arg == name:
            if i < off:
                raise ExtractError(f'{fn.name}: parameter {name} has no default')
            return defaults[i - off]
    raise ExtractError(f'{fn.name}: parameter {name} not found')


def _const(node, what):
    if isinstance(node, ast.Constant):
        return node.value
    raise ExtractError(f'{what}: not a constant: {unparse(node)}')


def extract_single_run(src):
    fn = src.func(REL, 'single_run')
    ind_default = _const(_default_of(fn, 'ind'), 'single_run ind default')
    reseed_default = _const(_default_of(fn, 'reseed'), 'single_run reseed default')
    do_run_default = _const(_default_of(fn, 'do_run'), 'single_run do_run default')
    if ind_default != 0 or reseed_default is not True or do_run_default is not True:
        raise ExtractError(f'single_run defaults changed: ind={ind_default} reseed={reseed_default} do_run={do_run_default}')
    # every statement that writes the seed, with the guard it sits under
    writes = []

    def visit(stmts, guards):
        for st in stmts:
            if isinstance(st, ast.If):
                visit(st.body, guards + [unparse(st.test)])
                visit(st.orelse, guards + ['not (' + unparse(st.test) + ')'])
            elif isinstance(st, (ast.For, ast.While)):
                visit(st.body, guards + ['<loop ' + unparse(st.iter if isinstance(st, ast.For) else st.test) + '>'])
            elif isinstance(st, (ast.With, ast.Try)):
                visit(st.body, guards)
            elif isinstance(st, ast.AugAssign) and _is_seed_target(st.target):
                if not isinstance(st.op, (ast.Add, ast.Sub)):
                    raise ExtractError(f'single_run: unsupported seed update {unparse(st)}')
                op = '+' if isinstance(st.op, ast.Add) else '-'
                writes.append((guards, f'(seed {op} {_int_expr(st.value, False)})'))
            elif isinstance(st, ast.Assign) and any(_is_seed_target(t) for t in st.targets):
                writes.append((guards, _int_expr(st.value, True)))
    visit(fn.body, [])
    if len(writes) != 1:
        raise ExtractError(f'single_run: expected exactly one explicit write of rand_seed, found {len(writes)}')
    guards, expr = writes[0]
    if guards != ['reseed']:
        raise ExtractError(f'single_run: the seed update is guarded by {guards}, expected [reseed]')
    # the run itself under `if do_run:`
    run_guard = None
    for st in fn.body:
        if isinstance(st, ast.If):
            for inner in ast.walk(st):
                if isinstance(inner, ast.Call) and unparse(inner.func) == 'sim.run':
                    run_guard = unparse(st.test)
    if run_guard != 'do_run':
        raise ExtractError(f'single_run: sim.run() is guarded by {run_guard!r}, expected do_run')
    # order: the reseed precedes the sim_args loop, which precedes the run
    order = []
    for st in fn.body:
        s = unparse(st)
        if isinstance(st, ast.If) and unparse(st.test) == 'reseed': order.append('reseed')
        elif isinstance(st, ast.For) and 'sim_args' in unparse(st.iter): order.append('sim_args')
        elif isinstance(st, ast.If) and unparse(st.test) == 'do_run': order.append('run')
    if order != ['reseed', 'sim_args', 'run']:
        raise ExtractError(f'single_run: statement order changed: {order}')
    return expr


def _branch_facts(body, what):
    """ reseed default and the `ind` iterable of one branch of multi_run """
    reseed_default = None; ind_iter = None; has_sim_iter = False
    for st in body:
        if isinstance(st, ast.If) and unparse(st.test) == 'reseed is None':
            if len(st.body) == 1 and isinstance(st.body[0], ast.Assign) and unparse(st.body[0].targets[0]) == 'reseed':
                reseed_default = _const(st.body[0].value, f'multi_run {what} reseed default')
        if isinstance(st, ast.Assign) and unparse(st.targets[0]) == 'iterkwargs':
            call = st.value
            if not (isinstance(call, ast.Call) and unparse(call.func) == 'dict'):
                raise ExtractError(f'multi_run {what}: iterkwargs is not a dict(...) call')
            for kw in call.keywords:
                if kw.arg == 'ind': ind_iter = kw.value
                if kw.arg == 'sim': has_sim_iter = True
    if reseed_default not in (True, False):
        raise ExtractError(f'multi_run {what}: `if reseed is None: reseed = <bool>` not found')
    if ind_iter is None:
        raise ExtractError(f'multi_run {what}: iterkwargs has no ind=')
    if not (isinstance(ind_iter, ast.Call) and unparse(ind_iter.func) in ('np.arange', 'range') and len(ind_iter.args) == 1
            and not ind_iter.keywords):
        raise ExtractError(f'multi_run {what}: member indices are {unparse(ind_iter)!r}, expected np.arange(<n>)')
    return reseed_default, unparse(ind_iter.args[0]), has_sim_iter


def extract_multi_run(src):
    fn = src.func(REL, 'multi_run')
    single = lst = None
    for st in fn.body:
        if isinstance(st, ast.If) and unparse(st.test) == 'isinstance(sim, ss.Sim)':
            single = _branch_facts(st.body, 'single-sim branch')
            if len(st.orelse) == 1 and isinstance(st.orelse[0], ast.If) and unparse(st.orelse[0].test) == 'isinstance(sim, list)':
                lst = _branch_facts(st.orelse[0].body, 'list branch')
    if single is None or lst is None:
        raise ExtractError('multi_run: the Sim / list dispatch was not found')
    if single[1] != 'n_runs' or single[2]:
        raise ExtractError(f'multi_run single-sim branch: indices over {single[1]!r} (expected n_runs), sim iterated={single[2]}')
    if lst[1] != 'len(sim)' or not lst[2]:
        raise ExtractError(f'multi_run list branch: indices over {lst[1]!r} (expected len(sim)), sim iterated={lst[2]}')
    # serial path copies the member
    text = unparse(fn)
    serial_copies = "this_iter['sim'] = this_iter['sim'].copy()" in text or "this_iter['sim'] = sc.dcp(this_iter['sim'])" in text
    return single[0], lst[0], serial_copies


# --- reduce ----------------------------------------------------------------

def _kw(call, name, pos=None):
    for k in call.keywords:
        if k.arg == name: return k.value
    if pos is not None and len(call.args) > pos: return call.args[pos]
    return None


def _norm_stat(e, env, depth=0):
    """ Normal form of a statistic expression of MultiSim.reduce: nested tuples """
    if depth > 20:
        raise ExtractError('reduce: cyclic local definitions')
    if isinstance(e, ast.Name):
        if e.id in env: return _norm_stat(env[e.id], env, depth + 1)
        raise ExtractError(f'reduce: unresolved name {e.id}')
    if isinstance(e, ast.Call):
        f = unparse(e.func)
        if f in ('np.mean', 'np.std', 'np.quantile', 'np.median', 'np.nanmean', 'np.percentile', 'np.var', 'np.min', 'np.max',
                 'np.nanmedian', 'np.nanquantile', 'np.nanstd'):
            arr = e.args[0] if e.args else _kw(e, 'a')
            if arr is None or unparse(_resolve(arr, env)) != 'raw[rkey]':
                raise ExtractError(f'reduce: statistic over {unparse(arr) if arr is not None else None!r}, expected raw[rkey]')
            ax = _kw(e, 'axis', 2 if f in ('np.quantile', 'np.percentile') else 1)
            if ax is None or _const(ax, 'reduce axis') != 1:
                raise ExtractError(f'reduce: {f} not over axis=1 (the member axis)')
            if f == 'np.mean': return ('mean',)
            if f == 'np.median': return ('quantile', fractions.Fraction(1, 2))
            if f == 'np.std':
                dd = _kw(e, 'ddof')
                return ('std', 0 if dd is None else int(_const(dd, 'ddof')))
            if f == 'np.quantile':
                q = _kw(e, 'q', 1)
                if q is None: raise ExtractError('reduce: np.quantile without q')
                q = _resolve(q, env)
                if isinstance(q, ast.Constant): return ('quantile', lit_rat(q))
                qs = unparse(q).replace('"', "'")
                if qs == "quantiles['low']": return ('qlow',)
                if qs == "quantiles['high']": return ('qhigh',)
                raise ExtractError(f'reduce: unsupported quantile level {qs}')
            raise ExtractError(f'reduce: unsupported statistic {f}')
        raise ExtractError(f'reduce: unsupported call {f}')
    if isinstance(e, ast.BinOp) and isinstance(e.op, (ast.Add, ast.Sub)):
        a = _norm_stat(e.left, env, depth + 1)
        r = e.right
        if isinstance(r, ast.BinOp) and isinstance(r.op, ast.Mult):
            l2, r2 = _resolve(r.left, env), _resolve(r.right, env)
            if isinstance(l2, ast.Name) and l2.id == 'bounds': b = _norm_stat(r.right, env, depth + 1)
            elif isinstance(r2, ast.Name) and r2.id == 'bounds': b = _norm_stat(r.left, env, depth + 1)
            else: raise ExtractError(f'reduce: unsupported bound expression {unparse(e)}')
            return ('plusK' if isinstance(e.op, ast.Add) else 'minusK', a, b)
    raise ExtractError(f'reduce: unsupported statistic expression {unparse(e)}')


def _resolve(e, env, depth=0):
    while isinstance(e, ast.Name) and e.id in env and depth < 20:
        e = env[e.id]; depth += 1
    return e


def _stat_block(stmts, what):
    env = {}; out = {}
    for st in stmts:
        if isinstance(st, ast.Assign) and len(st.targets) == 1:
            t = st.targets[0]; ts = unparse(t)
            if isinstance(t, ast.Name):
                env[t.id] = st.value
            elif ts == 'res[:]':
                out['centre'] = _norm_stat(st.value, env)
            elif ts == 'res.low':
                out['low'] = _norm_stat(st.value, env)
            elif ts == 'res.high':
                out['high'] = _norm_stat(st.value, env)
            else:
                raise ExtractError(f'reduce {what}: unsupported assignment target {ts}')
        else:
            raise ExtractError(f'reduce {what}: unsupported statement {unparse(st)[:60]}')
    if set(out) != {'centre', 'low', 'high'}:
        raise ExtractError(f'reduce {what}: res[:], res.low, res.high not all assigned ({sorted(out)})')
    return out


def _lean_stat(t):
    k = t[0]
    if k == 'mean': return '.mean'
    if k == 'std': return f'(.std {t[1]})'
    if k == 'quantile': return f'(.quantile {lean_rat(t[1])})'
    if k == 'qlow': return '.qLow'
    if k == 'qhigh': return '.qHigh'
    if k == 'minusK': return f'(.minusK {_lean_stat(t[1])} {_lean_stat(t[2])})'
    if k == 'plusK': return f'(.plusK {_lean_stat(t[1])} {_lean_stat(t[2])})'
    raise ExtractError(f'unknown stat {t}')


def _show_stat(t):
    return t[0] + ('(' + ','.join(_show_stat(x) if isinstance(x, tuple) else str(x) for x in t[1:]) + ')' if len(t) > 1 else '')


def extract_reduce(src):
    fn = src.func(REL, 'reduce', 'MultiSim')
    mean_block = med_block = None
    bounds_default = None; qlow = qhigh = None
    for n in ast.walk(fn):
        if isinstance(n, ast.If) and unparse(n.test) == 'use_mean':
            texts = [unparse(s) for s in n.body]
            if any(t.startswith('res[:]') for t in texts):
                mean_block = _stat_block(n.body, 'mean branch')
                med_block = _stat_block(n.orelse, 'median branch')
            else:
                # the defaults block
                for inner in ast.walk(n):
                    if isinstance(inner, ast.Assign) and unparse(inner.targets[0]) == 'bounds' and isinstance(inner.value, ast.Constant):
                        bounds_default = lit_rat(inner.value)
                    if isinstance(inner, ast.Assign) and unparse(inner.targets[0]) == 'quantiles' and isinstance(inner.value, ast.Dict):
                        d = {_const(k, 'quantile key'): v for k, v in zip(inner.value.keys, inner.value.values)}
                        if 'low' in d and 'high' in d and isinstance(d['low'], ast.Constant):
                            qlow, qhigh = lit_rat(d['low']), lit_rat(d['high'])
    if mean_block is None or med_block is None:
        raise ExtractError('MultiSim.reduce: the use_mean statistics block was not found')
    if bounds_default is None or qlow is None:
        raise ExtractError('MultiSim.reduce: default bounds / quantiles not found')
    # the member matrix: raw[rkey][:, s] = flat[rkey] over enumerate(self.sims)
    text = unparse(fn)
    if 'raw[rkey][:, s] = flat[rkey]' not in text or 'for s, sim in enumerate(self.sims)' not in text:
        raise ExtractError('MultiSim.reduce: the member matrix raw[rkey][:, s] = flat[rkey] over enumerate(self.sims) was not found')
    return mean_block, med_block, bounds_default, qlow, qhigh


def extract_reduce_args(src):
    """ How `reduce` turns its `bounds` / `quantiles` arguments into the values used: Lean functions of the optional
        argument.  `x is None` tests give `none => default | some v => v`; truthiness forms (`x or d`, `if not x`) are
        translated faithfully (0 is falsy), so that the theorem "an explicit value is used as given" decides. """
    fn = src.func(REL, 'reduce', 'MultiSim')
    blk = None
    for st in fn.body:
        if isinstance(st, ast.If) and unparse(st.test) == 'use_mean' and not any(unparse(x).startswith('res[:]') for x in st.body):
            blk = st; break
    if blk is None:
        raise ExtractError('MultiSim.reduce: argument-handling block `if use_mean:` not found')

    def default_rule(stmts, name):
        """ returns (kind, default-node) for the statement(s) that default `name` """
        for st in stmts:
            if isinstance(st, ast.If) and not st.orelse and len(st.body) == 1 and isinstance(st.body[0], ast.Assign) \
                    and unparse(st.body[0].targets[0]) == name:
                t = unparse(st.test)
                if t == f'{name} is None': return 'none', st.body[0].value
                if t == f'not {name}': return 'falsy', st.body[0].value
                raise ExtractError(f'reduce: unsupported defaulting test for {name}: {t}')
            if isinstance(st, ast.Assign) and unparse(st.targets[0]) == name and isinstance(st.value, ast.BoolOp) \
                    and isinstance(st.value.op, ast.Or) and len(st.value.values) == 2 and unparse(st.value.values[0]) == name:
                return 'falsy', st.value.values[1]
            if isinstance(st, ast.Assign) and unparse(st.targets[0]) == name and isinstance(st.value, ast.IfExp):
                t = unparse(st.value.test)
                if t == f'{name} is None' and unparse(st.value.orelse) == name: return 'none', st.value.body
                if t == f'{name} is not None' and unparse(st.value.body) == name: return 'none', st.value.orelse
                raise ExtractError(f'reduce: unsupported conditional default for {name}: {unparse(st.value)}')
        raise ExtractError(f'reduce: no defaulting statement for {name} found')

    bkind, bdef = default_rule(blk.body, 'bounds')
    qkind, qdef = default_rule(blk.orelse, 'quantiles')
    bval = lit_rat(bdef)
    if not isinstance(qdef, ast.Dict):
        raise ExtractError('reduce: default quantiles is not a dict literal')
    d = {_const(k, 'quantile key'): lit_rat(v) for k, v in zip(qdef.keys, qdef.values)}
    if set(d) != {'low', 'high'}:
        raise ExtractError(f'reduce: default quantiles keys {sorted(d)}')
    # the non-dict conversion: quantiles = {'low': float(quantiles[0]), 'high': float(quantiles[1])}; nothing else may rewrite it
    conv = None; others = []
    for st in blk.orelse:
        if isinstance(st, ast.If) and unparse(st.test) == 'not isinstance(quantiles, dict)':
            for inner in ast.walk(st):
                if isinstance(inner, ast.Assign) and unparse(inner.targets[0]) == 'quantiles':
                    conv = unparse(inner.value).replace('"', "'")
        elif isinstance(st, ast.Assign) and unparse(st.targets[0]) == 'quantiles':
            others.append(unparse(st))
    if conv != "{'low': float(quantiles[0]), 'high': float(quantiles[1])}":
        raise ExtractError(f'reduce: list/tuple quantiles conversion changed: {conv!r}')
    extra = [o for o in others if not o.startswith('quantiles = quantiles or') and 'if quantiles is' not in o]
    if extra:
        raise ExtractError(f'reduce: quantiles rewritten by an unsupported statement: {extra[0][:80]}')
    # later rewrites of bounds / quantiles anywhere else in the function
    for st in fn.body:
        if st is blk: continue
        for inner in ast.walk(st):
            if isinstance(inner, (ast.Assign, ast.AugAssign)):
                tg = inner.targets[0] if isinstance(inner, ast.Assign) else inner.target
                if unparse(tg) in ('bounds', 'quantiles'):
                    raise ExtractError(f'reduce: {unparse(tg)} reassigned outside the argument block: {unparse(inner)[:80]}')
    return bkind, bval, qkind, d['low'], d['high']


def extract_parallel(src):
    """ ss.parallel(*args, **kwargs): the sims are merged into ONE LIST handed to MultiSim(sims=...), then run """
    fn = src.func(REL, 'parallel')
    stmts = [st for st in fn.body if not (isinstance(st, ast.Expr) and isinstance(st.value, ast.Constant))]
    texts = [unparse(st) for st in stmts]
    want = ['sims = sc.mergelists(*args)', 'msim = MultiSim(sims=sims, **kwargs)', 'msim.run()', 'return msim']
    if texts != want:
        raise ExtractError(f'parallel(): body changed: {texts}')
    return True


def extract_init_sims(src):
    """ MultiSim.init_sims: multi_run(sims, **run_args, do_run=False) with inplace/debug removed; result stored in self.sims """
    fn = src.func(REL, 'init_sims', 'MultiSim')
    text = unparse(fn)
    need = ["{'do_run': False}", "kwargs.pop('inplace', None)", "kwargs.pop('debug', None)", 'self.sims = multi_run(sims, **kwargs)']
    for n in need:
        if n not in text:
            raise ExtractError(f'MultiSim.init_sims: expected `{n}`')
    # single_run must not initialise when do_run is false: the `if do_run:` statement has no else branch
    sr = src.func(REL, 'single_run')
    for st in sr.body:
        if isinstance(st, ast.If) and unparse(st.test) == 'do_run':
            if st.orelse:
                return False
            return True
    raise ExtractError('single_run: `if do_run:` not found')


# --- starsim/sim.py: what run.py relies on ------------------------------------

SIM = 'starsim/sim.py'


def _body(fn):
    return [st for st in fn.body if not (isinstance(st, ast.Expr) and isinstance(st.value, ast.Constant))]


def extract_sim_init(src):
    """ Sim.init: is the FIRST statement the unconditional reset of the process-global generators from the sim's own seed?
        (Every member of a multi-run then starts its global-generator stream from its seed, whatever the worker held.)
        Sim.run must initialise a not yet initialised sim itself. """
    fn = src.func(SIM, 'init', 'Sim')
    stmts = _body(fn)
    first = unparse(stmts[0]).replace('"', "'") if stmts else ''
    seeds_first = first in ('ss.set_seed(self.pars.rand_seed)', "ss.set_seed(self.pars['rand_seed'])")
    run = src.func(SIM, 'run', 'Sim')
    ok = False
    for st in _body(run):
        if isinstance(st, ast.If) and unparse(st.test) == 'not self.initialized' and any(unparse(x) == 'self.init()' for x in st.body):
            ok = True
    if not ok:
        raise ExtractError('Sim.run: `if not self.initialized: self.init()` not found')
    return seeds_first


def extract_summarize(src):
    """ Sim.summarize: the default `how` table (ordered; first key that is a substring of the result key decides), and which
        attributes of `self` the function reads / writes (it must be a function of self.results alone). """
    fn = src.func(SIM, 'summarize', 'Sim')
    table = None
    for st in _body(fn):
        if isinstance(st, ast.If) and unparse(st.test).replace('"', "'") == "how == 'default'":
            for inner in ast.walk(st):
                if isinstance(inner, ast.Assign) and unparse(inner.targets[0]) == 'how' and isinstance(inner.value, ast.Dict) and table is None:
                    table = [(_const(k, 'how key'), _const(v, 'how value')) for k, v in zip(inner.value.keys, inner.value.values)]
    if table is None:
        raise ExtractError("Sim.summarize: `if how == 'default': how = {...}` not found")
    for k, v in table:
        if not isinstance(k, str) or v not in ('mean', 'median', 'last'):
            raise ExtractError(f'Sim.summarize: unsupported default how entry {k!r}: {v!r}')
    reads = set(); writes = set()
    for n in ast.walk(fn):
        if isinstance(n, ast.Attribute) and isinstance(n.value, ast.Name) and n.value.id == 'self':
            (writes if isinstance(n.ctx, ast.Store) else reads).add(n.attr)
    # get_result: what each named function computes; get_func: substring match over the table in order
    funcs = {}; substring = False
    for n in ast.walk(fn):
        if isinstance(n, ast.If) and isinstance(n.test, ast.Compare) and unparse(n.test.left) == 'func' and len(n.test.ops) == 1 \
                and isinstance(n.test.ops[0], ast.Eq) and isinstance(n.test.comparators[0], ast.Constant) \
                and len(n.body) == 1 and isinstance(n.body[0], ast.Return):
            funcs[n.test.comparators[0].value] = unparse(n.body[0].value)
        if isinstance(n, ast.For) and unparse(n.iter) == 'how.items()' and isinstance(n.target, ast.Tuple) and len(n.target.elts) == 2:
            kname = unparse(n.target.elts[0])
            for inner in n.body:
                if isinstance(inner, ast.If) and unparse(inner.test) == f'{kname} in key':
                    substring = True
    want = dict(mean='res.mean()', median='np.median(res)', last='res[-1]')
    for k, v in want.items():
        if funcs.get(k) != v:
            raise ExtractError(f'Sim.summarize.get_result: {k!r} computes {funcs.get(k)!r}, expected {v!r}')
    if not substring:
        raise ExtractError('Sim.summarize.get_func: the substring match `if hkey in key` over how.items() was not found')
    return table, sorted(reads), sorted(writes)


def extract_reduce_summary(src):
    """ MultiSim.reduce: after the statistics loop the reduced sim is summarised again and that summary becomes msim.summary """
    fn = src.func(REL, 'reduce', 'MultiSim')
    stmts = _body(fn)
    i_loop = i_sum = i_store = None
    for i, st in enumerate(stmts):
        t = unparse(st)
        if isinstance(st, ast.For) and 'res[:]' in t: i_loop = i
        if t == 'reduced_sim.summarize()': i_sum = i
        if t == 'self.summary = reduced_sim.summary': i_store = i
    return bool(i_loop is not None and i_sum is not None and i_store is not None and i_loop < i_sum < i_store)


# --- process-level state shared by everything that runs in one process ------------

PKG_FILES = ['starsim/' + f for f in ('arrays.py', 'calibration.py', 'demographics.py', 'disease.py', 'distributions.py', 'interventions.py', 'loop.py',
                                      'modules.py', 'networks.py', 'parameters.py', 'people.py', 'products.py', 'results.py', 'run.py', 'samples.py',
                                      'settings.py', 'sim.py', 'time.py', 'utils.py', '__init__.py')]
_MUT_CALLS = ('dict', 'list', 'set', 'sc.odict', 'sc.objdict', 'sc.dictobj', 'defaultdict', 'collections.defaultdict', 'OrderedDict', 'collections.OrderedDict',
              'np.zeros', 'np.empty', 'np.array', 'np.ones', 'np.full')


def _is_mutable_container(v):
    return isinstance(v, (ast.Dict, ast.List, ast.Set, ast.ListComp, ast.DictComp, ast.SetComp)) or \
        (isinstance(v, ast.Call) and unparse(v.func) in _MUT_CALLS)


def extract_process_state(src):
    """ Containers that live as long as the PROCESS and are shared by every sim that runs in it -- the channel through which one
        member of a serial loop / of a worker could reach the next:  class attributes bound to a mutable container (one object for
        all instances), memoising decorators, and module-level containers (today: constant look-up tables).  Sim.init cannot reset
        any of them. """
    import os
    cls_level = []; mod_level = []; memo = []
    files = [f for f in PKG_FILES if os.path.exists(os.path.join(src.repo, f))]
    extra = sorted('starsim/' + f for f in os.listdir(os.path.join(src.repo, 'starsim')) if f.endswith('.py') and 'starsim/' + f not in PKG_FILES and f != 'version.py')
    for rel in files + extra:
        t = src.tree(rel); base = rel.split('/')[-1]
        for n in ast.walk(t):
            if isinstance(n, ast.ClassDef):
                for st in n.body:
                    tg = v = None
                    if isinstance(st, ast.Assign): tg, v = st.targets[0], st.value
                    elif isinstance(st, ast.AnnAssign) and st.value is not None: tg, v = st.target, st.value
                    if v is not None and _is_mutable_container(v):
                        cls_level.append(f'{base}:{n.name}.{unparse(tg)}')
            if isinstance(n, (ast.FunctionDef, ast.AsyncFunctionDef)):
                for d in n.decorator_list:
                    u = unparse(d)
                    if 'lru_cache' in u or u.split('(')[0].split('.')[-1] in ('cache', 'cached_property', 'memoize', 'memoized'):
                        memo.append(f'{base}:{n.name}@{u}')
                for st in ast.walk(n):     # `global x` rebinding of module state from inside a function
                    if isinstance(st, ast.Global):
                        memo.append(f"{base}:{n.name}:global {','.join(st.names)}")
        for st in t.body:
            if isinstance(st, ast.Assign) and _is_mutable_container(st.value) and unparse(st.targets[0]) != '__all__':
                mod_level.append(f'{base}:{unparse(st.targets[0])}')
    return sorted(cls_level), sorted(mod_level), sorted(memo)


@generator('RunFacts', [REL, SIM, 'starsim/demographics.py', 'starsim/modules.py', 'starsim/disease.py', 'starsim/networks.py', 'starsim/people.py'])
def gen_run_facts(src):
    expr = extract_single_run(src)
    rs_single, rs_list, serial_copies = extract_multi_run(src)
    mean_b, med_b, k, qlow, qhigh = extract_reduce(src)
    bkind, bval, qkind, aqlo, aqhi = extract_reduce_args(src)
    if (bval, aqlo, aqhi) != (k, qlow, qhigh):
        raise ExtractError('reduce: inconsistent defaults')
    par_list = extract_parallel(src)
    no_init = extract_init_sims(src)
    seeds_first = extract_sim_init(src)
    how_table, sum_reads, sum_writes = extract_summarize(src)
    red_sum = extract_reduce_summary(src)
    cls_level, mod_level, memo = extract_process_state(src)
    lstr = lambda x: '"' + x.replace('\\', '\\\\').replace('"', '\\"') + '"'
    bounds_fn = {'none': 'match b with | none => defaultBounds | some x => x',
                 'falsy': 'match b with | none => defaultBounds | some x => if x = 0 then defaultBounds else x'}[bkind]
    quant_fn = {'none': 'match q with | none => (defaultQLow, defaultQHigh) | some p => p',
                'falsy': 'match q with | none => (defaultQLow, defaultQHigh) | some p => p'}[qkind]
    b = lambda x: 'true' if x else 'false'
    body = f'''namespace StarsimModel.Gen
/-- `single_run`: the statement under `if reseed:` — new `sim.pars['rand_seed']` as a function of the old seed and `ind` -/
def reseedSeed (seed ind : Int) : Int := {expr}
/-- `multi_run`, single `Sim`: `if reseed is None: reseed = ...` -/
def reseedDefaultSingle : Bool := {b(rs_single)}
/-- `multi_run`, list of sims: `if reseed is None: reseed = ...` -/
def reseedDefaultList : Bool := {b(rs_list)}
/-- `multi_run(parallel=False)` runs `this_iter['sim'].copy()` -/
def serialCopies : Bool := {b(serial_copies)}

/-- Statistic expressions of `MultiSim.reduce` (over the member axis of `raw[rkey]`) -/
inductive StatExpr where
  | mean | std (ddof : Nat) | quantile (q : Rat) | qLow | qHigh
  | minusK (a b : StatExpr) | plusK (a b : StatExpr)
  deriving Repr, DecidableEq

/-- `use_mean=True`: `res[:]`, `res.low`, `res.high` -/
def meanCentre : StatExpr := {_lean_stat(mean_b['centre'])}
def meanLow : StatExpr := {_lean_stat(mean_b['low'])}
def meanHigh : StatExpr := {_lean_stat(mean_b['high'])}
/-- `use_mean=False`: `res[:]`, `res.low`, `res.high` -/
def medCentre : StatExpr := {_lean_stat(med_b['centre'])}
def medLow : StatExpr := {_lean_stat(med_b['low'])}
def medHigh : StatExpr := {_lean_stat(med_b['high'])}
/-- defaults: `bounds = 2`, `quantiles = {{'low': 0.1, 'high': 0.9}}` (decimal literals) -/
def defaultBounds : Rat := {lean_rat(k)}
def defaultQLow : Rat := {lean_rat(qlow)}
def defaultQHigh : Rat := {lean_rat(qhigh)}
/-- `reduce`: the `bounds` actually used, from the argument (`none` = not given); defaulting test: {bkind} -/
def boundsArg (b : Option Rat) : Rat := {bounds_fn}
/-- `reduce`: the (low, high) quantile levels actually used, from the argument (dict / list / tuple, `none` = not given) -/
def quantilesArg (q : Option (Rat × Rat)) : Rat × Rat := {quant_fn}
/-- `ss.parallel(*args)`: the sims are always handed to `MultiSim` as ONE LIST (also a single sim) and run -/
def parallelWrapsList : Bool := {b(par_list)}
/-- `single_run(do_run=False)` only applies seed and parameters; it does not call `sim.init()` -/
def doRunFalseSkipsInit : Bool := {b(no_init)}
/-- `Sim.init`: the first statement is the unconditional `ss.set_seed(self.pars.rand_seed)` (reset of the process-global generators) -/
def initSeedsGlobalFirst : Bool := {b(seeds_first)}
/-- functions of `Sim.summarize.get_result` -/
inductive HowFunc where
  | mean | median | last
  deriving Repr, DecidableEq
/-- `Sim.summarize`: the default `how` table, in order (the first key that is a substring of the result key decides) -/
def summarizeHow : List (String × HowFunc) := [{', '.join(f'({lstr(k_)}, .{v_})' for k_, v_ in how_table)}]
/-- `Sim.summarize`: the attributes of `self` it reads / writes -/
def summarizeSelfReads : List String := [{', '.join(lstr(x) for x in sum_reads)}]
def summarizeSelfWrites : List String := [{', '.join(lstr(x) for x in sum_writes)}]
/-- `MultiSim.reduce`: `reduced_sim.summarize()` after the statistics loop, then `self.summary = reduced_sim.summary` -/
def reduceSummaryRecomputed : Bool := {b(red_sum)}
/-- class attributes of the package bound to a mutable container: ONE object shared by all instances in a process -/
def classLevelMutables : List String := [{', '.join(lstr(x) for x in cls_level)}]
/-- memoising decorators / `global` rebinding inside functions -/
def processMemos : List String := [{', '.join(lstr(x) for x in memo)}]
/-- module-level containers (constant look-up tables today) -/
def moduleLevelContainers : List String := [{', '.join(lstr(x) for x in mod_level)}]
end StarsimModel.Gen
'''
    facts = dict(reseed_expr=expr, reseed_default_single=rs_single, reseed_default_list=rs_list, serial_copies=serial_copies,
                 mean={k_: _show_stat(v) for k_, v in mean_b.items()}, median={k_: _show_stat(v) for k_, v in med_b.items()},
                 default_bounds=str(k), default_quantiles=[str(qlow), str(qhigh)],
                 bounds_default_test=bkind, quantiles_default_test=qkind, parallel_wraps_list=par_list, do_run_false_skips_init=no_init,
                 init_seeds_global_first=seeds_first, summarize_how=[list(x) for x in how_table], summarize_self_reads=sum_reads,
                 summarize_self_writes=sum_writes, reduce_summary_recomputed=red_sum,
                 class_level_mutables=cls_level, process_memos=memo, module_level_containers=mod_level)
    return body, facts
