"""
C07 extractor: the defaults and tables of starsim/time.py, parameters.py and settings.py that the timeline model
(lean/StarsimModel/Model/Timeline.lean) instantiates  ->  Generated/TimeDefaults.lean

Extracted: default_dur, default_unit, default_start_year, default_start_date, which units default to the date / the
year (default_start), the string aliases of unit_mapping_reverse, SimPars' default dt, options.time_eps and the
number of decimals round_tvec derives from it, and the unit list of time_units (for the date_add guard).
"""
import ast, math, fractions
from harness.extract import generator, ExtractError, lean_rat, lean_str, lit_rat, unparse

REL = 'starsim/time.py'


def _assign(tree, name):
    for n in tree.body:
        if isinstance(n, ast.Assign) and len(n.targets) == 1 and unparse(n.targets[0]) == name:
            return n.value
    raise ExtractError(f'{name} = ... not found at module level')


def _str(node, what):
    if isinstance(node, ast.Constant) and isinstance(node.value, str):
        return node.value
    raise ExtractError(f'{what}: not a string literal: {unparse(node)[:60]}')


@generator('TimeDefaults', ['starsim/time.py', 'starsim/parameters.py', 'starsim/settings.py'])
def gen(src):
    tree = src.tree(REL)
    dur = lit_rat(_assign(tree, 'default_dur'))
    unit = _str(_assign(tree, 'default_unit'), 'default_unit')
    syear = lit_rat(_assign(tree, 'default_start_year'))
    sdate = _str(_assign(tree, 'default_start_date'), 'default_start_date')
    if syear.denominator != 1 or syear < 1:
        raise ExtractError('default_start_year is not a positive integer')
    try:
        y, m, d = (int(x) for x in sdate.split('-'))
    except Exception:
        raise ExtractError(f'default_start_date {sdate!r} is not YYYY-MM-DD')
    # default_start = sc.objdict({k:default_start_date for k in [...]} | {k:default_start_year for k in [...]})
    ds = _assign(tree, 'default_start')
    date_units, year_units = None, None
    try:
        arg = ds.args[0]
        assert isinstance(arg, ast.BinOp) and isinstance(arg.op, ast.BitOr)
        for comp in (arg.left, arg.right):
            assert isinstance(comp, ast.DictComp) and unparse(comp.key) == 'k'
            keys = [_str(e, 'default_start key') for e in comp.generators[0].iter.elts]
            val = unparse(comp.value)
            if val == 'default_start_date': date_units = keys
            elif val == 'default_start_year': year_units = keys
            else: raise AssertionError(val)
    except (AssertionError, AttributeError, IndexError) as e:
        raise ExtractError(f'default_start has an unsupported shape: {unparse(ds)[:120]}')
    if date_units is None or year_units is None:
        raise ExtractError('default_start: date / year key lists not found')
    # unit_mapping_reverse: string aliases only (the class aliases days/perday/... are TimePar classes, C06)
    umr = _assign(tree, 'unit_mapping_reverse')
    if not isinstance(umr, ast.Dict):
        raise ExtractError('unit_mapping_reverse is not a dict literal')
    aliases = []
    for k, v in zip(umr.keys, umr.values):
        if isinstance(k, ast.Constant) and k.value is None:
            continue
        canon = _str(k, 'unit_mapping_reverse key')
        if not isinstance(v, ast.List):
            raise ExtractError('unit_mapping_reverse value is not a list literal')
        for e in v.elts:
            if isinstance(e, ast.Constant) and isinstance(e.value, str):
                aliases.append((e.value, canon))
            elif isinstance(e, ast.Name):
                continue
            else:
                raise ExtractError(f'unit_mapping_reverse: unsupported alias {unparse(e)}')
    # the mapping must be inverted the usual way
    um = unparse(_assign(tree, 'unit_mapping'))
    if um.replace(' ', '') != '{v:kfork,vlistinunit_mapping_reverse.items()forvinvlist}'.replace(' ', ''):
        raise ExtractError(f'unit_mapping is not the inversion of unit_mapping_reverse: {um}')
    # time_units keys (the `unit in time_units` guard of date_add)
    tu = _assign(tree, 'time_units')
    tu_keys = [k.arg for k in tu.keywords]
    # SimPars default dt / unit
    init = src.func('starsim/parameters.py', '__init__', 'SimPars')
    dflt = {}
    for n in ast.walk(init):
        if isinstance(n, ast.Assign) and len(n.targets) == 1:
            t = unparse(n.targets[0])
            if t in ('self.dt', 'self.unit', 'self.start', 'self.stop', 'self.dur'):
                dflt[t[5:]] = n.value
    for k in ('dt', 'unit', 'start', 'stop', 'dur'):
        if k not in dflt:
            raise ExtractError(f'SimPars.__init__: default of {k} not found')
    pdt = lit_rat(dflt['dt'])
    punit = _str(dflt['unit'], 'SimPars.unit default')
    for k in ('start', 'stop', 'dur'):
        if not (isinstance(dflt[k], ast.Constant) and dflt[k].value is None):
            raise ExtractError(f'SimPars.{k} default is not None')
    # time_eps and the decimals of round_tvec
    eps = None
    for n in ast.walk(src.tree('starsim/settings.py')):
        if isinstance(n, ast.Assign) and unparse(n.targets[0]) == 'options.time_eps':
            call = n.value
            if isinstance(call, ast.Call) and unparse(call.func) == 'sc.parse_env':
                eps = lit_rat(call.args[1])
    if eps is None or eps <= 0:
        raise ExtractError('options.time_eps default not found')
    rt = src.func(REL, 'round_tvec')
    dec_expr = None
    for n in ast.walk(rt):
        if isinstance(n, ast.Assign) and unparse(n.targets[0]) == 'decimals':
            dec_expr = unparse(n.value)
    if dec_expr != 'int(-np.log10(ss.options.time_eps))':
        raise ExtractError(f'round_tvec: decimals expression changed: {dec_expr!r}')
    decimals = int(-math.log10(float(eps)))
    if decimals < 0:
        raise ExtractError('round_tvec: negative decimals')
    al = ',\n  '.join(f'({lean_str(a)}, {lean_str(c)})' for a, c in aliases)
    body = f'''namespace StarsimModel.Gen
/-- `time.default_dur` -/
def defaultDur : Rat := {lean_rat(dur)}
/-- `time.default_unit` -/
def defaultUnit : String := {lean_str(unit)}
/-- `time.default_start_year` -/
def defaultStartYear : Nat := {syear.numerator}
/-- `time.default_start_date` as (year, month, day) -/
def defaultStartDate : Nat × Nat × Nat := ({y}, {m}, {d})
/-- units whose `default_start` is the date / the year -/
def defaultStartDateUnits : List String := [{', '.join(lean_str(u) for u in date_units)}]
def defaultStartYearUnits : List String := [{', '.join(lean_str(u) for u in year_units)}]
/-- string aliases of `unit_mapping_reverse`: (alias, canonical unit) -/
def unitAliases : List (String × String) := [
  {al}]
/-- keys of `time_units` (the `unit in time_units` guard of `date_add`) -/
def timeUnitNames : List String := [{', '.join(lean_str(u) for u in tu_keys)}]
/-- `SimPars.__init__`: default `dt` and the `unit` placeholder replaced by `default_unit` -/
def simDefaultDt : Rat := {lean_rat(pdt)}
def simUnitPlaceholder : String := {lean_str(punit)}
/-- `options.time_eps` default and `round_tvec`'s `int(-log10(time_eps))` -/
def timeEpsC07 : Rat := {lean_rat(eps)}
def roundDecimals : Nat := {decimals}
end StarsimModel.Gen
'''
    facts = dict(default_dur=str(dur), default_unit=unit, default_start_year=int(syear), default_start_date=sdate,
                 date_units=date_units, year_units=year_units, aliases=[list(a) for a in aliases], time_units=tu_keys,
                 sim_dt=str(pdt), time_eps=str(eps), decimals=decimals)
    return body, facts
