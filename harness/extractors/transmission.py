"""
Extractor for C12: the arithmetic of the transmission kernel, translated from source into Lean functions.

    starsim/disease.py        Infection.compute_transmission   -> Gen.transmits, Gen.kernelReturns
                              Infection.infect                 -> Gen.effTrans, Gen.effSus, Gen.infectDirections,
                                                                  Gen.infectDedupKeepsFirst, Gen.infectSkipsZeroBeta
    starsim/networks.py       Network.net_beta                 -> Gen.netBetaPlain
                              SexualNetwork.net_beta           -> Gen.netBetaSexual
                              MixingPool.step                  -> Gen.poolTransTerm, Gen.poolAcq, Gen.poolP, group names
    starsim/distributions.py  bernoulli.ppf                    -> Gen.bernoulliAccept

The model (Model/Transmission.lean) *uses* these functions, so an edit of the source expressions changes the model
the theorems are about.  Local variable names are irrelevant (single-assignment locals are inlined symbolically,
parameters are taken by position); operand order is kept as written (the spec lemmas are proved by `ring`).
Anything outside products / sums / differences / one power of the recognised atoms raises ExtractError.
"""
import ast
from harness.extract import generator, ExtractError, lean_rat, lean_str, lit_rat, unparse

DIS = 'starsim/disease.py'
NET = 'starsim/networks.py'
DST = 'starsim/distributions.py'


def local_env(fn, skip_args=True):
    """ name -> value node for every `name = value` in fn (None when assigned more than once / by other means) """
    env = {}
    for n in ast.walk(fn):
        if isinstance(n, ast.Assign) and len(n.targets) == 1 and isinstance(n.targets[0], ast.Name):
            k = n.targets[0].id
            env[k] = None if k in env else n.value
        elif isinstance(n, (ast.AugAssign, ast.AnnAssign)) and isinstance(n.target, ast.Name):
            env[n.target.id] = None
    return env


def resolve(node, env, depth=0):
    """ Follow single-assignment local names """
    while isinstance(node, ast.Name) and node.id in env and depth < 20:
        if env[node.id] is None:
            raise ExtractError(f'local `{node.id}` is assigned more than once; cannot inline it')
        node = env[node.id]; depth += 1
    return node


class Tr:
    """ Expression translator: atoms are decided by a callback on the (resolved) node """
    def __init__(self, env, atom, where, generic=False):
        self.env = env; self.atom = atom; self.where = where; self.generic = generic

    def __call__(self, node):
        a = self.atom(node)
        if a is not None:
            return a
        if isinstance(node, ast.Name) and node.id in self.env:
            return self(resolve(node, self.env))
        if isinstance(node, ast.BinOp):
            if isinstance(node.op, ast.Pow) and self.generic:
                return f'(pow {self(node.left)} {self(node.right)})'
            if isinstance(node.op, ast.Pow):
                e = self.atom(node.right)
                if e is None and isinstance(node.right, ast.Name):
                    e = self.atom(resolve(node.right, self.env))
                if e != 'actsDt':
                    raise ExtractError(f'{self.where}: unsupported exponent `{unparse(node.right)}`')
                return f'({self(node.left)} ^ actsDt)'
            op = {ast.Mult: '*', ast.Add: '+', ast.Sub: '-'}.get(type(node.op))
            if op is None:
                raise ExtractError(f'{self.where}: unsupported operator in `{unparse(node)}`')
            return f'({self(node.left)} {op} {self(node.right)})'
        if isinstance(node, ast.UnaryOp) and isinstance(node.op, ast.USub):
            return f'(-{self(node.operand)})'
        if isinstance(node, ast.Constant) and isinstance(node.value, (int, float)) and not isinstance(node.value, bool):
            if self.generic:
                if node.value == 1: return '(1 : α)'
                raise ExtractError(f'{self.where}: constant {node.value!r} not supported in the generic translation')
            return lean_rat(lit_rat(node))
        raise ExtractError(f'{self.where}: unsupported expression `{unparse(node)[:80]}`')


CMP = {ast.Gt: '>', ast.Lt: '<', ast.GtE: '≥', ast.LtE: '≤'}


def tr_compare(node, tr, where):
    if not (isinstance(node, ast.Compare) and len(node.ops) == 1 and type(node.ops[0]) in CMP):
        raise ExtractError(f'{where}: expected a single comparison, got `{unparse(node)[:80]}`')
    return f'decide ({tr(node.left)} {CMP[type(node.ops[0])]} {tr(node.comparators[0])})'


# ---------------------------------------------------------------------------

def kernel(src):
    fn = src.func(DIS, 'compute_transmission', 'Infection')
    names = [a.arg for a in fn.args.args]
    if len(names) != 6 or fn.args.vararg or fn.args.kwarg:
        raise ExtractError(f'compute_transmission: expected 6 positional parameters, got {names}')
    p_src, p_trg, p_rt, p_rs, p_beta, p_rand = names
    env = local_env(fn)
    for nm in names:
        if nm in env:
            raise ExtractError(f'compute_transmission: parameter `{nm}` is re-assigned')

    def atom(node):
        if isinstance(node, ast.Name):
            if node.id == p_beta: return 'betaPerDt'
            if node.id == p_rand: return 'r'
        if isinstance(node, ast.Subscript) and isinstance(node.value, ast.Name) and isinstance(node.slice, ast.Name):
            arr = {p_rt: 'relTrans', p_rs: 'relSus'}.get(node.value.id)
            idx = {p_src: 'src', p_trg: 'trg'}.get(node.slice.id)
            if arr and idx:
                return f'{arr} {idx}'
        return None
    tr = Tr(env, atom, 'compute_transmission')
    ret = [n for n in ast.walk(fn) if isinstance(n, ast.Return)]
    if len(ret) != 1 or not isinstance(ret[0].value, ast.Tuple) or len(ret[0].value.elts) != 2:
        raise ExtractError('compute_transmission: expected a single `return a, b`')
    order = []; masks = []
    for el in ret[0].value.elts:
        el = resolve(el, env)
        if not (isinstance(el, ast.Subscript) and isinstance(el.value, ast.Name) and el.value.id in (p_src, p_trg)):
            raise ExtractError(f'compute_transmission: returned value `{unparse(el)}` is not src[mask] / trg[mask]')
        order.append('trg' if el.value.id == p_trg else 'src')
        masks.append(resolve(el.slice, env))
    if unparse(masks[0]) != unparse(masks[1]):
        raise ExtractError('compute_transmission: sources and targets are filtered by different masks')
    cmp = tr_compare(masks[0], tr, 'compute_transmission')
    return cmp, order, unparse(masks[0])


def infect(src):
    fn = src.func(DIS, 'infect', 'Infection')
    env = local_env(fn)
    calls = [n for n in ast.walk(fn) if isinstance(n, ast.Call) and isinstance(n.func, ast.Attribute) and n.func.attr == 'compute_transmission']
    if len(calls) != 1:
        raise ExtractError(f'infect: expected exactly one call of compute_transmission, found {len(calls)}')
    call = calls[0]
    args = call.args
    if len(args) == 1 and isinstance(args[0], ast.Starred):
        tup = resolve(args[0].value, env)
        if not isinstance(tup, (ast.Tuple, ast.List)):
            raise ExtractError('infect: *args of compute_transmission is not a literal tuple')
        args = tup.elts
    if len(args) != 6 or call.keywords:
        raise ExtractError(f'infect: compute_transmission called with {len(args)} positional arguments')
    a_src, a_trg, a_rt, a_rs, a_beta, a_rand = args

    def factor(node, what):
        node = resolve(node, env)
        if isinstance(node, ast.Call) and isinstance(node.func, ast.Attribute) and node.func.attr == 'asnew' and len(node.args) == 1:
            node = node.args[0]
        atoms = {'self.infectious': 'infectious', 'self.susceptible': 'susceptible', 'self.rel_sus': 'relSus',
                 'self.rel_trans': 'relTrans'}
        tr = Tr(env, lambda n: atoms.get(unparse(n)) if isinstance(n, ast.Attribute) else None, f'infect ({what})')
        return tr(node), unparse(node)
    eff_trans, eff_trans_src = factor(a_rt, 'rel_trans')
    eff_sus, eff_sus_src = factor(a_rs, 'rel_sus')

    # the direction loop:  for src, trg, beta in [p1p2b0, p2p1b1]
    loops = [n for n in ast.walk(fn) if isinstance(n, ast.For) and any(c is call for c in ast.walk(n))]
    loop = None
    for lp in loops:  # innermost loop containing the call
        if loop is None or any(c is lp for c in ast.walk(loop)):
            loop = lp
    if loop is None or not (isinstance(loop.target, ast.Tuple) and len(loop.target.elts) == 3 and all(isinstance(e, ast.Name) for e in loop.target.elts)):
        raise ExtractError('infect: the kernel call is not inside `for src, trg, beta in [...]`')
    l_src, l_trg, l_beta = [e.id for e in loop.target.elts]
    if not (isinstance(a_src, ast.Name) and isinstance(a_trg, ast.Name)):
        raise ExtractError('infect: kernel src/trg arguments are not the loop variables')
    swap = (a_src.id, a_trg.id) == (l_trg, l_src)
    if not swap and (a_src.id, a_trg.id) != (l_src, l_trg):
        raise ExtractError('infect: kernel src/trg arguments are not the loop variables')
    it = resolve(loop.iter, env)
    if not isinstance(it, (ast.List, ast.Tuple)):
        raise ExtractError('infect: direction loop does not iterate over a literal list')
    dirs = []
    for row in it.elts:
        row = resolve(row, env)
        if not (isinstance(row, (ast.List, ast.Tuple)) and len(row.elts) == 3):
            raise ExtractError('infect: direction row is not [source, target, beta]')
        s, t, b = [resolve(e, env) for e in row.elts]
        def field(n):
            if isinstance(n, ast.Attribute) and n.attr in ('p1', 'p2'):
                return n.attr
            raise ExtractError(f'infect: direction endpoint `{unparse(n)}` is not edges.p1 / edges.p2')
        if not (isinstance(b, ast.Subscript) and isinstance(b.slice, ast.Constant) and b.slice.value in (0, 1)
                and isinstance(b.value, ast.Subscript)):
            raise ExtractError(f'infect: direction beta `{unparse(b)}` is not betamap[key][0|1]')
        sf, tf = field(s), field(t)
        if swap: sf, tf = tf, sf
        dirs.append((sf, tf, int(b.slice.value)))
    # beta_per_dt = net.net_beta(disease_beta=beta) with the loop's beta
    nb = resolve(a_beta, env)
    ok = isinstance(nb, ast.Call) and isinstance(nb.func, ast.Attribute) and nb.func.attr == 'net_beta'
    if ok:
        vals = [k.value for k in nb.keywords if k.arg == 'disease_beta'] + list(nb.args[:1])
        ok = len(vals) >= 1 and isinstance(vals[0], ast.Name) and vals[0].id == l_beta
    if not ok:
        raise ExtractError(f'infect: beta_per_dt is not net.net_beta(disease_beta=<loop beta>): `{unparse(nb)[:80]}`')
    # number of times net_beta result is multiplied etc. is covered by the translation above (it must be the bare call)
    rv = resolve(a_rand, env)
    if not (isinstance(rv, ast.Call) and isinstance(rv.func, ast.Attribute) and rv.func.attr == 'rvs'
            and unparse(rv.func.value) == 'self.trans_rng'):
        raise ExtractError(f'infect: random numbers are not self.trans_rng.rvs(...): `{unparse(rv)[:80]}`')
    # guard `if beta:` directly around the call
    skips = False
    for n in ast.walk(loop):
        if isinstance(n, ast.If) and isinstance(n.test, ast.Name) and n.test.id == l_beta and any(c is call for c in ast.walk(n)):
            skips = True
    # dedup: X, inds = Y.unique(return_index=True); sources = cat(sources)[inds]
    dedup = False; inds_name = None
    for n in ast.walk(fn):
        if isinstance(n, ast.Assign) and isinstance(n.targets[0], ast.Tuple) and len(n.targets[0].elts) == 2 \
                and isinstance(n.value, ast.Call) and isinstance(n.value.func, ast.Attribute) and n.value.func.attr == 'unique' \
                and any(k.arg == 'return_index' and isinstance(k.value, ast.Constant) and k.value.value is True for k in n.value.keywords):
            inds_name = n.targets[0].elts[1].id if isinstance(n.targets[0].elts[1], ast.Name) else None
    if inds_name:
        for n in ast.walk(fn):
            if isinstance(n, ast.Assign) and unparse(n.targets[0]) == 'sources' and isinstance(n.value, ast.Subscript) \
                    and isinstance(n.value.slice, ast.Name) and n.value.slice.id == inds_name:
                dedup = True
    return dict(eff_trans=eff_trans, eff_sus=eff_sus, eff_trans_src=eff_trans_src, eff_sus_src=eff_sus_src,
                dirs=dirs, skips=skips, dedup=dedup)


def net_beta(src, cls, generic=False):
    fn = src.func(NET, 'net_beta', cls)
    names = [a.arg for a in fn.args.args]
    if names[:3] != ['self', 'disease_beta', 'inds']:
        raise ExtractError(f'{cls}.net_beta signature changed: {names}')
    env = local_env(fn); env.pop('inds', None)
    ret = [n for n in ast.walk(fn) if isinstance(n, ast.Return)]
    if len(ret) != 1:
        raise ExtractError(f'{cls}.net_beta: expected one return')

    def atom(node):
        s = unparse(node)
        if s == 'self.edges.beta[inds]': return 'edgeBeta'
        if s == 'disease_beta': return 'diseaseBeta'
        if s in ('self.edges.acts[inds] * self.t.dt', 'self.t.dt * self.edges.acts[inds]'): return 'actsDt'
        return None
    if generic:
        def gatom(node):
            s = unparse(node)
            return {'self.edges.beta[inds]': 'edgeBeta', 'disease_beta': 'diseaseBeta', 'self.edges.acts[inds]': 'acts', 'self.t.dt': 'dt'}.get(s)
        return Tr(env, gatom, f'{cls}.net_beta', generic=True)(ret[0].value), unparse(ret[0].value)
    return Tr(env, atom, f'{cls}.net_beta')(ret[0].value), unparse(ret[0].value)


def outcomes(src):
    """ Infection.set_outcomes: the congenital predicate and which method gets which part """
    fn = src.func(DIS, 'set_outcomes', 'Infection')
    names = [a.arg for a in fn.args.args]
    if len(names) < 2:
        raise ExtractError('set_outcomes signature changed')
    u = names[1]
    env = local_env(fn)
    cong = env.get('congenital')
    if cong is None:
        raise ExtractError('set_outcomes: `congenital = ...` not found (or assigned twice)')
    def atom(node):
        if unparse(node) in (f'sim.people.age[{u}]', f'self.sim.people.age[{u}]'): return 'age'
        return None
    pred = tr_compare(cong, Tr({k: v for k, v in env.items() if k != 'congenital'}, atom, 'set_outcomes'), 'set_outcomes')
    split = []
    for n in ast.walk(fn):
        if isinstance(n, ast.Call) and isinstance(n.func, ast.Attribute) and n.func.attr in ('set_congenital', 'set_prognoses') \
                and unparse(n.func.value) == 'self' and n.args:
            a = n.args[0]
            if isinstance(a, ast.Subscript) and unparse(a.value) == u:
                split.append(f'{n.func.attr}:{unparse(a.slice)}')
            else:
                raise ExtractError(f'set_outcomes: `{unparse(n)[:60]}` is not called on a part of the new cases')
    return pred, unparse(cong), sorted(split)


def pool(src):
    fn = src.func(NET, 'step', 'MixingPool')
    loops = [n for n in fn.body if isinstance(n, ast.For)]
    if len(loops) != 1 or not isinstance(loops[0].target, ast.Name):
        raise ExtractError('MixingPool.step: expected one `for disease in self.diseases` loop')
    lp = loops[0]; dv = lp.target.id
    env = local_env(fn)
    groups = dict(trans=set(), acq=set())

    def mk_atom(kind):
        def atom(node):
            if isinstance(node, ast.Subscript):
                g = {'self.src_uids': 'src', 'self.dst_uids': 'dst'}.get(unparse(node.slice))
                base = unparse(node.value)
                nm = {f'{dv}.infectious': 'infectious', f'{dv}.rel_trans': 'relTrans', f'{dv}.susceptible': 'susceptible',
                      f'{dv}.rel_sus': 'relSus', 'self.eff_contacts': 'contacts'}.get(base)
                if g and nm:
                    groups[kind].add(g); return nm
            if isinstance(node, ast.Name) and kind == 'p':
                return {'beta': 'beta'}.get(node.id)
            return None
        return atom
    # p passed to p_acquire.set(p=...)
    sets = [n for n in ast.walk(lp) if isinstance(n, ast.Call) and unparse(n.func) == 'self.p_acquire.set']
    filt = [n for n in ast.walk(lp) if isinstance(n, ast.Call) and unparse(n.func) == 'self.p_acquire.filter']
    if len(sets) != 1 or len(filt) != 1:
        raise ExtractError('MixingPool.step: expected one p_acquire.set(p=...) and one p_acquire.filter(...)')
    pv = [k.value for k in sets[0].keywords if k.arg == 'p']
    if len(pv) != 1:
        raise ExtractError('MixingPool.step: p_acquire.set without p=')
    pnode = resolve(pv[0], env)
    # p = beta*trans*acq : find the names standing for trans / acq: a name whose definition is a np.mean call is `trans`
    trans_node = [None]; acq_names = {}

    def atom_p(node):
        if isinstance(node, ast.Name):
            if node.id == 'beta': return 'beta'
            d = env.get(node.id)
            if d is not None and isinstance(d, ast.Call) and unparse(d.func) in ('np.mean', 'numpy.mean') and len(d.args) == 1:
                if trans_node[0] is not None and trans_node[0] is not d:
                    raise ExtractError('MixingPool.step: two different means in p')
                trans_node[0] = d; return 'trans'
            if d is not None and not isinstance(d, ast.Call):
                acq_names[node.id] = d; return 'acq'
        return None
    p_expr = Tr({}, atom_p, 'MixingPool.step (p)')(pnode)
    if trans_node[0] is None or len(acq_names) != 1:
        raise ExtractError(f'MixingPool.step: p is not a product of beta, a mean over the source group and one per-target term: `{unparse(pnode)}`')
    trans_term = Tr(env, mk_atom('trans'), 'MixingPool.step (trans)')(trans_node[0].args[0])
    acq_node = list(acq_names.values())[0]
    acq = Tr(env, mk_atom('acq'), 'MixingPool.step (acq)')(acq_node)
    if len(groups['trans']) != 1 or len(groups['acq']) != 1:
        raise ExtractError(f'MixingPool.step: mixed index groups {groups}')
    fg = {'self.src_uids': 'src', 'self.dst_uids': 'dst'}.get(unparse(filt[0].args[0]) if filt[0].args else '')
    if fg is None:
        raise ExtractError('MixingPool.step: p_acquire.filter argument is not self.src_uids / self.dst_uids')
    # set_prognoses on the filtered cases
    return dict(p=p_expr, trans_term=trans_term, acq=acq, trans_group=groups['trans'].pop(), acq_group=groups['acq'].pop(),
                filter_group=fg, p_src=unparse(pnode), trans_src=unparse(trans_node[0]), acq_src=unparse(acq_node))


def bernoulli(src):
    fn = src.func(DST, 'ppf', 'bernoulli')
    names = [a.arg for a in fn.args.args]
    if len(names) != 2:
        raise ExtractError('bernoulli.ppf signature changed')
    env = local_env(fn)
    ret = [n for n in ast.walk(fn) if isinstance(n, ast.Return)]
    if len(ret) != 1:
        raise ExtractError('bernoulli.ppf: expected one return')

    def atom(node):
        s = unparse(node)
        if s == names[1]: return 'r'
        if s == 'self._pars.p': return 'p'
        return None
    return tr_compare(resolve(ret[0].value, env), Tr(env, atom, 'bernoulli.ppf'), 'bernoulli.ppf'), unparse(resolve(ret[0].value, env))



# ---------------------------------------------------------------------------
# group selectors of mixing pools (round 3)

class TrBool:
    """ Boolean expression translator (and / or / not / == / != / order comparisons / `is None`) over named atoms """
    def __init__(self, env, atoms, none_atoms, where):
        self.env = env; self.atoms = atoms; self.none_atoms = none_atoms; self.where = where

    def val(self, node):
        s = unparse(node)
        if s in self.atoms: return self.atoms[s]
        if isinstance(node, ast.Name) and node.id in self.env:
            return self.val(resolve(node, self.env))
        if isinstance(node, ast.Constant) and isinstance(node.value, int) and not isinstance(node.value, bool):
            return f'({node.value} : Int)'
        if isinstance(node, ast.UnaryOp) and isinstance(node.op, ast.USub) and isinstance(node.operand, ast.Constant) \
                and isinstance(node.operand.value, int):
            return f'(-{node.operand.value} : Int)'
        raise ExtractError(f'{self.where}: unsupported operand `{s[:60]}`')

    def __call__(self, node):
        if isinstance(node, ast.Name) and node.id in self.env:
            return self(resolve(node, self.env))
        s = unparse(node)
        if s in self.atoms and self.atoms[s] in ('doCache',):
            return self.atoms[s]
        if isinstance(node, ast.Constant) and isinstance(node.value, bool):
            return 'true' if node.value else 'false'
        if isinstance(node, ast.BoolOp):
            op = ' && ' if isinstance(node.op, ast.And) else ' || '
            return '(' + op.join(self(v) for v in node.values) + ')'
        if isinstance(node, ast.UnaryOp) and isinstance(node.op, ast.Not):
            return f'(!{self(node.operand)})'
        if isinstance(node, ast.Compare) and len(node.ops) == 1:
            op = node.ops[0]; l, r = node.left, node.comparators[0]
            if isinstance(op, (ast.Is, ast.IsNot)) and isinstance(r, ast.Constant) and r.value is None:
                a = self.none_atoms.get(unparse(resolve(l, self.env)))
                if a is None:
                    raise ExtractError(f'{self.where}: `{s}` tests an unknown value against None')
                return a if isinstance(op, ast.Is) else f'(!{a})'
            if isinstance(op, ast.Eq): return f'({self.val(l)} == {self.val(r)})'
            if isinstance(op, ast.NotEq): return f'({self.val(l)} != {self.val(r)})'
            if type(op) in CMP: return f'decide ({self.val(l)} {CMP[type(op)]} {self.val(r)})'
        raise ExtractError(f'{self.where}: unsupported condition `{s[:80]}`')


def age_group(src):
    """ AgeGroup.__call__ / __init__: the recompute test, the band predicates, what the recompute branch stores """
    fn = src.func(NET, '__call__', 'AgeGroup')
    names = [a.arg for a in fn.args.args]
    if len(names) != 2 or fn.args.vararg or fn.args.kwarg:
        raise ExtractError(f'AgeGroup.__call__: expected (self, sim), got {names}')
    me, sim = names
    body = [n for n in fn.body if not (isinstance(n, ast.Expr) and isinstance(n.value, ast.Constant))]
    if not body or not (isinstance(body[-1], ast.Return) and body[-1].value is not None and unparse(body[-1].value) == f'{me}.uids'):
        raise ExtractError('AgeGroup.__call__: does not end with `return self.uids`')
    if sum(isinstance(n, ast.Return) for n in ast.walk(fn)) != 1:
        raise ExtractError('AgeGroup.__call__: more than one return')
    ifs = [n for n in body[:-1] if isinstance(n, ast.If)]
    pre = [n for n in body[:-1] if not isinstance(n, ast.If)]
    if len(ifs) != 1 or ifs[0].orelse:
        raise ExtractError('AgeGroup.__call__: expected exactly one `if <recompute>:` without else before the return')
    env = {}
    for n in pre:   # locals feeding the test (single assignment, simple names only)
        if isinstance(n, ast.Assign) and len(n.targets) == 1 and isinstance(n.targets[0], ast.Name) and n.targets[0].id not in env:
            env[n.targets[0].id] = n.value
        else:
            raise ExtractError(f'AgeGroup.__call__: unsupported statement before the recompute test: `{unparse(n)[:60]}`')
    atoms = {f'{me}.do_cache': 'doCache', f'{me}.ti_cache': 'tiCache', f'{sim}.ti': 'ti'}
    test = TrBool(env, atoms, {f'{me}.uids': 'uidsIsNone'}, 'AgeGroup.__call__')(ifs[0].test)
    # the recompute branch
    age = f'{sim}.people.age'
    grp = None; low = None; high = None; stores = []

    def band(node, bound):
        if not (isinstance(node, ast.Compare) and len(node.ops) == 1 and type(node.ops[0]) in CMP):
            raise ExtractError(f'AgeGroup.__call__: `{unparse(node)[:60]}` is not a single comparison')
        l, r = unparse(node.left), unparse(node.comparators[0])
        op = type(node.ops[0])
        if (l, r) == (age, f'{me}.{bound}'):
            return f'decide (age {CMP[op]} {bound})'
        if (l, r) == (f'{me}.{bound}', age):
            return f'decide ({bound} {CMP[op]} age)'
        raise ExtractError(f'AgeGroup.__call__: `{unparse(node)[:60]}` does not compare sim.people.age with self.{bound}')

    for n in ifs[0].body:
        if isinstance(n, ast.Assign) and len(n.targets) == 1 and isinstance(n.targets[0], ast.Name) and grp is None:
            grp = n.targets[0].id; low = band(n.value, 'low')
        elif isinstance(n, ast.If) and grp is not None and high is None:
            t = n.test
            if not (isinstance(t, ast.Compare) and len(t.ops) == 1 and isinstance(t.ops[0], ast.IsNot) and unparse(t.left) == f'{me}.high'
                    and isinstance(t.comparators[0], ast.Constant) and t.comparators[0].value is None) or n.orelse or len(n.body) != 1:
                raise ExtractError(f'AgeGroup.__call__: upper bound is not guarded by `if self.high is not None:`')
            a = n.body[0]
            if not (isinstance(a, ast.Assign) and unparse(a.targets[0]) == grp and isinstance(a.value, ast.BinOp) and isinstance(a.value.op, ast.BitAnd)):
                raise ExtractError(f'AgeGroup.__call__: `{unparse(a)[:60]}` is not `{grp} = {grp} & (...)`')
            l, r = a.value.left, a.value.right
            if unparse(l) == grp: high = band(r, 'high')
            elif unparse(r) == grp: high = band(l, 'high')
            else: raise ExtractError(f'AgeGroup.__call__: `{unparse(a)[:60]}` does not narrow `{grp}`')
        elif isinstance(n, ast.Assign) and len(n.targets) == 1 and unparse(n.targets[0]) == f'{me}.uids':
            if grp is None or unparse(n.value) not in (f'ss.uids({grp})', f'uids({grp})', f'{grp}.uids'):
                raise ExtractError(f'AgeGroup.__call__: `{unparse(n)[:60]}` does not store the uids of the computed mask')
            stores.append('uids')
        elif isinstance(n, ast.Assign) and len(n.targets) == 1 and unparse(n.targets[0]) == f'{me}.ti_cache':
            if unparse(n.value) != f'{sim}.ti':
                raise ExtractError(f'AgeGroup.__call__: ti_cache is set to `{unparse(n.value)[:40]}`, not sim.ti')
            stores.append('ti_cache')
        else:
            raise ExtractError(f'AgeGroup.__call__: unsupported statement in the recompute branch: `{unparse(n)[:60]}`')
    if low is None or high is None or 'uids' not in stores:
        raise ExtractError('AgeGroup.__call__: lower bound, guarded upper bound or the store of self.uids not found')
    # __init__: initial cache state and the default of do_cache
    init = src.func(NET, '__init__', 'AgeGroup')
    iargs = [a.arg for a in init.args.args]
    if iargs[:3] != ['self', 'low', 'high'] or 'do_cache' not in iargs:
        raise ExtractError(f'AgeGroup.__init__ signature changed: {iargs}')
    dflt = init.args.defaults[iargs.index('do_cache') - (len(iargs) - len(init.args.defaults))] if init.args.defaults else None
    if not (isinstance(dflt, ast.Constant) and isinstance(dflt.value, bool)):
        raise ExtractError('AgeGroup.__init__: default of do_cache is not a literal bool')
    ini = {}
    for n in init.body:
        if isinstance(n, ast.Assign) and len(n.targets) == 1 and isinstance(n.targets[0], ast.Attribute) and unparse(n.targets[0].value) == 'self':
            ini[n.targets[0].attr] = n.value
    for k, want in (('low', 'low'), ('high', 'high'), ('do_cache', 'do_cache')):
        if k not in ini or unparse(ini[k]) != want:
            raise ExtractError(f'AgeGroup.__init__: self.{k} is not the constructor argument')
    if 'uids' not in ini or not (isinstance(ini['uids'], ast.Constant) and ini['uids'].value is None):
        raise ExtractError('AgeGroup.__init__: self.uids does not start as None')
    if 'ti_cache' not in ini:
        raise ExtractError('AgeGroup.__init__: self.ti_cache not initialised')
    tc0 = lit_rat(ini['ti_cache'])
    if tc0.denominator != 1:
        raise ExtractError('AgeGroup.__init__: ti_cache does not start at an integer')
    return dict(test=test, test_src=unparse(ifs[0].test) + (' where ' + '; '.join(f'{k} = {unparse(v)}' for k, v in env.items()) if env else ''),
                low=low, high=high, stores=sorted(stores), default_cache=bool(dflt.value), init_ti=int(tc0))


def pool_groups(src):
    """ MixingPool.get_uids dispatch, which parameter feeds which group in step(), remove_uids keys, MixingPools wiring """
    fn = src.func(NET, 'get_uids', 'MixingPool')
    names = [a.arg for a in fn.args.args]
    if len(names) != 2:
        raise ExtractError(f'MixingPool.get_uids signature changed: {names}')
    x = names[1]
    disp = []
    node = [n for n in fn.body if isinstance(n, ast.If)]
    if len(node) != 1:
        raise ExtractError('MixingPool.get_uids: expected one if/elif chain')
    node = node[0]
    while True:
        t = unparse(node.test)
        kind = {f'{x} is None': 'none', f'callable({x})': 'callable', f'isinstance({x}, ss.uids)': 'uids'}.get(t)
        if kind is None or len(node.body) != 1 or not isinstance(node.body[0], ast.Return):
            raise ExtractError(f'MixingPool.get_uids: unsupported branch `{t[:60]}`')
        r = unparse(node.body[0].value)
        what = {'self.sim.people.auids': 'auids', f'{x}(self.sim)': 'call', x: 'same'}.get(r)
        if what is None:
            raise ExtractError(f'MixingPool.get_uids: branch `{t}` returns `{r[:60]}`')
        disp.append((kind, what))
        if len(node.orelse) == 1 and isinstance(node.orelse[0], ast.If):
            node = node.orelse[0]
        elif not node.orelse:
            break
        else:
            raise ExtractError('MixingPool.get_uids: unsupported else branch')
    # step(): self.src_uids = self.get_uids(self.pars.src) ...
    st = src.func(NET, 'step', 'MixingPool')
    pars = []
    for n in ast.walk(st):
        if isinstance(n, ast.Assign) and len(n.targets) == 1 and unparse(n.targets[0]) in ('self.src_uids', 'self.dst_uids'):
            v = n.value
            if not (isinstance(v, ast.Call) and unparse(v.func) == 'self.get_uids' and len(v.args) == 1 and not v.keywords
                    and unparse(v.args[0]) in ('self.pars.src', 'self.pars.dst')):
                raise ExtractError(f'MixingPool.step: `{unparse(n)[:70]}` is not self.get_uids(self.pars.src|dst)')
            pars.append((n.targets[0].attr, unparse(v.args[0]).split('.')[-1]))
    if sorted(p[0] for p in pars) != ['dst_uids', 'src_uids']:
        raise ExtractError(f'MixingPool.step: src_uids / dst_uids are not each assigned once from get_uids: {pars}')
    # remove_uids(): for key in [...]: if isinstance(self.pars[key], ss.uids): self.pars[key] = inds.remove(uids)
    rm = src.func(NET, 'remove_uids', 'MixingPool')
    rnames = [a.arg for a in rm.args.args]
    loops = [n for n in rm.body if isinstance(n, ast.For)]
    keys = None
    if len(loops) == 1 and isinstance(loops[0].iter, (ast.List, ast.Tuple)) and isinstance(loops[0].target, ast.Name) \
            and all(isinstance(e, ast.Constant) and isinstance(e.value, str) for e in loops[0].iter.elts):
        kv = loops[0].target.id
        env = local_env(loops[0])
        for n in ast.walk(loops[0]):
            if isinstance(n, ast.Assign) and unparse(n.targets[0]) == f'self.pars[{kv}]':
                v = n.value
                if isinstance(v, ast.Call) and isinstance(v.func, ast.Attribute) and v.func.attr == 'remove' and len(v.args) == 1 \
                        and unparse(v.args[0]) == rnames[1] and unparse(resolve(v.func.value, env)) == f'self.pars[{kv}]':
                    keys = [e.value for e in loops[0].iter.elts]
    if keys is None:
        raise ExtractError('MixingPool.remove_uids: `for key in [...]: self.pars[key] = self.pars[key].remove(uids)` not found')
    # MixingPools.init_pre: MixingPool(..., src=<value of p.src loop>, dst=<value of p.dst loop>, contacts=p.contacts[i, j])
    ip = src.func(NET, 'init_pre', 'MixingPools')
    var = {}
    for n in ast.walk(ip):
        if isinstance(n, ast.For) and isinstance(n.target, ast.Tuple) and len(n.target.elts) == 3 and isinstance(n.iter, ast.Call):
            it = unparse(n.iter)
            for which in ('src', 'dst'):
                if it in (f'p.{which}.enumitems()', f'self.pars.{which}.enumitems()'):
                    i, k, v = [unparse(e) for e in n.target.elts]
                    var[i] = f'{which}-index'; var[k] = f'{which}-key'; var[v] = which
    calls = [n for n in ast.walk(ip) if isinstance(n, ast.Call) and unparse(n.func) in ('MixingPool', 'ss.MixingPool')]
    if len(calls) != 1:
        raise ExtractError('MixingPools.init_pre: expected one MixingPool(...) construction')
    env = local_env(ip)
    wiring = []
    for kw in calls[0].keywords:
        if kw.arg in ('src', 'dst'):
            wiring.append((kw.arg, var.get(unparse(kw.value), '?' + unparse(kw.value)[:30])))
    cs = [n for n in ast.walk(ip) if isinstance(n, ast.Subscript) and unparse(n.value) in ('p.contacts', 'self.pars.contacts')]
    if len(cs) != 1 or not isinstance(cs[0].slice, ast.Tuple) or len(cs[0].slice.elts) != 2:
        raise ExtractError('MixingPools.init_pre: contacts[i, j] not found')
    wiring.append(('contacts', ','.join(var.get(unparse(e), '?') for e in cs[0].slice.elts)))
    if sorted(w[0] for w in wiring) != ['contacts', 'dst', 'src']:
        raise ExtractError(f'MixingPools.init_pre: MixingPool(...) is not given src= and dst=: {wiring}')
    return dict(dispatch=disp, pars=sorted(pars, reverse=True), remove_keys=keys, wiring=sorted(wiring))


def pools_container(src):
    """ MixingPools (plural): `remove_uids` and `step` must reach EVERY sub-pool: `for mp in self.pools: mp.<method>(<args>)` """
    out = {}
    for meth, nargs in (('remove_uids', 1), ('step', 0)):
        fn = src.func(NET, meth, 'MixingPools')
        args = [a.arg for a in fn.args.args][1:]
        ok = False
        body = [n for n in fn.body if not (isinstance(n, ast.Expr) and isinstance(n.value, ast.Constant)) and not (isinstance(n, ast.Return) and n.value is None)]
        if len(body) == 1 and isinstance(body[0], ast.For) and unparse(body[0].iter) == 'self.pools' and isinstance(body[0].target, ast.Name) \
                and len(body[0].body) == 1 and isinstance(body[0].body[0], ast.Expr) and isinstance(body[0].body[0].value, ast.Call) and not body[0].orelse:
            c = body[0].body[0].value
            ok = (unparse(c.func) == f'{body[0].target.id}.{meth}' and [unparse(a) for a in c.args] == args[:nargs] and len(args) == nargs and not c.keywords)
        out[meth] = (ok, ' '.join(' ; '.join(unparse(n) for n in body).split())[:160])
    return out


TIME = 'starsim/time.py'


def timepar_set(src):
    """ `TimePar.set`: under which test a supplied base value `v` is stored, as a Boolean function of (the argument is None,
        the argument is zero); and what the in-place operators hand to `set` """
    fn = src.func(TIME, 'set', 'TimePar')
    names = [a.arg for a in fn.args.args]
    if 'v' not in names:
        raise ExtractError(f'TimePar.set signature changed: {names}')
    guard = None; var = None
    for n in ast.walk(fn):
        if isinstance(n, ast.If) and not n.orelse and len(n.body) == 1:
            b = n.body[0]
            if isinstance(b, ast.Assign) and len(b.targets) == 1 and unparse(b.targets[0]) == 'self.v' and unparse(b.value) == 'v':
                guard, var = n.test, 'v'
            elif isinstance(b, ast.Expr) and isinstance(b.value, ast.Call) and unparse(b.value.func) == 'setattr' and len(b.value.args) == 3 \
                    and unparse(b.value.args[0]) == 'self' and isinstance(b.value.args[2], ast.Name):
                guard, var = n.test, b.value.args[2].id      # generic loop over the supplied arguments: the same test for every one, `v` included
    if guard is None:
        raise ExtractError('TimePar.set: no `if <test>: self.v = v` found')

    def tr(node):
        t = unparse(node)
        if t in (f'{var} is not None', f'not {var} is None', f'not ({var} is None)', f'{var} != None'): return '(!isNone)'
        if t in (f'{var} is None', f'{var} == None'): return 'isNone'
        if t in (var, f'bool({var})', f'np.any({var})', f'any({var})', f'{var} != 0', f'np.any({var} != 0)'): return '(!isNone && !isZero)'     # truthiness: None and 0 are both falsy
        if t in (f'not {var}', f'{var} == 0'): return '(isNone || isZero)' if t.startswith('not') else '(!isNone && isZero)'
        if isinstance(node, ast.BoolOp):
            return '(' + (' && ' if isinstance(node.op, ast.And) else ' || ').join(tr(v) for v in node.values) + ')'
        if isinstance(node, ast.UnaryOp) and isinstance(node.op, ast.Not):
            return f'(!{tr(node.operand)})'
        raise ExtractError(f'TimePar.set: unsupported test `{t[:60]}` on the supplied value')
    inplace = []
    for meth in ('__imul__', '__itruediv__', '__mul__', '__rmul__'):
        m = src.func(TIME, meth, 'TimePar')
        rets = [n for n in m.body if isinstance(n, ast.Return)]
        if len(rets) != 1:
            raise ExtractError(f'TimePar.{meth}: expected a single return')
        inplace.append((meth, unparse(rets[0].value)))
    return dict(test=tr(guard), test_src=unparse(guard), inplace=inplace)


@generator('TransmissionFacts', [DIS, NET, DST, TIME])
def gen(src):
    pc = pools_container(src)
    ts = timepar_set(src)
    cmp, order, cmp_src = kernel(src)
    inf = infect(src)
    plain, plain_src = net_beta(src, 'Network')
    sexual, sexual_src = net_beta(src, 'SexualNetwork')
    sexual_g, _ = net_beta(src, 'SexualNetwork', generic=True)
    cong, cong_src, split = outcomes(src)
    dyn = [n for n in src.cls(NET, 'DynamicNetwork').body if isinstance(n, ast.FunctionDef) and n.name == 'net_beta']
    if dyn:
        raise ExtractError('DynamicNetwork now overrides net_beta (not modelled)')
    pl = pool(src)
    bern, bern_src = bernoulli(src)
    ag = age_group(src)
    pg = pool_groups(src)
    pairs = lambda l: ', '.join(f'({lean_str(a)}, {lean_str(b)})' for a, b in l)
    dirs = ', '.join(f'({lean_str(s)}, {lean_str(t)}, {b})' for s, t, b in inf['dirs'])
    body = f'''set_option linter.unusedVariables false
namespace StarsimModel.Gen
/-- `Infection.compute_transmission`: the mask `{cmp_src}` (parameters by position, locals inlined) -/
def transmits (relTrans relSus : Nat → Rat) (src trg : Nat) (betaPerDt r : Rat) : Bool :=
  {cmp}
/-- `Infection.compute_transmission`: which endpoint each returned array is taken from -/
def kernelReturns : List String := [{', '.join(lean_str(o) for o in order)}]
/-- `Infection.infect`: third kernel argument, per agent: `{inf['eff_trans_src']}` -/
def effTrans (susceptible infectious relSus relTrans : Rat) : Rat :=
  {inf['eff_trans']}
/-- `Infection.infect`: fourth kernel argument, per agent: `{inf['eff_sus_src']}` -/
def effSus (susceptible infectious relSus relTrans : Rat) : Rat :=
  {inf['eff_sus']}
/-- `Infection.infect`: the directions tried per network, in order: (source endpoint, target endpoint, index into betamap[net]) -/
def infectDirections : List (String × String × Nat) := [{dirs}]
/-- `Infection.infect`: `new_cases, inds = new_cases.unique(return_index=True)` and `sources = cat(sources)[inds]` present -/
def infectDedupKeepsFirst : Bool := {'true' if inf['dedup'] else 'false'}
/-- `Infection.infect`: `if beta:` around the kernel call (a zero-beta direction draws no random numbers) -/
def infectSkipsZeroBeta : Bool := {'true' if inf['skips'] else 'false'}
/-- `Network.net_beta`: `{plain_src}` -/
def netBetaPlain (edgeBeta diseaseBeta : Rat) : Rat :=
  {plain}
/-- `SexualNetwork.net_beta`: `{sexual_src}` (`actsDt` = acts·dt when that is a whole number) -/
def netBetaSexual (edgeBeta diseaseBeta : Rat) (actsDt : Nat) : Rat :=
  {sexual}
/-- `SexualNetwork.net_beta`, the same expression over any number type with a power function (instantiated at `Float` by
    the model and at `ℝ` by the lemmas; `acts`, `dt` arbitrary) -/
def netBetaSexualG {{α : Type}} [Mul α] [Sub α] [OfNat α 1] (pow : α → α → α) (edgeBeta diseaseBeta acts dt : α) : α :=
  {sexual_g}
/-- `Infection.set_outcomes`: `congenital = {cong_src}` -/
def isCongenital (age : Rat) : Bool :=
  {cong}
/-- `Infection.set_outcomes`: which method receives which part of the new cases -/
def outcomeSplit : List String := [{', '.join(lean_str(x) for x in split)}]
/-- `MixingPool.step`: the per-source term averaged by `{pl['trans_src']}` -/
def poolTransTerm (infectious relTrans : Rat) : Rat :=
  {pl['trans_term']}
/-- `MixingPool.step`: per-target term `{pl['acq_src']}` -/
def poolAcq (contacts susceptible relSus : Rat) : Rat :=
  {pl['acq']}
/-- `MixingPool.step`: `p = {pl['p_src']}` -/
def poolP (beta trans acq : Rat) : Rat :=
  {pl['p']}
/-- `MixingPool.step`: group indexing the averaged term, the per-target term, and the Bernoulli filter -/
def poolGroups : List String := [{lean_str(pl['trans_group'])}, {lean_str(pl['acq_group'])}, {lean_str(pl['filter_group'])}]
/-- `bernoulli.ppf`: `{bern_src}` -/
def bernoulliAccept (r p : Rat) : Bool :=
  {bern}
/-- `AgeGroup.__call__`: the group is recomputed iff `{ag['test_src']}` -/
def ageGroupRecompute (doCache : Bool) (tiCache ti : Int) (uidsIsNone : Bool) : Bool :=
  {ag['test']}
/-- `AgeGroup.__call__`: lower bound of the band -/
def ageGroupInLow (age low : Rat) : Bool :=
  {ag['low']}
/-- `AgeGroup.__call__`: upper bound of the band (applied only `if self.high is not None`) -/
def ageGroupInHigh (age high : Rat) : Bool :=
  {ag['high']}
/-- `AgeGroup.__call__`: attributes stored by the recompute branch -/
def ageGroupStores : List String := [{', '.join(lean_str(x) for x in ag['stores'])}]
/-- `AgeGroup.__init__`: `self.ti_cache` of a new group, and the default of `do_cache` -/
def ageGroupInitTiCache : Int := {ag['init_ti']}
def ageGroupDefaultDoCache : Bool := {'true' if ag['default_cache'] else 'false'}
/-- `MixingPool.get_uids`: (test on the group parameter, what is returned), in order -/
def poolGetUids : List (String × String) := [{pairs(pg['dispatch'])}]
/-- `MixingPool.step`: (group attribute, parameter it is resolved from) -/
def poolGroupPars : List (String × String) := [{pairs(pg['pars'])}]
/-- `MixingPool.remove_uids`: parameters from which dead agents are removed when given as explicit uids -/
def poolRemoveKeys : List String := [{', '.join(lean_str(x) for x in pg['remove_keys'])}]
/-- `MixingPools.init_pre`: what each sub-pool is constructed from -/
def poolsWiring : List (String × String) := [{pairs(pg['wiring'])}]
/-- `MixingPools.remove_uids` is `{pc['remove_uids'][1]}`: the removal is forwarded to EVERY sub-pool -/
def poolsRemoveForwards : Bool := {'true' if pc['remove_uids'][0] else 'false'}
/-- `MixingPools.step` is `{pc['step'][1]}`: every sub-pool is stepped -/
def poolsStepForwards : Bool := {'true' if pc['step'][0] else 'false'}
/-- `TimePar.set`: a supplied base value is stored iff `{ts['test_src']}` (as a function of: the argument is None, the argument is zero) -/
def timeparSetStores (isNone isZero : Bool) : Bool :=
  {ts['test']}
/-- `TimePar`: what the scaling operators return (all go through `set`) -/
def timeparScaling : List (String × String) := [{pairs(ts['inplace'])}]
end StarsimModel.Gen
'''
    facts = dict(pools_remove=pc['remove_uids'][1], pools_step=pc['step'][1], timepar_set_test=ts['test_src'], timepar_scaling=[list(x) for x in ts['inplace']],
                 age_group_recompute=ag['test_src'], age_group_low=ag['low'], age_group_high=ag['high'], age_group_init_ti=ag['init_ti'],
                 pool_get_uids=[list(x) for x in pg['dispatch']], pool_group_pars=[list(x) for x in pg['pars']],
                 pool_remove_keys=pg['remove_keys'], pools_wiring=[list(x) for x in pg['wiring']],
                 transmits=cmp_src, kernel_returns=order, eff_trans=inf['eff_trans_src'], eff_sus=inf['eff_sus_src'],
                 directions=[list(d) for d in inf['dirs']], dedup=inf['dedup'], skips_zero_beta=inf['skips'],
                 net_beta_plain=plain_src, net_beta_sexual=sexual_src, pool_p=pl['p_src'], pool_trans=pl['trans_src'],
                 pool_acq=pl['acq_src'], pool_groups=[pl['trans_group'], pl['acq_group'], pl['filter_group']], bernoulli=bern_src,
                 congenital=cong_src, outcome_split=split)
    return body, facts
