"""
Extractor for C12: the arithmetic of the transmission kernel, translated from source into Lean functions.

    starsim/disease.py        Infection.compute_transmission   -> Gen.transmits, Gen.kernelReturns
                              Infection.infect                 -> Gen.effTrans, Gen.effSus, Gen.infectDirections,
                                                                  Gen.infectDedupKeepsFirst, Gen.infectSkipsZeroBeta
    starsim/networks.py       Network.net_beta                 -> Gen.netBetaPlain
                              SexualNetwork.net_beta           -> Gen.netBetaSexual
                              MixingPool.step                  -> Gen.poolTransTerm, Gen.poolAcq, Gen.poolP, group names
    starsim/distributions.py  bernoulli.ppf                    -> Gen.bernoulliAccept

The model (Model/Transmission.lean) *uses* these functions, so an edit of the source expressions changes the model
the theorems are about.  Local variable names are irrelevant (single-assignment locals are inlined symbolically,
parameters are taken by position); operand order is kept as written (the spec lemmas are proved by `ring`).
Anything outside products / sums / differences / one power of the recognised atoms raises ExtractError.
"""
import ast
from harness.extract import generator, ExtractError, lean_rat, lean_str, lit_rat, unparse

DIS = 'starsim/disease.py'
NET = 'starsim/networks.py'
DST = 'starsim/distributions.py'


def local_env(fn, skip_args=True):
    """ name -> value node for every `name = value` in fn (None when assigned more than once / by other means) """
    env = {}
    for n in ast.walk(fn):
        if isinstance(n, ast.Assign) and len(n.targets) == 1 and isinstance(n.targets[0], ast.Name):
            k = n.targets[0].id
            env[k] = None if k in env else n.value
        elif isinstance(n, (ast.AugAssign, ast.AnnAssign)) and isinstance(n.target, ast.Name):
            env[n.target.id] = None
    return env


def resolve(node, env, depth=0):
    """ Follow single-assignment local names """
    while isinstance(node, ast.Name) and node.id in env and depth < 20:
        if env[node.id] is None:
            raise ExtractError(f'local `{node.id}` is assigned more than once; cannot inline it')
        node = env[node.id]; depth += 1
    return node


class Tr:
    """ Expression translator: atoms are decided by a callback on the (resolved) node """
    def __init__(self, env, atom, where, generic=False):
        self.env = env; self.atom = atom; self.where = where; self.generic = generic

    def __call__(self, node):
        a = self.atom(node)
        if a is not None:
            return a
        if isinstance(node, ast.Name) and node.id in self.env:
            return self(resolve(node, self.env))
        if isinstance(node, ast.BinOp):
            if isinstance(node.op, ast.Pow) and self.generic:
                return f'(pow {self(node.left)} {self(node.right)})'
            if isinstance(node.op, ast.Pow):
                e = self.atom(node.right)
                if e is None and isinstance(node.right, ast.Name):
                    e = self.atom(resolve(node.right, self.env))
                if e != 'actsDt':
                    raise ExtractError(f'{self.where}: unsupported exponent `{unparse(node.right)}`')
                return f'({self(node.left)} ^ actsDt)'
            op = {ast.Mult: '*', ast.Add: '+', ast.Sub: '-'}.get(type(node.op))
            if op is None:
                raise ExtractError(f'{self.where}: unsupported operator in `{unparse(node)}`')
            return f'({self(node.left)} {op} {self(node.right)})'
        if isinstance(node, ast.UnaryOp) and isinstance(node.op, ast.USub):
            return f'(-{self(node.operand)})'
        if isinstance(node, ast.Constant) and isinstance(node.value, (int, float)) and not isinstance(node.value, bool):
            if self.generic:
                if node.value == 1: return '(1 : α)'
                raise ExtractError(f'{self.where}: constant {node.value!r} not supported in the generic translation')
            return lean_rat(lit_rat(node))
        raise ExtractError(f'{self.where}: unsupported expression `{unparse(node)[:80]}`')


CMP = {ast.Gt: '>', ast.Lt: '<', ast.GtE: '≥', ast.LtE: '≤'}


def tr_compare(node, tr, where):
    if not (isinstance(node, ast.Compare) and len(node.ops) == 1 and type(node.ops[0]) in CMP):
        raise ExtractError(f'{where}: expected a single comparison, got `{unparse(node)[:80]}`')
    return f'decide ({tr(node.left)} {CMP[type(node.ops[0])]} {tr(node.comparators[0])})'


# ---------------------------------------------------------------------------

def kernel(src):
    fn = src.func(DIS, 'compute_transmission', 'Infection')
    names = [a.arg for a in fn.args.args]
    if len(names) != 6 or fn.args.vararg or fn.args.kwarg:
        raise ExtractError(f'compute_transmission: expected 6 positional parameters, got {names}')
    p_src, p_trg, p_rt, p_rs, p_beta, p_rand = names
    env = local_env(fn)
    for nm in names:
        if nm in env:
            raise ExtractError(f'compute_transmission: parameter `{nm}` is re-assigned')

    def atom(node):
        if isinstance(node, ast.Name):
            if node.id == p_beta: return 'betaPerDt'
            if node.id == p_rand: return 'r'
        if isinstance(node, ast.Subscript) and isinstance(node.value, ast.Name) and isinstance(node.slice, ast.Name):
            arr = {p_rt: 'relTrans', p_rs: 'relSus'}.get(node.value.id)
            idx = {p_src: 'src', p_trg: 'trg'}.get(node.slice.id)
            if arr and idx:
                return f'{arr} {idx}'
        return None
    tr = Tr(env, atom, 'compute_transmission')
    ret = [n for n in ast.walk(fn) if isinstance(n, ast.Return)]
    if len(ret) != 1 or not isinstance(ret[0].value, ast.Tuple) or len(ret[0].value.elts) != 2:
        raise ExtractError('compute_transmission: expected a single `return a, b`')
    order = []; masks = []
    for el in ret[0].value.elts:
        el = resolve(el, env)
        if not (isinstance(el, ast.Subscript) and isinstance(el.value, ast.Name) and el.value.id in (p_src, p_trg)):
            raise ExtractError(f'compute_transmission: returned value `{unparse(el)}` is not src[mask] / trg[mask]')
        order.append('trg' if el.value.id == p_trg else 'src')
        masks.append(resolve(el.slice, env))
    if unparse(masks[0]) != unparse(masks[1]):
        raise ExtractError('compute_transmission: sources and targets are filtered by different masks')
    cmp = tr_compare(masks[0], tr, 'compute_transmission')
    return cmp, order, unparse(masks[0])


def infect(src):
    fn = src.func(DIS, 'infect', 'Infection')
    env = local_env(fn)
    calls = [n for n in ast.walk(fn) if isinstance(n, ast.Call) and isinstance(n.func, ast.Attribute) and n.func.attr == 'compute_transmission']
    if len(calls) != 1:
        raise ExtractError(f'infect: expected exactly one call of compute_transmission, found {len(calls)}')
    call = calls[0]
    args = call.args
    if len(args) == 1 and isinstance(args[0], ast.Starred):
        tup = resolve(args[0].value, env)
        if not isinstance(tup, (ast.Tuple, ast.List)):
            raise ExtractError('infect: *args of compute_transmission is not a literal tuple')
        args = tup.elts
    if len(args) != 6 or call.keywords:
        raise ExtractError(f'infect: compute_transmission called with {len(args)} positional arguments')
    a_src, a_trg, a_rt, a_rs, a_beta, a_rand = args

    def factor(node, what):
        node = resolve(node, env)
        if isinstance(node, ast.Call) and isinstance(node.func, ast.Attribute) and node.func.attr == 'asnew' and len(node.args) == 1:
            node = node.args[0]
        atoms = {'self.infectious': 'infectious', 'self.susceptible': 'susceptible', 'self.rel_sus': 'relSus',
                 'self.rel_trans': 'relTrans'}
        tr = Tr(env, lambda n: atoms.get(unparse(n)) if isinstance(n, ast.Attribute) else None, f'infect ({what})')
        return tr(node), unparse(node)
    eff_trans, eff_trans_src = factor(a_rt, 'rel_trans')
    eff_sus, eff_sus_src = factor(a_rs, 'rel_sus')

    # the direction loop:  for src, trg, beta in [p1p2b0, p2p1b1]
    loops = [n for n in ast.walk(fn) if isinstance(n, ast.For) and any(c is call for c in ast.walk(n))]
    loop = None
    for lp in loops:  # innermost loop containing the call
        if loop is None or any(c is lp for c in ast.walk(loop)):
            loop = lp
    if loop is None or not (isinstance(loop.target, ast.Tuple) and len(loop.target.elts) == 3 and all(isinstance(e, ast.Name) for e in loop.target.elts)):
        raise ExtractError('infect: the kernel call is not inside `for src, trg, beta in [...]`')
    l_src, l_trg, l_beta = [e.id for e in loop.target.elts]
    if not (isinstance(a_src, ast.Name) and isinstance(a_trg, ast.Name)):
        raise ExtractError('infect: kernel src/trg arguments are not the loop variables')
    swap = (a_src.id, a_trg.id) == (l_trg, l_src)
    if not swap and (a_src.id, a_trg.id) != (l_src, l_trg):
        raise ExtractError('infect: kernel src/trg arguments are not the loop variables')
    it = resolve(loop.iter, env)
    if not isinstance(it, (ast.List, ast.Tuple)):
        raise ExtractError('infect: direction loop does not iterate over a literal list')
    dirs = []
    for row in it.elts:
        row = resolve(row, env)
        if not (isinstance(row, (ast.List, ast.Tuple)) and len(row.elts) == 3):
            raise ExtractError('infect: direction row is not [source, target, beta]')
        s, t, b = [resolve(e, env) for e in row.elts]
        def field(n):
            if isinstance(n, ast.Attribute) and n.attr in ('p1', 'p2'):
                return n.attr
            raise ExtractError(f'infect: direction endpoint `{unparse(n)}` is not edges.p1 / edges.p2')
        if not (isinstance(b, ast.Subscript) and isinstance(b.slice, ast.Constant) and b.slice.value in (0, 1)
                and isinstance(b.value, ast.Subscript)):
            raise ExtractError(f'infect: direction beta `{unparse(b)}` is not betamap[key][0|1]')
        sf, tf = field(s), field(t)
        if swap: sf, tf = tf, sf
        dirs.append((sf, tf, int(b.slice.value)))
    # beta_per_dt = net.net_beta(disease_beta=beta) with the loop's beta
    nb = resolve(a_beta, env)
    ok = isinstance(nb, ast.Call) and isinstance(nb.func, ast.Attribute) and nb.func.attr == 'net_beta'
    if ok:
        vals = [k.value for k in nb.keywords if k.arg == 'disease_beta'] + list(nb.args[:1])
        ok = len(vals) >= 1 and isinstance(vals[0], ast.Name) and vals[0].id == l_beta
    if not ok:
        raise ExtractError(f'infect: beta_per_dt is not net.net_beta(disease_beta=<loop beta>): `{unparse(nb)[:80]}`')
    # number of times net_beta result is multiplied etc. is covered by the translation above (it must be the bare call)
    rv = resolve(a_rand, env)
    if not (isinstance(rv, ast.Call) and isinstance(rv.func, ast.Attribute) and rv.func.attr == 'rvs'
            and unparse(rv.func.value) == 'self.trans_rng'):
        raise ExtractError(f'infect: random numbers are not self.trans_rng.rvs(...): `{unparse(rv)[:80]}`')
    # guard `if beta:` directly around the call
    skips = False
    for n in ast.walk(loop):
        if isinstance(n, ast.If) and isinstance(n.test, ast.Name) and n.test.id == l_beta and any(c is call for c in ast.walk(n)):
            skips = True
    # dedup: X, inds = Y.unique(return_index=True); sources = cat(sources)[inds]
    dedup = False; inds_name = None
    for n in ast.walk(fn):
        if isinstance(n, ast.Assign) and isinstance(n.targets[0], ast.Tuple) and len(n.targets[0].elts) == 2 \
                and isinstance(n.value, ast.Call) and isinstance(n.value.func, ast.Attribute) and n.value.func.attr == 'unique' \
                and any(k.arg == 'return_index' and isinstance(k.value, ast.Constant) and k.value.value is True for k in n.value.keywords):
            inds_name = n.targets[0].elts[1].id if isinstance(n.targets[0].elts[1], ast.Name) else None
    if inds_name:
        for n in ast.walk(fn):
            if isinstance(n, ast.Assign) and unparse(n.targets[0]) == 'sources' and isinstance(n.value, ast.Subscript) \
                    and isinstance(n.value.slice, ast.Name) and n.value.slice.id == inds_name:
                dedup = True
    return dict(eff_trans=eff_trans, eff_sus=eff_sus, eff_trans_src=eff_trans_src, eff_sus_src=eff_sus_src,
                dirs=dirs, skips=skips, dedup=dedup)


def net_beta(src, cls, generic=False):
    fn = src.func(NET, 'net_beta', cls)
    names = [a.arg for a in fn.args.args]
    if names[:3] != ['self', 'disease_beta', 'inds']:
        raise ExtractError(f'{cls}.net_beta signature changed: {names}')
    env = local_env(fn); env.pop('inds', None)
    ret = [n for n in ast.walk(fn) if isinstance(n, ast.Return)]
    if len(ret) != 1:
        raise ExtractError(f'{cls}.net_beta: expected one return')

    def atom(node):
        s = unparse(node)
        if s == 'self.edges.beta[inds]': return 'edgeBeta'
        if s == 'disease_beta': return 'diseaseBeta'
        if s in ('self.edges.acts[inds] * self.t.dt', 'self.t.dt * self.edges.acts[inds]'): return 'actsDt'
        return None
    if generic:
        def gatom(node):
            s = unparse(node)
            return {'self.edges.beta[inds]': 'edgeBeta', 'disease_beta': 'diseaseBeta', 'self.edges.acts[inds]': 'acts', 'self.t.dt': 'dt'}.get(s)
        return Tr(env, gatom, f'{cls}.net_beta', generic=True)(ret[0].value), unparse(ret[0].value)
    return Tr(env, atom, f'{cls}.net_beta')(ret[0].value), unparse(ret[0].value)


def outcomes(src):
    """ Infection.set_outcomes: the congenital predicate and which method gets which part """
    fn = src.func(DIS, 'set_outcomes', 'Infection')
    names = [a.arg for a in fn.args.args]
    if len(names) < 2:
        raise ExtractError('set_outcomes signature changed')
    u = names[1]
    env = local_env(fn)
    cong = env.get('congenital')
    if cong is None:
        raise ExtractError('set_outcomes: `congenital = ...` not found (or assigned twice)')
    def atom(node):
        if unparse(node) in (f'sim.people.age[{u}]', f'self.sim.people.age[{u}]'): return 'age'
        return None
    pred = tr_compare(cong, Tr({k: v for k, v in env.items() if k != 'congenital'}, atom, 'set_outcomes'), 'set_outcomes')
    split = []
    for n in ast.walk(fn):
        if isinstance(n, ast.Call) and isinstance(n.func, ast.Attribute) and n.func.attr in ('set_congenital', 'set_prognoses') \
                and unparse(n.func.value) == 'self' and n.args:
            a = n.args[0]
            if isinstance(a, ast.Subscript) and unparse(a.value) == u:
                split.append(f'{n.func.attr}:{unparse(a.slice)}')
            else:
                raise ExtractError(f'set_outcomes: `{unparse(n)[:60]}` is not called on a part of the new cases')
    return pred, unparse(cong), sorted(split)


def pool(src):
    fn = src.func(NET, 'step', 'MixingPool')
    loops = [n for n in fn.body if isinstance(n, ast.For)]
    if len(loops) != 1 or not isinstance(loops[0].target, ast.Name):
        raise ExtractError('MixingPool.step: expected one `for disease in self.diseases` loop')
    lp = loops[0]; dv = lp.target.id
    env = local_env(fn)
    groups = dict(trans=set(), acq=set())

    def mk_atom(kind):
        def atom(node):
            if isinstance(node, ast.Subscript):
                g = {'self.src_uids': 'src', 'self.dst_uids': 'dst'}.get(unparse(node.slice))
                base = unparse(node.value)
                nm = {f'{dv}.infectious': 'infectious', f'{dv}.rel_trans': 'relTrans', f'{dv}.susceptible': 'susceptible',
                      f'{dv}.rel_sus': 'relSus', 'self.eff_contacts': 'contacts'}.get(base)
                if g and nm:
                    groups[kind].add(g); return nm
            if isinstance(node, ast.Name) and kind == 'p':
                return {'beta': 'beta'}.get(node.id)
            return None
        return atom
    # p passed to p_acquire.set(p=...)
    sets = [n for n in ast.walk(lp) if isinstance(n, ast.Call) and unparse(n.func) == 'self.p_acquire.set']
    filt = [n for n in ast.walk(lp) if isinstance(n, ast.Call) and unparse(n.func) == 'self.p_acquire.filter']
    if len(sets) != 1 or len(filt) != 1:
        raise ExtractError('MixingPool.step: expected one p_acquire.set(p=...) and one p_acquire.filter(...)')
    pv = [k.value for k in sets[0].keywords if k.arg == 'p']
    if len(pv) != 1:
        raise ExtractError('MixingPool.step: p_acquire.set without p=')
    pnode = resolve(pv[0], env)
    # p = beta*trans*acq : find the names standing for trans / acq: a name whose definition is a np.mean call is `trans`
    trans_node = [None]; acq_names = {}

    def atom_p(node):
        if isinstance(node, ast.Name):
            if node.id == 'beta': return 'beta'
            d = env.get(node.id)
            if d is not None and isinstance(d, ast.Call) and unparse(d.func) in ('np.mean', 'numpy.mean') and len(d.args) == 1:
                if trans_node[0] is not None and trans_node[0] is not d:
                    raise ExtractError('MixingPool.step: two different means in p')
                trans_node[0] = d; return 'trans'
            if d is not None and not isinstance(d, ast.Call):
                acq_names[node.id] = d; return 'acq'
        return None
    p_expr = Tr({}, atom_p, 'MixingPool.step (p)')(pnode)
    if trans_node[0] is None or len(acq_names) != 1:
        raise ExtractError(f'MixingPool.step: p is not a product of beta, a mean over the source group and one per-target term: `{unparse(pnode)}`')
    trans_term = Tr(env, mk_atom('trans'), 'MixingPool.step (trans)')(trans_node[0].args[0])
    acq_node = list(acq_names.values())[0]
    acq = Tr(env, mk_atom('acq'), 'MixingPool.step (acq)')(acq_node)
    if len(groups['trans']) != 1 or len(groups['acq']) != 1:
        raise ExtractError(f'MixingPool.step: mixed index groups {groups}')
    fg = {'self.src_uids': 'src', 'self.dst_uids': 'dst'}.get(unparse(filt[0].args[0]) if filt[0].args else '')
    if fg is None:
        raise ExtractError('MixingPool.step: p_acquire.filter argument is not self.src_uids / self.dst_uids')
    # set_prognoses on the filtered cases
    return dict(p=p_expr, trans_term=trans_term, acq=acq, trans_group=groups['trans'].pop(), acq_group=groups['acq'].pop(),
                filter_group=fg, p_src=unparse(pnode), trans_src=unparse(trans_node[0]), acq_src=unparse(acq_node))


def bernoulli(src):
    fn = src.func(DST, 'ppf', 'bernoulli')
    names = [a.arg for a in fn.args.args]
    if len(names) != 2:
        raise ExtractError('bernoulli.ppf signature changed')
    env = local_env(fn)
    ret = [n for n in ast.walk(fn) if isinstance(n, ast.Return)]
    if len(ret) != 1:
        raise ExtractError('bernoulli.ppf: expected one return')

    def atom(node):
        s = unparse(node)
        if s == names[1]: return 'r'
        if s == 'self._pars.p': return 'p'
        return None
    return tr_compare(resolve(ret[0].value, env), Tr(env, atom, 'bernoulli.ppf'), 'bernoulli.ppf'), unparse(resolve(ret[0].value, env))


@generator('TransmissionFacts', [DIS, NET, DST])
def gen(src):
    cmp, order, cmp_src = kernel(src)
    inf = infect(src)
    plain, plain_src = net_beta(src, 'Network')
    sexual, sexual_src = net_beta(src, 'SexualNetwork')
    sexual_g, _ = net_beta(src, 'SexualNetwork', generic=True)
    cong, cong_src, split = outcomes(src)
    dyn = [n for n in src.cls(NET, 'DynamicNetwork').body if isinstance(n, ast.FunctionDef) and n.name == 'net_beta']
    if dyn:
        raise ExtractError('DynamicNetwork now overrides net_beta (not modelled)')
    pl = pool(src)
    bern, bern_src = bernoulli(src)
    dirs = ', '.join(f'({lean_str(s)}, {lean_str(t)}, {b})' for s, t, b in inf['dirs'])
    body = f'''set_option linter.unusedVariables false
namespace StarsimModel.Gen
/-- `Infection.compute_transmission`: the mask `{cmp_src}` (parameters by position, locals inlined) -/
def transmits (relTrans relSus : Nat → Rat) (src trg : Nat) (betaPerDt r : Rat) : Bool :=
  {cmp}
/-- `Infection.compute_transmission`: which endpoint each returned array is taken from -/
def kernelReturns : List String := [{', '.join(lean_str(o) for o in order)}]
/-- `Infection.infect`: third kernel argument, per agent: `{inf['eff_trans_src']}` -/
def effTrans (susceptible infectious relSus relTrans : Rat) : Rat :=
  {inf['eff_trans']}
/-- `Infection.infect`: fourth kernel argument, per agent: `{inf['eff_sus_src']}` -/
def effSus (susceptible infectious relSus relTrans : Rat) : Rat :=
  {inf['eff_sus']}
/-- `Infection.infect`: the directions tried per network, in order: (source endpoint, target endpoint, index into betamap[net]) -/
def infectDirections : List (String × String × Nat) := [{dirs}]
/-- `Infection.infect`: `new_cases, inds = new_cases.unique(return_index=True)` and `sources = cat(sources)[inds]` present -/
def infectDedupKeepsFirst : Bool := {'true' if inf['dedup'] else 'false'}
/-- `Infection.infect`: `if beta:` around the kernel call (a zero-beta direction draws no random numbers) -/
def infectSkipsZeroBeta : Bool := {'true' if inf['skips'] else 'false'}
/-- `Network.net_beta`: `{plain_src}` -/
def netBetaPlain (edgeBeta diseaseBeta : Rat) : Rat :=
  {plain}
/-- `SexualNetwork.net_beta`: `{sexual_src}` (`actsDt` = acts·dt when that is a whole number) -/
def netBetaSexual (edgeBeta diseaseBeta : Rat) (actsDt : Nat) : Rat :=
  {sexual}
/-- `SexualNetwork.net_beta`, the same expression over any number type with a power function (instantiated at `Float` by
    the model and at `ℝ` by the lemmas; `acts`, `dt` arbitrary) -/
def netBetaSexualG {{α : Type}} [Mul α] [Sub α] [OfNat α 1] (pow : α → α → α) (edgeBeta diseaseBeta acts dt : α) : α :=
  {sexual_g}
/-- `Infection.set_outcomes`: `congenital = {cong_src}` -/
def isCongenital (age : Rat) : Bool :=
  {cong}
/-- `Infection.set_outcomes`: which method receives which part of the new cases -/
def outcomeSplit : List String := [{', '.join(lean_str(x) for x in split)}]
/-- `MixingPool.step`: the per-source term averaged by `{pl['trans_src']}` -/
def poolTransTerm (infectious relTrans : Rat) : Rat :=
  {pl['trans_term']}
/-- `MixingPool.step`: per-target term `{pl['acq_src']}` -/
def poolAcq (contacts susceptible relSus : Rat) : Rat :=
  {pl['acq']}
/-- `MixingPool.step`: `p = {pl['p_src']}` -/
def poolP (beta trans acq : Rat) : Rat :=
  {pl['p']}
/-- `MixingPool.step`: group indexing the averaged term, the per-target term, and the Bernoulli filter -/
def poolGroups : List String := [{lean_str(pl['trans_group'])}, {lean_str(pl['acq_group'])}, {lean_str(pl['filter_group'])}]
/-- `bernoulli.ppf`: `{bern_src}` -/
def bernoulliAccept (r p : Rat) : Bool :=
  {bern}
end StarsimModel.Gen
'''
    facts = dict(transmits=cmp_src, kernel_returns=order, eff_trans=inf['eff_trans_src'], eff_sus=inf['eff_sus_src'],
                 directions=[list(d) for d in inf['dirs']], dedup=inf['dedup'], skips_zero_beta=inf['skips'],
                 net_beta_plain=plain_src, net_beta_sexual=sexual_src, pool_p=pl['p_src'], pool_trans=pl['trans_src'],
                 pool_acq=pl['acq_src'], pool_groups=[pl['trans_group'], pl['acq_group'], pl['filter_group']], bernoulli=bern_src,
                 congenital=cong_src, outcome_split=split)
    return body, facts
