"""
Extractor for Generated/ClosureFacts.lean (C09, round 5):

* every nested function / lambda defined inside a function or method of the files whose objects live in the Sim object graph,
  with the names it CAPTURES from the enclosing function that are PARAMETERS of that function (`self`, `sim`, `mod`, ...): a
  closure cell holding an object that was handed in.  `copy.deepcopy` treats function objects as atomic, so such a function,
  once stored in the graph (a module's `step`, a row of `Loop.plan`), keeps acting on the ORIGINAL after a deep copy
  (Model/Binding.lean: `Callee.closure`).  Locals computed inside the enclosing function (strings, numbers) are not listed.
  Also whether the nested function ESCAPES the enclosing call (its name is used other than as the callee of a direct call:
  assigned to an attribute, passed to `partial`, returned, ...; lambdas always) — a helper that is only called in place cannot end
  up in the object graph;
* `Loop.__deepcopy__`: whether the `plan` is deep-copied and whether that copy shares the `memo` of the surrounding copy
  (only then are the bound methods in it rebuilt over the COPIED receivers).

Pure AST; fails closed (ExtractError) on anything outside the supported subset.
"""
import ast
from harness.extract import generator, ExtractError, lean_str, unparse

FILES = ['starsim/modules.py', 'starsim/sim.py', 'starsim/loop.py', 'starsim/people.py', 'starsim/networks.py', 'starsim/interventions.py',
         'starsim/products.py', 'starsim/demographics.py', 'starsim/disease.py', 'starsim/distributions.py', 'starsim/arrays.py',
         'starsim/time.py', 'starsim/results.py', 'starsim/parameters.py', 'starsim/utils.py']


def _params(fn):
    a = fn.args
    out = [x.arg for x in a.posonlyargs + a.args + a.kwonlyargs]
    if a.vararg: out.append(a.vararg.arg)
    if a.kwarg: out.append(a.kwarg.arg)
    return set(out)


def _captures(outer, inner):
    own = _params(inner)
    body = inner.body if isinstance(inner.body, list) else [inner.body]
    loads = set()
    for b in body:
        for n in ast.walk(b):
            if isinstance(n, ast.Name):
                (loads if isinstance(n.ctx, ast.Load) else own).add(n.id)
            elif isinstance(n, (ast.Global, ast.Nonlocal)):
                raise ExtractError(f'{outer.name}.{getattr(inner, "name", "<lambda>")}: global/nonlocal declarations are not supported')
    return sorted((loads - own) & _params(outer))


def _escapes(outer, inner):
    """ does the nested function leave the enclosing call other than by being called there: its name is loaded anywhere except
        as the callee of a call (assigned to an attribute, passed to `partial`, returned, put in a container); lambdas always do """
    if isinstance(inner, ast.Lambda):
        return True
    callee_ids = {id(n.func) for n in ast.walk(outer) if isinstance(n, ast.Call)}
    for n in ast.walk(outer):
        if isinstance(n, ast.Name) and n.id == inner.name and isinstance(n.ctx, ast.Load) and id(n) not in callee_ids:
            return True
    return False


def _nested(src, rel):
    rows = []
    tree = src.tree(rel)
    def visit(node, qual):
        for ch in ast.iter_child_nodes(node):
            if isinstance(ch, ast.ClassDef):
                visit(ch, qual + [ch.name])
            elif isinstance(ch, (ast.FunctionDef, ast.AsyncFunctionDef)):
                q = qual + [ch.name]
                for inner in ast.walk(ch):
                    if inner is not ch and isinstance(inner, (ast.FunctionDef, ast.AsyncFunctionDef, ast.Lambda)):
                        rows.append((rel.split('/')[-1], '.'.join(q), getattr(inner, 'name', '<lambda>'), _escapes(ch, inner), _captures(ch, inner)))
            else:
                visit(ch, qual)
    visit(tree, [])
    return rows


def _plan_copy(src):
    fn = src.func('starsim/loop.py', '__deepcopy__', 'Loop')
    params = [a.arg for a in fn.args.args]
    if len(params) != 2:
        raise ExtractError('Loop.__deepcopy__: expected (self, memo)')
    memo = params[1]
    deep = False; with_memo = False; plan_branch = None
    for n in ast.walk(fn):
        if isinstance(n, ast.If) and "'plan'" in unparse(n.test):
            plan_branch = n
    if plan_branch is None:
        raise ExtractError("Loop.__deepcopy__: no branch for the 'plan' attribute")
    for st in plan_branch.body:
        for n in ast.walk(st):
            if isinstance(n, ast.Call) and unparse(n.func) in ('sc.dcp', 'copy.deepcopy', 'deepcopy', 'dcp'):
                deep = True
                args = [unparse(a) for a in n.args[1:]] + [unparse(k.value) for k in n.keywords if k.arg == 'memo']
                if memo in args:
                    with_memo = True
    return deep, with_memo


@generator('ClosureFacts', FILES)
def gen(src):
    rows = []
    for rel in FILES:
        rows += _nested(src, rel)
    deep, with_memo = _plan_copy(src)
    lines = ['namespace StarsimModel.Gen',
             '/-- every nested function / lambda of the object-graph source files: (file, enclosing function, name, does it ESCAPE the',
             '    enclosing call (stored / passed on / returned rather than only called there), PARAMETERS of the enclosing function it',
             '    captures in a closure cell) -/',
             'def nestedCaptures : List (String × String × String × Bool × List String) := [']
    lines.append(',\n'.join(f'  ({lean_str(a)}, {lean_str(b)}, {lean_str(c)}, {"true" if e else "false"}, [{", ".join(lean_str(x) for x in d)}])' for a, b, c, e, d in rows) + ']')
    lines += ["/-- `Loop.__deepcopy__`, branch for `plan`: deep-copied, and with the memo of the surrounding copy -/",
              f'def planDeepCopied : Bool := {"true" if deep else "false"}',
              f'def planCopySharesMemo : Bool := {"true" if with_memo else "false"}',
              'end StarsimModel.Gen', '']
    return '\n'.join(lines), dict(nested=[list(r) for r in rows], plan_deep=deep, plan_memo=with_memo)
