"""
C17 extractor:  starsim/parameters.py, modules.py, sim.py, time.py  ->  Generated/ParsDispatch.lean

What is extracted (pure `ast`, failing closed):

* `Pars.update`: the strict-mode guard (`if not create: self.check_key_mismatch(pars)`), the new-key branch and the
  ordered `isinstance` chain of the existing-key branch, with `_update_ndict/_update_module/_update_timepar/_update_dist`
  (whatever `self._xxx(key, old, new)` it dispatches to) inlined, as ONE decision tree over tests on the old / new
  value with an action at every leaf (set / recurse / old.set(new) / old.set(*new) / old.set(**new) / make_dist /
  ndict items / module item / raise <kind> / ignore).  A branch whose body neither assigns, recurses, calls a setter
  nor raises is extracted as the action `ignore` (so `C17_applied_or_rejected` stops elaborating); a statement or
  test of an unknown shape raises ExtractError.
* `Pars.check_key_mismatch` as a tree over the single test "some supplied key is not an existing key".
* `Module.update_pars` as an ordered list of recognised steps + `module_args` + `time_args`.
* `SimPars.convert_modules` as an ordered list of recognised per-entry rewrite steps.
* `Sim.__init__`: default of `copy_inputs`, whether it is forwarded to `sc.mergedicts(_copy=...)`, and that the merged
  dict goes through `self.pars.update` (strict).
"""
import ast
from harness.extract import generator, ExtractError, lean_str, unparse

REL = 'starsim/parameters.py'

CLS = {  # source spelling -> Lean `Cls` constructor
    'str': 'str', 'Number': 'number', 'list': 'list', 'np.ndarray': 'ndarray', 'pd.Series': 'series',
    'pd.DataFrame': 'dataframe', 'type(None)': 'noneType', 'Pars': 'pars', 'ss.Pars': 'pars', 'ss.ndict': 'ndict',
    'ss.Module': 'module', 'ss.TimePar': 'timePar', 'ss.Dist': 'dist', 'dict': 'dict', 'ss.beta': 'beta',
    'ss.bernoulli': 'bernoulli', 'ss.dur': 'dur',
}
ERR = {'TypeError': 'type', 'ValueError': 'value', 'sc.KeyNotFoundError': 'keyNotFound', 'KeyError': 'other',
       'AttributeError': 'other', 'IndexError': 'other', 'NotImplementedError': 'other', 'Exception': 'other',
       'RuntimeError': 'other'}


class Sub(ast.NodeTransformer):
    """ substitute local names by their defining expressions """
    def __init__(self, env): self.env = env
    def visit_Name(self, n):
        if isinstance(n.ctx, ast.Load) and n.id in self.env:
            return self.env[n.id]
        return n


def names_in(node):
    return {n.id for n in ast.walk(node) if isinstance(n, ast.Name)}


class Tr:
    """ statement list -> decision tree (Lean term string) """
    def __init__(self, src, cls_node, consts, who):
        self.src = src; self.cls = cls_node; self.consts = consts; self.who = who
        self.depth = 0

    def fail(self, what, node=None):
        txt = (': ' + unparse(node)[:100]) if node is not None else ''
        raise ExtractError(f'{self.who}: {what}{txt}')

    # ---- classes ------------------------------------------------------------
    def classes(self, node):
        if isinstance(node, ast.Name) and node.id in self.consts:
            return self.consts[node.id]
        if isinstance(node, ast.Tuple):
            out = []
            for e in node.elts: out += self.classes(e)
            return out
        s = unparse(node)
        if s not in CLS:
            self.fail(f'isinstance against an unknown class `{s}`')
        return [CLS[s]]

    # ---- tests --------------------------------------------------------------
    def subject(self, node, names):
        s = unparse(node)
        if s == names['old']: return 'old'
        if s == names['new']: return 'new'
        if s == names['old'] + '.pars[0]': return 'par0'
        return None

    def test(self, node, env, names):
        node = Sub(env).visit(ast.parse(unparse(node), mode='eval').body)
        return self.test0(node, names)

    def test0(self, n, names):
        old, new = names['old'], names['new']
        if isinstance(n, ast.BoolOp):
            parts = [self.test0(v, names) for v in n.values]
            op = 'Test.and' if isinstance(n.op, ast.And) else 'Test.or'
            out = parts[-1]
            for p in reversed(parts[:-1]):
                out = f'({op} {p} {out})'
            return out
        if isinstance(n, ast.UnaryOp) and isinstance(n.op, ast.Not):
            s = unparse(n.operand)
            if s == f'len({old})': return 'Test.oldEmpty'
            return f'(Test.not {self.test0(n.operand, names)})'
        if isinstance(n, ast.Call):
            f = unparse(n.func)
            if f == 'isinstance' and len(n.args) == 2 and not n.keywords:
                sub = self.subject(n.args[0], names)
                cl = '[' + ', '.join('.' + c for c in self.classes(n.args[1])) + ']'
                if sub == 'old': return f'(Test.oldIs {cl})'
                if sub == 'new': return f'(Test.newIs {cl})'
                if sub == 'par0': return f'(Test.par0Is {cl})'
                self.fail('isinstance of an unsupported subject', n)
            if f == 'callable' and len(n.args) == 1 and self.subject(n.args[0], names) == 'old': return 'Test.oldCallable'
            if f == 'callable' and len(n.args) == 1 and self.subject(n.args[0], names) == 'new': return 'Test.newCallable'
            if f == 'sc.isfunc' and len(n.args) == 1 and self.subject(n.args[0], names) == 'new': return 'Test.newIsFunc'
            if f == 'len' and len(n.args) == 1:
                s = unparse(n.args[0])
                if s == old: return '(Test.not Test.oldEmpty)'
                if s in self.consts.get('__mismatch__', ()): return 'Test.hasMismatch'
        if isinstance(n, ast.Compare) and len(n.ops) == 1:
            l, r, op = n.left, n.comparators[0], n.ops[0]
            ls, rs = unparse(l), unparse(r)
            if ls == f"{new}.get('type')":
                if isinstance(op, ast.Is) and rs == 'None': return 'Test.newTypeNone'
                if isinstance(op, ast.IsNot) and rs == 'None': return '(Test.not Test.newTypeNone)'
                if isinstance(r, ast.Constant) and isinstance(r.value, str):
                    if isinstance(op, ast.NotEq): return f'(Test.newTypeNe {lean_str(r.value)})'
                    if isinstance(op, ast.Eq): return f'(Test.not (Test.newTypeNe {lean_str(r.value)}))'
            if isinstance(op, (ast.NotEq, ast.Eq)):
                pair = {ls, rs}
                if pair == {f'isinstance({old}.pars[0], ss.dur)', f'isinstance({new}, ss.dur)'}:
                    return 'Test.durMismatch' if isinstance(op, ast.NotEq) else '(Test.not Test.durMismatch)'
            if isinstance(op, (ast.Gt, ast.NotEq)) and rs == '0' and isinstance(l, ast.Call) and unparse(l.func) == 'len':
                return self.test0(l, names)
        s = unparse(n)
        if s in self.consts.get('__mismatch__', ()): return 'Test.hasMismatch'
        self.fail('unsupported test', n)

    # ---- statements ---------------------------------------------------------
    def tree(self, stmts, env, names, effect=None):
        stmts = list(stmts)
        while stmts:
            st = stmts.pop(0)
            if isinstance(st, ast.Expr) and isinstance(st.value, ast.Constant):
                continue                                             # docstring
            if isinstance(st, ast.Pass):
                continue
            if isinstance(st, ast.Assign) and len(st.targets) == 1 and isinstance(st.targets[0], ast.Name):
                nm = st.targets[0].id
                if nm in (names['old'], names['new'], names['key'], 'self'):
                    self.fail('rebinding of an input name', st)
                val = Sub(env).visit(ast.parse(unparse(st.value), mode='eval').body)
                env = dict(env); env[nm] = val
                continue
            if isinstance(st, ast.Expr) and isinstance(st.value, ast.Call) and unparse(st.value.func) in ('ss.warn', 'print', 'warnings.warn'):
                continue
            if isinstance(st, ast.Return):
                if st.value is not None and unparse(st.value) not in ('self', 'None'):
                    self.fail('unsupported return value', st)
                return effect or '(.leaf .ignore)'
            if isinstance(st, ast.Raise):
                if effect: self.fail('raise after an effect', st)
                exc = st.exc
                nm = unparse(exc.func) if isinstance(exc, ast.Call) else unparse(exc) if exc is not None else None
                if nm not in ERR: self.fail('unsupported exception class', st)
                return f'(.leaf (.raise .{ERR[nm]}))'
            if isinstance(st, ast.If):
                if effect: self.fail('branch after an effect', st)
                t = self.test(st.test, env, names)
                a = self.tree(st.body + stmts, env, names)
                b = self.tree(st.orelse + stmts, env, names)
                return f'(.ite {t}\n  {a}\n  {b})'
            act = self.effect(st, env, names)
            if effect: self.fail('more than one effect on a path', st)
            effect = act
        return effect or '(.leaf .ignore)'

    def effect(self, st, env, names):
        old, new, key = names['old'], names['new'], names['key']
        # self[key] = <expr>
        if isinstance(st, ast.Assign) and len(st.targets) == 1 and unparse(st.targets[0]) == f'self[{key}]':
            v = Sub(env).visit(ast.parse(unparse(st.value), mode='eval').body)
            s = unparse(v)
            if s == new: return '(.leaf .set)'
            if s == f'ss.make_dist({new})': return '(.leaf .makeDist)'
            if new not in names_in(v): return '(.leaf .ignore)'       # stores something that does not depend on the input
            self.fail('assignment of an unsupported expression of the new value', st)
        if isinstance(st, ast.For):
            # for k, v in new.items(): old[k].pars.update(v)
            if (unparse(st.iter) == f'{new}.items()' and isinstance(st.target, ast.Tuple) and len(st.target.elts) == 2
                    and len(st.body) == 1 and not st.orelse):
                k, v = (unparse(e) for e in st.target.elts)
                if unparse(st.body[0]) == f'{old}[{k}].pars.update({v})':
                    return '(.leaf .ndictItems)'
            self.fail('unsupported loop', st)
        if isinstance(st, ast.Expr) and isinstance(st.value, ast.Call):
            c = st.value; s = unparse(c)
            if s == f'{old}.update({new}, create=create)': return '(.leaf .recurse)'
            if s == f'{old}.set({new})': return '(.leaf .oldSet)'
            if s == f'{old}.set(*{new})': return '(.leaf .oldSetArgs)'
            if s == f'{old}.set(**{new})': return '(.leaf .oldSetKwargs)'
            if s == f'{old}[{key}].pars.update({new})': return '(.leaf .moduleItem)'
            if (isinstance(c.func, ast.Attribute) and unparse(c.func.value) == 'self' and not c.keywords
                    and [unparse(a) for a in c.args] == [key, old, new]):
                return self.inline(c.func.attr)
            if new not in names_in(c) and old not in names_in(c):
                self.fail('call of unknown effect', st)
        self.fail('unsupported statement', st)

    def inline(self, meth):
        self.depth += 1
        if self.depth > 6: self.fail(f'recursive dispatch through {meth}')
        fn = None
        for n in self.cls.body:
            if isinstance(n, ast.FunctionDef) and n.name == meth: fn = n
        if fn is None: self.fail(f'dispatch to unknown method {meth}')
        a = [x.arg for x in fn.args.args]
        if len(a) != 4 or a[0] != 'self' or fn.args.vararg or fn.args.kwarg or fn.args.defaults:
            self.fail(f'{meth}: expected signature (self, key, old, new)')
        out = self.tree(fn.body, {}, dict(key=a[1], old=a[2], new=a[3]))
        self.depth -= 1
        return out


def module_consts(tree):
    """ module-level tuples of classes (atomic_classes) """
    out = {}
    for n in tree.body:
        if isinstance(n, ast.Assign) and len(n.targets) == 1 and isinstance(n.targets[0], ast.Name) and isinstance(n.value, ast.Tuple):
            try:
                out[n.targets[0].id] = [CLS[unparse(e)] for e in n.value.elts]
            except KeyError:
                pass
    return out


def str_list(tree, name, rel):
    for n in tree.body:
        if isinstance(n, ast.Assign) and len(n.targets) == 1 and unparse(n.targets[0]) == name:
            if isinstance(n.value, ast.List) and all(isinstance(e, ast.Constant) and isinstance(e.value, str) for e in n.value.elts):
                return [e.value for e in n.value.elts]
    raise ExtractError(f'{rel}: `{name} = [<str literals>]` not found')


def norm(st):
    return ' '.join(unparse(st).split())


# ---------------------------------------------------------------------------

def extract_update(src):
    tree = src.tree(REL)
    cls = src.cls(REL, 'Pars')
    consts = module_consts(tree)
    if 'atomic_classes' not in consts:
        raise ExtractError('parameters.py: atomic_classes tuple of known classes not found')
    fn = src.func(REL, 'update', 'Pars')
    a = fn.args
    if [x.arg for x in a.args] != ['self', 'pars', 'create'] or a.kwarg is None or [unparse(d) for d in a.defaults] != ['None', 'False']:
        raise ExtractError('Pars.update: signature is not (self, pars=None, create=False, **kwargs)')
    strict = None; loop = None; pre = []
    for st in fn.body:
        if isinstance(st, ast.For):
            if loop is not None: raise ExtractError('Pars.update: more than one loop')
            loop = st; continue
        if loop is None:
            pre.append(st)
        elif not (isinstance(st, ast.Return) and unparse(st.value) == 'self'):
            raise ExtractError(f'Pars.update: unsupported statement after the loop: {norm(st)[:80]}')
    if loop is None: raise ExtractError('Pars.update: no loop over the supplied items')
    # statements before the loop: docstring, dict merge, empty return, strict check
    strict = False
    for st in pre:
        s = norm(st)
        if isinstance(st, ast.Expr) and isinstance(st.value, ast.Constant): continue
        if s in ('pars = {} if pars is None else dict(pars)', 'pars = pars | kwargs', 'pars = sc.mergedicts(pars, kwargs)'): continue
        if isinstance(st, ast.If) and norm(st.test) in ('not len(pars)', 'len(pars) == 0', 'not pars') and not st.orelse \
                and [norm(x) for x in st.body] == ['return self']:
            continue
        if isinstance(st, ast.If) and norm(st.test) == 'not create' and not st.orelse and [norm(x) for x in st.body] == ['self.check_key_mismatch(pars)']:
            strict = True; continue
        raise ExtractError(f'Pars.update: unsupported statement before the loop: {s[:100]}')
    if norm(loop.iter) != 'pars.items()' or not isinstance(loop.target, ast.Tuple) or len(loop.target.elts) != 2 or loop.orelse:
        raise ExtractError('Pars.update: loop is not `for key, new in pars.items()`')
    key, new = (unparse(e) for e in loop.target.elts)
    if len(loop.body) != 1 or not isinstance(loop.body[0], ast.If):
        raise ExtractError('Pars.update: loop body is not a single if/else on key membership')
    top = loop.body[0]
    t = norm(top.test)
    if t in (f'{key} not in self.keys()', f'{key} not in self'):
        newb, oldb = top.body, top.orelse
    elif t in (f'{key} in self.keys()', f'{key} in self'):
        newb, oldb = top.orelse, top.body
    else:
        raise ExtractError(f'Pars.update: unsupported membership test {t}')
    # existing-key branch: `old = self[key]` then the chain
    if not oldb or norm(oldb[0]) not in (f'old = self[{key}]',) and not (isinstance(oldb[0], ast.Assign) and norm(oldb[0].value) == f'self[{key}]'):
        raise ExtractError('Pars.update: existing-key branch does not start with `old = self[key]`')
    old = unparse(oldb[0].targets[0])
    names = dict(key=key, old=old, new=new)
    tr = Tr(src, cls, consts, 'Pars.update')
    new_tree = tr.tree(newb, {}, dict(key=key, old='__no_old__', new=new))
    upd_tree = tr.tree(oldb[1:], {}, names)
    # check_key_mismatch
    ck = src.func(REL, 'check_key_mismatch', 'Pars')
    if [x.arg for x in ck.args.args] != ['self', 'pars']:
        raise ExtractError('Pars.check_key_mismatch: signature is not (self, pars)')
    mism = ('[key for key in pars.keys() if key not in list(self.keys())]', '[key for key in pars.keys() if key not in self.keys()]',
            '[key for key in pars if key not in self]', '[key for key in pars.keys() if key not in self]')
    consts2 = dict(consts); consts2['__mismatch__'] = mism
    tr2 = Tr(src, cls, consts2, 'Pars.check_key_mismatch')
    ck_tree = tr2.tree(ck.body, {}, dict(key='__k__', old='__o__', new='__n__'))
    return dict(strict=strict, new_tree=new_tree, upd_tree=upd_tree, ck_tree=ck_tree, atomic=consts['atomic_classes'])


USTEPS = [  # normalised statement -> step of Module.update_pars
    ('pars = sc.mergedicts(pars, kwargs)', 'merge'),
    ('pars = sc.mergedicts(kwargs, pars)', 'merge'),
    ('matches = {}', None),
    ('for key in list(pars.keys()): if key in self.pars: matches[key] = pars.pop(key)', 'matchPop'),
    ('self.pars.update(matches)', 'parsUpdate'),
    ('metadata = {key: pars.get(key, self.pars.get(key)) for key in module_args}', None),
    ('timepars = {key: pars.get(key, self.pars.get(key)) for key in ss.time.time_args}', None),
    ('self.set_metadata(**metadata)', 'setMetadata'),
    ('self.t.update(**timepars)', 'timeUpdate'),
    ('remaining = set(pars.keys()) - set(module_args + ss.time.time_args)', None),
    ('return', None),
]


def extract_update_pars(src):
    rel = 'starsim/modules.py'
    fn = src.func(rel, 'update_pars', 'Module')
    if [x.arg for x in fn.args.args] != ['self', 'pars'] or fn.args.kwarg is None:
        raise ExtractError('Module.update_pars: signature is not (self, pars, **kwargs)')
    table = dict(USTEPS)
    steps = []
    for st in fn.body:
        if isinstance(st, ast.Expr) and isinstance(st.value, ast.Constant): continue
        s = norm(st)
        if isinstance(st, ast.For):
            s = norm(st).replace('\n', ' ')
            s = f'for {unparse(st.target)} in {unparse(st.iter)}: ' + ' '.join(
                (f'if {unparse(b.test)}: ' + ' '.join(norm(x) for x in b.body)) if isinstance(b, ast.If) and not b.orelse else norm(b) for b in st.body)
        if isinstance(st, ast.If) and norm(st.test) in ('len(remaining)', 'remaining', 'len(remaining) > 0') and not st.orelse:
            body = [x for x in st.body if not (isinstance(x, ast.Assign))]
            if len(body) == 1 and isinstance(body[0], ast.Raise):
                exc = body[0].exc
                nm = unparse(exc.func) if isinstance(exc, ast.Call) else unparse(exc)
                if nm not in ERR: raise ExtractError(f'Module.update_pars: unsupported exception {nm}')
                steps.append(f'(.leftover (.raise .{ERR[nm]}))'); continue
            if all(isinstance(x, (ast.Pass, ast.Assign)) or (isinstance(x, ast.Expr) and unparse(x.value.func) in ('ss.warn', 'print')) for x in st.body):
                steps.append('(.leftover .ignore)'); continue
            raise ExtractError(f'Module.update_pars: unsupported leftover handling: {s[:100]}')
        if s not in table:
            raise ExtractError(f'Module.update_pars: unsupported statement: {s[:120]}')
        if table[s]: steps.append('.' + table[s])
    merge_order = None
    for st in fn.body:
        if isinstance(st, ast.Assign) and isinstance(st.value, ast.Call) and unparse(st.value.func) == 'sc.mergedicts':
            merge_order = [unparse(x) for x in st.value.args]
            if st.value.keywords: raise ExtractError('Module.update_pars: mergedicts keywords are not supported')
    if merge_order is None or sorted(merge_order) != ['kwargs', 'pars']:
        raise ExtractError(f'Module.update_pars: merge of pars and kwargs not found ({merge_order})')
    margs = str_list(src.tree(rel), 'module_args', rel)
    targs = str_list(src.tree('starsim/time.py'), 'time_args', 'starsim/time.py')
    # set_metadata: non-str name/label -> TypeError
    sm = src.func(rel, 'set_metadata', 'Module')
    sm_txt = norm(sm)
    meta_checked = ('if not isinstance(val, str)' in sm_txt) and ('raise TypeError' in sm_txt)
    return dict(steps=steps, module_args=margs, time_args=targs, meta_checked=meta_checked, merge_order=merge_order)


def extract_convert(src):
    """ SimPars.convert_modules: ordered per-entry rewrite steps (recognised by shape) """
    fn = src.func(REL, 'convert_modules', 'SimPars')
    loops = [n for n in ast.walk(fn) if isinstance(n, ast.For) and norm(n.iter) == 'enumerate(modlist)']
    if len(loops) != 1:
        raise ExtractError('convert_modules: the per-entry loop `for i, mod in enumerate(modlist)` was not found')
    lp = loops[0]
    steps = []
    ia = "modkey in ['interventions', 'analyzers']"
    for st in lp.body:
        s = norm(st)
        if isinstance(st, ast.If) and not st.orelse and norm(st.test) == 'isinstance(mod, str)' and [norm(x) for x in st.body] == ['mod = dict(type=mod)']:
            steps.append('.strToDict'); continue
        if isinstance(st, ast.If) and not st.orelse and norm(st.test) == f'isinstance(mod, type) and {ia}' and [norm(x) for x in st.body] == ['mod = mod()']:
            steps.append('.classToInstanceIA'); continue
        if isinstance(st, ast.If) and not st.orelse and norm(st.test) == 'isinstance(mod, dict)':
            txt = ' '.join(norm(x) for x in st.body)
            need = ["if 'type' in mod: modtype = mod.pop('type')", 'raise ValueError(errormsg)', 'if isinstance(modtype, str):',
                    'modtype = modtype.lower()', 'if modtype in moddictkeys: modcls = ssmoddict[modtype]',
                    'if modtype in moddictvals: modcls = modtype', 'mod = modcls(**mod)']
            if not all(x in txt for x in need) or txt.count('raise TypeError(errormsg)') != 2:
                raise ExtractError('convert_modules: dict-to-module step has an unsupported shape')
            dict_facts = convert_dict_content(st)
            steps.append('.dictToModule'); continue
        if isinstance(st, ast.If) and not st.orelse and norm(st.test) == ia:
            inner = st.body
            ok = (len(inner) == 1 and isinstance(inner[0], ast.If)
                  and norm(inner[0].test) == 'isinstance(mod, type) and issubclass(mod, expected_cls)'
                  and [norm(x) for x in inner[0].body] == ['mod = mod()']
                  and len(inner[0].orelse) == 1 and isinstance(inner[0].orelse[0], ast.If)
                  and norm(inner[0].orelse[0].test) == 'not isinstance(mod, ss.Module) and callable(mod)'
                  and [norm(x) for x in inner[0].orelse[0].body] == ['mod = expected_cls.from_func(mod)']
                  and not inner[0].orelse[0].orelse)
            if not ok: raise ExtractError('convert_modules: interventions/analyzers step has an unsupported shape')
            steps.append('.iaClassOrFunc'); continue
        if isinstance(st, ast.If) and not st.orelse and norm(st.test) == 'not isinstance(mod, (expected_cls, ss.Module))':
            body = [x for x in st.body if not isinstance(x, ast.Assign)]
            if len(body) == 1 and isinstance(body[0], ast.Raise) and unparse(body[0].exc.func) == 'TypeError':
                steps.append('.finalCheck'); continue
            raise ExtractError('convert_modules: final type check does not raise TypeError')
        if s == 'modlist[i] = mod':
            steps.append('.store'); continue
        raise ExtractError(f'convert_modules: unsupported per-entry statement: {s[:120]}')
    if '.dictToModule' not in steps: raise ExtractError('convert_modules: no dict-to-module step')
    return dict(steps=steps, dict_facts=dict_facts)


def raise_kind(stmts, who):
    """ the exception kind a branch ends with (assignments of the message are skipped); None if it does not raise """
    body = [x for x in stmts if not (isinstance(x, ast.Assign) and isinstance(x.targets[0], ast.Name) and x.targets[0].id in ('errormsg', 'msg'))]
    if len(body) == 1 and isinstance(body[0], ast.Raise):
        nm = unparse(body[0].exc.func) if isinstance(body[0].exc, ast.Call) else unparse(body[0].exc)
        if nm not in ERR: raise ExtractError(f'{who}: unsupported exception {nm}')
        return f'(.raise .{ERR[nm]})'
    return None


def convert_dict_content(st):
    """ the dict branch of convert_modules read statement by statement: what each failure raises, whether the name is
        lower-cased before the lookup, whether the remaining entries are passed to the constructor """
    who = 'convert_modules (dict spec)'
    facts = dict(no_type=None, bad_name=None, bad_class=None, lower=False, kwargs=False, pops_type=False)
    body = list(st.body)
    for x in body:
        if isinstance(x, ast.If) and norm(x.test) == "'type' in mod":
            facts['pops_type'] = [norm(y) for y in x.body] == ["modtype = mod.pop('type')"]
            facts['no_type'] = raise_kind(x.orelse, who) or '.ignore'
        elif isinstance(x, ast.If) and norm(x.test) == 'isinstance(modtype, str)':
            pre = [y for y in x.body if not isinstance(y, ast.If)]
            facts['lower'] = [norm(y) for y in pre] == ['modtype = modtype.lower()']
            for y in x.body:
                if isinstance(y, ast.If) and norm(y.test) == 'modtype in moddictkeys':
                    if [norm(z) for z in y.body] != ['modcls = ssmoddict[modtype]']: raise ExtractError(f'{who}: name lookup changed')
                    facts['bad_name'] = raise_kind(y.orelse, who) or '.ignore'
            for y in x.orelse:
                if isinstance(y, ast.If) and norm(y.test) == 'modtype in moddictvals':
                    if [norm(z) for z in y.body] != ['modcls = modtype']: raise ExtractError(f'{who}: class lookup changed')
                    facts['bad_class'] = raise_kind(y.orelse, who) or '.ignore'
        elif norm(x) == 'mod = modcls(**mod)':
            facts['kwargs'] = True
        elif norm(x) == 'mod = modcls()':
            facts['kwargs'] = False
        elif isinstance(x, ast.Expr) and isinstance(x.value, ast.Constant):
            continue
        else:
            raise ExtractError(f'{who}: unsupported statement: {norm(x)[:100]}')
    if None in (facts['no_type'], facts['bad_name'], facts['bad_class']):
        raise ExtractError(f'{who}: a failure branch was not found: {facts}')
    return facts


def extract_sim(src):
    """ Sim.__init__ up to the parameter update: every statement must be one of the recognised five, in this order """
    rel = 'starsim/sim.py'
    fn = src.func(rel, '__init__', 'Sim')
    a = fn.args
    names = [x.arg for x in a.args]
    if 'copy_inputs' not in names or names[:2] != ['self', 'pars'] or a.kwarg is None:
        raise ExtractError('Sim.__init__: expected (self, pars=None, ..., copy_inputs=..., **kwargs)')
    dflt = dict(zip(names[len(names) - len(a.defaults):], a.defaults))
    d = unparse(dflt['copy_inputs'])
    if d not in ('True', 'False'): raise ExtractError('Sim.__init__: copy_inputs default is not a bool literal')
    stage = 0; fwd = False; order = None; merged = None
    for st in fn.body:
        if isinstance(st, ast.Expr) and isinstance(st.value, ast.Constant): continue
        s = norm(st)
        if stage == 0:
            if s != 'self.pars = ss.make_pars()':
                raise ExtractError(f'Sim.__init__: parameters do not start from fresh defaults: {s[:100]}')
            stage = 1; continue
        if stage == 1:
            ok = (isinstance(st, ast.Assign) and s.startswith('args = dict(') and isinstance(st.value, ast.Call) and not st.value.args
                  and all(isinstance(k.value, ast.Name) and k.value.id == k.arg for k in st.value.keywords))
            if not ok: raise ExtractError(f'Sim.__init__: unsupported statement: {s[:100]}')
            stage = 2; continue
        if stage == 2:
            if s != 'args = {key: val for key, val in args.items() if val is not None}':
                raise ExtractError(f'Sim.__init__: unsupported statement: {s[:100]}')
            stage = 3; continue
        if stage == 3:
            if not (isinstance(st, ast.Assign) and isinstance(st.value, ast.Call) and unparse(st.value.func) == 'sc.mergedicts'):
                raise ExtractError(f'Sim.__init__: unsupported statement: {s[:100]}')
            merged = unparse(st.targets[0])
            kw = {k.arg: unparse(k.value) for k in st.value.keywords}
            order = [unparse(x) for x in st.value.args]
            if sorted(order) != ['args', 'kwargs', 'pars'] or set(kw) - {'_copy'}:
                raise ExtractError(f'Sim.__init__: mergedicts arguments changed: {order} {kw}')
            if '_copy' in kw and kw['_copy'] not in ('copy_inputs', 'True', 'False'):
                raise ExtractError('Sim.__init__: unsupported _copy expression')
            fwd = kw.get('_copy') in ('copy_inputs', 'True')
            if kw.get('_copy') == 'True': d = 'True'
            stage = 4; continue
        if stage == 4:
            if s != f'self.pars.update({merged})':
                raise ExtractError(f'Sim.__init__: merged inputs do not go through the strict update: {s[:100]}')
            stage = 5; break
    if stage != 5: raise ExtractError('Sim.__init__: parameter handling prelude incomplete')
    return dict(copy_default=(d == 'True'), copy_forwarded=fwd, strict_update=True, merge_order=order)


def extract_time(src):
    """ ss.Time.__init__ / Time.update / Module.__init__: where constructor keywords and a `pars=` dict end up when a
        class never calls update_pars """
    rel = 'starsim/time.py'
    init = src.func(rel, '__init__', 'Time')
    ia = init.args
    init_names = [x.arg for x in ia.args][1:]
    init_txt = norm(init)
    if 'self.update(pars=pars, parent=parent)' not in init_txt or 'pars' not in init_names:
        raise ExtractError('Time.__init__: `self.update(pars=pars, parent=parent)` not found')
    upd = src.func(rel, 'update', 'Time')
    ua = upd.args
    if [x.arg for x in ua.args][:2] != ['self', 'pars'] or ua.kwarg is None:
        raise ExtractError('Time.update: signature is not (self, pars=None, ..., **kwargs)')
    kwname = ua.kwarg.arg
    loop = None; leftover = '.ignore'
    for st in upd.body:
        if isinstance(st, ast.Expr) and isinstance(st.value, ast.Constant): continue
        s = norm(st)
        if isinstance(st, ast.For):
            if norm(st.iter) != 'time_args' or loop is not None:
                raise ExtractError(f'Time.update: unsupported loop over {norm(st.iter)}')
            loop = st; continue
        uses = names_in(st) & {'pars', kwname}
        if not uses: continue
        if s == 'pars = sc.mergedicts(pars)': continue
        # a guard on names outside time_args
        if isinstance(st, ast.If) and any(isinstance(x, ast.Raise) for x in ast.walk(st)) and 'time_args' in s:
            r = [x for x in ast.walk(st) if isinstance(x, ast.Raise)][0]
            nm = unparse(r.exc.func) if isinstance(r.exc, ast.Call) else unparse(r.exc)
            if nm not in ERR: raise ExtractError(f'Time.update: unsupported exception {nm}')
            leftover = f'(.raise .{ERR[nm]})'; continue
        if isinstance(st, ast.Assign) and 'time_args' in s and not any(isinstance(x, ast.Raise) for x in ast.walk(st)):
            continue    # e.g. `unknown = set(pars) - set(time_args)` feeding a later guard
        raise ExtractError(f'Time.update: unsupported use of the supplied dict: {s[:100]}')
    if loop is None: raise ExtractError('Time.update: loop over time_args not found')
    ltxt = norm(loop)
    if f'kw_val = {kwname}.get(key)' not in ltxt or 'par_val = pars.get(key)' not in ltxt:
        raise ExtractError('Time.update: kw_val / par_val are not read by key from the supplied dicts')
    # precedence in the default (force is None) branch
    prec = None
    for n in ast.walk(loop):
        if isinstance(n, ast.If) and norm(n.test) == 'force is False':
            for m in n.orelse:
                if isinstance(m, ast.If) and norm(m.test) == 'force is None' and len(m.body) == 1 and isinstance(m.body[0], ast.Assign):
                    c = m.body[0].value
                    if isinstance(c, ast.Call) and unparse(c.func) == 'sc.ifelse':
                        prec = [unparse(x) for x in c.args]
    if prec is None or 'kw_val' not in prec or 'par_val' not in prec:
        raise ExtractError('Time.update: default precedence `sc.ifelse(kw_val, par_val, ...)` not found')
    kw_first = prec.index('kw_val') < prec.index('par_val')
    if 'current_val' not in prec: raise ExtractError('Time.update: current_val missing from the default precedence')
    # Time.__init__ stores its keywords as attributes (current values) BEFORE calling update(pars=pars): in the constructor
    # the `pars=` dict therefore competes with them as par_val against current_val
    stored_first = all(f'self.{k} = {k}' in init_txt.split('self.update(pars=pars, parent=parent)')[0] for k in ('start', 'stop', 'dt', 'unit'))
    if not stored_first: raise ExtractError('Time.__init__: keywords are not stored before update(pars=pars)')
    ctor_pars_win = prec.index('par_val') < prec.index('current_val')
    # Module.__init__ forwards its keywords to ss.Time
    mi = src.func('starsim/modules.py', '__init__', 'Module')
    fwd = any(isinstance(n, ast.Call) and unparse(n.func) == 'ss.Time' and any(k.arg is None and unparse(k.value) == (mi.args.kwarg.arg if mi.args.kwarg else '') for k in n.keywords)
              for n in ast.walk(mi))
    return dict(init_names=init_names, init_varkw=ia.kwarg is not None, leftover=leftover, kw_first=kw_first, ctor_pars_win=ctor_pars_win, module_forwards=fwd)


def extract_ndict(src):
    """ ss.ndict: a second item with a name already present is rejected unless overwrite is set """
    rel = 'starsim/utils.py'
    init = src.func(rel, '__init__', 'ndict')
    kwd = {a.arg: unparse(d) for a, d in zip(init.args.kwonlyargs, init.args.kw_defaults) if d is not None}
    if kwd.get('overwrite') not in ('True', 'False'):
        raise ExtractError('ndict.__init__: keyword-only `overwrite=<bool>` not found')
    ck = src.func(rel, '_check_key', 'ndict')
    action = None
    for st in ck.body:
        if isinstance(st, ast.If) and norm(st.test) == 'key in self':
            for inner in st.body:
                if isinstance(inner, ast.If) and norm(inner.test) == 'not overwrite':
                    r = [x for x in inner.body if isinstance(x, ast.Raise)]
                    if len(r) == 1:
                        nm = unparse(r[0].exc.func) if isinstance(r[0].exc, ast.Call) else unparse(r[0].exc)
                        if nm not in ERR: raise ExtractError(f'ndict._check_key: unsupported exception {nm}')
                        action = f'(.raise .{ERR[nm]})'
                    else:
                        action = '.ignore'
    if action is None:
        raise ExtractError('ndict._check_key: `if key in self: if not overwrite: raise ...` not found')
    ap = norm(src.func(rel, 'append', 'ndict'))
    if 'self._check_key(key, overwrite=overwrite)' not in ap or 'if self._strict:' not in ap:
        raise ExtractError('ndict.append: the strict duplicate check is not applied')
    strict = {a.arg: unparse(d) for a, d in zip(init.args.kwonlyargs, init.args.kw_defaults) if d is not None}.get('strict')
    return dict(overwrite_default=kwd['overwrite'] == 'True', duplicate=action, strict_default=strict == 'True')


def lb(b): return 'true' if b else 'false'


@generator('ParsDispatch', ['starsim/parameters.py', 'starsim/modules.py', 'starsim/sim.py', 'starsim/time.py', 'starsim/utils.py'])
def gen(src):
    u = extract_update(src)
    p = extract_update_pars(src)
    c = extract_convert(src)
    s = extract_sim(src)
    t = extract_time(src)
    nd = extract_ndict(src)
    strl = lambda l: '[' + ', '.join(lean_str(x) for x in l) + ']'
    body = f'''import StarsimModel.Model.ParsCore
namespace StarsimModel.Gen
open StarsimModel.Pars

/-- `parameters.atomic_classes` -/
def atomicClasses : List Cls := [{', '.join('.' + x for x in u['atomic'])}]

/-- `Pars.update`: `if not create: self.check_key_mismatch(pars)` is present before the loop -/
def strictUnlessCreate : Bool := {lb(u['strict'])}

/-- `Pars.update`, branch `key not in self.keys()` -/
def newKeyTree : Tree :=
  {u['new_tree']}

/-- `Pars.update`, branch for an existing key: the ordered chain with the `_update_*` methods inlined -/
def updateTree : Tree :=
  {u['upd_tree']}

/-- `Pars.check_key_mismatch` -/
def keyMismatchTree : Tree :=
  {u['ck_tree']}

/-- `Module.update_pars`: ordered steps -/
def updateParsSteps : List UStep := [{', '.join(p['steps'])}]
def moduleArgs : List String := {strl(p['module_args'])}
def timeArgs : List String := {strl(p['time_args'])}
/-- `Module.set_metadata` raises TypeError for a non-str name/label -/
def metadataTypeChecked : Bool := {lb(p['meta_checked'])}

/-- `SimPars.convert_modules`: ordered per-entry rewrite steps -/
def convertSteps : List CStep := [{', '.join(c['steps'])}]

/-- the dict branch of `convert_modules`, read statement by statement -/
def convertDictNoType : Action := {c['dict_facts']['no_type']}
def convertBadName : Action := {c['dict_facts']['bad_name']}
def convertBadClass : Action := {c['dict_facts']['bad_class']}
def convertLowercases : Bool := {lb(c['dict_facts']['lower'])}
def convertPopsType : Bool := {lb(c['dict_facts']['pops_type'])}
def convertPassesKwargs : Bool := {lb(c['dict_facts']['kwargs'])}

/-- `Sim.__init__`: `copy_inputs` default, forwarded to `sc.mergedicts(_copy=...)`, merged dict passed to the strict `self.pars.update` -/
def simCopyDefault : Bool := {lb(s['copy_default'])}
def simCopyForwarded : Bool := {lb(s['copy_forwarded'])}
def simStrictUpdate : Bool := {lb(s['strict_update'])}
/-- `sc.mergedicts(<order>)`: later dicts win -/
def simMergeOrder : List String := {strl(s['merge_order'])}

/-- `Module.__init__`: `self.t = ss.Time(**kwargs, ...)` — keywords of a class that never calls update_pars go to ss.Time -/
def moduleInitForwardsToTime : Bool := {lb(t['module_forwards'])}
/-- named parameters of `Time.__init__` (a keyword outside this list is a Python TypeError unless it takes **kwargs) -/
def timeInitNames : List String := {strl(t['init_names'])}
def timeInitVarKw : Bool := {lb(t['init_varkw'])}
/-- `Time.update`: what happens to entries of the `pars` dict / keywords that are not time arguments -/
def timeUpdateLeftover : Action := {t['leftover']}
/-- `Time.update`: a keyword wins over the same key in the `pars` dict -/
def timeKwBeforePars : Bool := {lb(t['kw_first'])}
/-- `Time.__init__` stores its keywords, then `update(pars=pars)`: the dict entry beats the stored keyword (`par_val` before `current_val`) -/
def timeCtorParsWin : Bool := {lb(t['ctor_pars_win'])}

/-- `Module.update_pars`: `sc.mergedicts(<order>)` of the positional dict and the keywords; later wins -/
def updateParsMergeOrder : List String := {strl(p['merge_order'])}

/-- `ss.ndict`: a name that is already present -/
def ndictDuplicateAction : Action := {nd['duplicate']}
def ndictOverwriteDefault : Bool := {lb(nd['overwrite_default'])}
def ndictStrictDefault : Bool := {lb(nd['strict_default'])}
end StarsimModel.Gen
'''
    facts = dict(strict=u['strict'], atomic=u['atomic'], update_tree=' '.join(u['upd_tree'].split()),
                 new_key_tree=u['new_tree'], key_mismatch_tree=' '.join(u['ck_tree'].split()),
                 update_pars_steps=p['steps'], module_args=p['module_args'], time_args=p['time_args'],
                 meta_checked=p['meta_checked'], convert_steps=c['steps'], convert_dict=c['dict_facts'], sim=s, time=t, ndict=nd, update_pars_merge=p['merge_order'])
    return body, facts
