"""
Extractor for Generated/DistLink.lean (C03): the statements of `Dist.init` -- with `self.process_dist()` inlined where it is
called -- that touch `self.rng` (the Dist's own generator) or a `random_state` (the generator a frozen SciPy sampler draws from),
in source order and in the vocabulary of Model/Link.lean; plus every OTHER store to `self.rng` / `.random_state` in
starsim/distributions.py (only the `self.rng = None` of `Dist.__init__` is accepted).

Pure AST.  Guards: the enclosing `if self.dist is not None:` of `process_dist` is the applicability condition ("there is a SciPy
sampler") and is dropped; `if not self.initialized:` -> firstInitOnly; anything else -> other.
"""
import ast
from harness.extract import generator, ExtractError, unparse, lean_str

REL = 'starsim/distributions.py'


def is_rng(t):
    return isinstance(t, ast.Attribute) and t.attr == 'rng' and unparse(t.value) == 'self'


def is_rs(t):
    return isinstance(t, ast.Attribute) and t.attr == 'random_state'


def targets(n):
    if isinstance(n, ast.Assign): return list(n.targets)
    if isinstance(n, (ast.AugAssign, ast.AnnAssign)): return [n.target]
    if isinstance(n, ast.Delete): return list(n.targets)
    return []


def flat(t):
    if isinstance(t, (ast.Tuple, ast.List)):
        for e in t.elts: yield from flat(e)
    elif isinstance(t, ast.Starred): yield from flat(t.value)
    else: yield t


def walk_stmts(body, guards):
    """ statements in source order with the list of enclosing conditions (text) """
    for n in body:
        if isinstance(n, ast.If):
            c = unparse(n.test)
            yield from walk_stmts(n.body, guards + [c])
            yield from walk_stmts(n.orelse, guards + [f'not ({c})'])
        elif isinstance(n, (ast.For, ast.While, ast.With, ast.Try)):
            inner = []
            for f in ('body', 'orelse', 'finalbody'): inner += getattr(n, f, [])
            for h in getattr(n, 'handlers', []): inner += h.body
            yield from walk_stmts(inner, guards + [type(n).__name__])
        else:
            yield n, guards


def guard_of(gs):
    gs = [g for g in gs if g != 'self.dist is not None']
    if not gs: return 'always'
    if gs == ['not self.initialized']: return 'firstInitOnly'
    return 'other'


def process_dist_stmts(fn):
    out = []
    for n, gs in walk_stmts(fn.body, []):
        for t in (x for tt in targets(n) for x in flat(tt)):
            if is_rs(t):
                ok = isinstance(n, ast.Assign) and unparse(t) == 'self.dist.random_state' and unparse(n.value) == 'self.rng' and len(n.targets) == 1
                out.append((f'link .{guard_of(gs)}' if ok else 'otherWrite', unparse(n)[:80]))
            elif is_rng(t):
                out.append(('otherWrite', unparse(n)[:80]))
            elif unparse(t) == 'self.dist':
                out.append(('newSampler', unparse(n)[:80]))
    return out


@generator('DistLink', [REL])
def gen_dist_link(src):
    init = src.func(REL, 'init', 'Dist')
    pd = src.func(REL, 'process_dist', 'Dist')
    prog = []
    ncall = 0
    for n in init.body:
        # `if ss.options._centralized: self.rng = <global> else: self.rng = np.random.default_rng(seed=self.seed)`
        if isinstance(n, ast.If) and any(is_rng(t) for m in ast.walk(n) for tt in targets(m) for t in flat(tt)):
            good = (unparse(n.test) == 'ss.options._centralized' and len(n.orelse) == 1 and isinstance(n.orelse[0], ast.Assign)
                    and is_rng(n.orelse[0].targets[0]) and unparse(n.orelse[0].value) == 'np.random.default_rng(seed=self.seed)')
            prog.append(('newRng' if good else 'otherWrite', unparse(n)[:80].replace('\n', ' ; ')))
            continue
        for m, gs in walk_stmts([n], []):
            for t in (x for tt in targets(m) for x in flat(tt)):
                if is_rng(t):
                    good = isinstance(m, ast.Assign) and not gs and unparse(m.value) == 'np.random.default_rng(seed=self.seed)'
                    prog.append(('newRng' if good else 'otherWrite', unparse(m)[:80]))
                elif is_rs(t):
                    prog.append(('otherWrite', unparse(m)[:80]))
            for c in ast.walk(m):
                if isinstance(c, ast.Call) and unparse(c.func) == 'self.process_dist':
                    if gs: raise ExtractError(f'Dist.init: process_dist called under a condition {gs}')
                    ncall += 1
                    prog += process_dist_stmts(pd)
    if ncall != 1:
        raise ExtractError(f'Dist.init calls self.process_dist() {ncall} times (expected once)')
    if not any(k == 'newRng' for k, _ in prog):
        raise ExtractError('Dist.init: creation of the generator (`self.rng = np.random.default_rng(seed=self.seed)`) not found')
    # every other store to self.rng / a random_state in the file
    others = []
    tree = src.tree(REL)
    for cls in [c for c in tree.body if isinstance(c, ast.ClassDef)]:
        for fn in [f for f in cls.body if isinstance(f, ast.FunctionDef)]:
            if cls.name == 'Dist' and fn.name in ('init', 'process_dist'): continue
            for m in ast.walk(fn):
                for t in (x for tt in targets(m) for x in flat(tt)):
                    if is_rs(t) or (isinstance(t, ast.Attribute) and t.attr == 'rng'):
                        txt = unparse(m)[:80]
                        if cls.name == 'Dist' and fn.name == '__init__' and txt == 'self.rng = None': continue
                        others.append((f'{cls.name}.{fn.name}', txt))
                if isinstance(m, ast.Call) and isinstance(m.func, ast.Name) and m.func.id in ('setattr', 'delattr') and len(m.args) >= 2 \
                        and isinstance(m.args[1], ast.Constant) and m.args[1].value in ('rng', 'random_state'):
                    others.append((f'{cls.name}.{fn.name}', unparse(m)[:80]))
    rows = ',\n  '.join(f'.{k}' for k, _ in prog)
    orows = ', '.join(lean_str(f'{q}: {t}') for q, t in others)
    body = f'''import StarsimModel.Model.Link
namespace StarsimModel.Gen
open StarsimModel.Link
/-- the statements of `Dist.init` (with `process_dist` inlined) that touch `self.rng` / `self.dist` / a `random_state`, in source order -/
def distInitProg : List Stmt := [
  {rows}]
/-- every other store to `self.rng` / a `random_state` in starsim/distributions.py (besides `self.rng = None` in `Dist.__init__`) -/
def otherRngWriters : List String := [{orows}]
end StarsimModel.Gen
'''
    return body, dict(prog=[dict(kind=k, text=t) for k, t in prog], others=[dict(fn=q, text=t) for q, t in others])
