"""
Extractor for Generated/HistoryWriters.lean (C03): every statement of the package that WRITES a `history` attribute (the list of
saved generator states `Dist.reset()` / `Dist.jump()` restore entry 0 of), in the vocabulary of Model/History.lean.

Pure AST over the runtime modules.  Recognised: `<x>.history = []` (clear), `<x>.history.append(self.get_state())` (append),
`dist.history = shrunk` inside `Sim.shrink` (shrink).  Every other store / delete / augmented assignment / mutating method call
on a `.history` attribute, and every aliasing of it to a name, is reported as `other` (which the theorem
`C03_history_writers_modelled` rejects); reads (`self.history[k]`) are not writers.  Also extracted: `Dist.reset` restores
`self.history[state]` with default `state=0`, and `Dist.jump` calls `self.reset()` without arguments before `jumped`.
"""
import ast
from harness.extract import generator, ExtractError, unparse, lean_str

FILES = ['starsim/distributions.py', 'starsim/modules.py', 'starsim/sim.py', 'starsim/loop.py', 'starsim/people.py', 'starsim/networks.py',
         'starsim/disease.py', 'starsim/demographics.py', 'starsim/interventions.py', 'starsim/products.py', 'starsim/run.py', 'starsim/utils.py']
READ_METHODS = {'copy', 'index', 'count', '__len__', '__getitem__'}


def is_hist(node):
    return isinstance(node, ast.Attribute) and node.attr == 'history'


def touches_hist_store(t):
    """ an assignment / delete target that is `.history`, or a subscript / slice / attribute of it, or a tuple containing one """
    if is_hist(t): return True
    if isinstance(t, (ast.Subscript, ast.Attribute, ast.Starred)): return touches_hist_store(t.value)
    if isinstance(t, (ast.Tuple, ast.List)): return any(touches_hist_store(e) for e in t.elts)
    return False


def scan(tree):
    """ -> list of (qualified function name, kind, text) """
    out = []
    def visit(node, qual):
        for ch in ast.iter_child_nodes(node):
            q = qual
            if isinstance(ch, ast.ClassDef): q = ch.name
            elif isinstance(ch, (ast.FunctionDef, ast.AsyncFunctionDef)): q = (qual + '.' if qual else '') + ch.name
            handle(ch, qual)
            visit(ch, q)
    def handle(n, qual):
        txt = unparse(n)[:90]
        if isinstance(n, ast.Assign):
            if any(touches_hist_store(t) for t in n.targets):
                if len(n.targets) == 1 and is_hist(n.targets[0]) and isinstance(n.value, ast.List) and not n.value.elts: out.append((qual, 'clear', txt))
                elif len(n.targets) == 1 and is_hist(n.targets[0]) and unparse(n.value) == 'shrunk': out.append((qual, 'shrink', txt))
                else: out.append((qual, 'other', txt))
            elif is_hist(n.value): out.append((qual, 'other', txt))         # aliasing: `h = dist.history`
        elif isinstance(n, (ast.AugAssign, ast.AnnAssign)):
            if touches_hist_store(n.target): out.append((qual, 'other', txt))
        elif isinstance(n, ast.Delete):
            if any(touches_hist_store(t) for t in n.targets): out.append((qual, 'other', txt))
        elif isinstance(n, (ast.For, ast.comprehension)):
            if touches_hist_store(n.target): out.append((qual, 'other', txt))
        elif isinstance(n, ast.Call):
            f = n.func
            if isinstance(f, ast.Attribute) and is_hist(f.value):
                if f.attr == 'append' and len(n.args) == 1 and not n.keywords and unparse(n.args[0]) == 'self.get_state()': out.append((qual, 'append', txt))
                elif f.attr not in READ_METHODS: out.append((qual, 'other', txt))
            elif isinstance(f, ast.Name) and f.id in ('setattr', 'delattr') and len(n.args) >= 2 and isinstance(n.args[1], ast.Constant) and n.args[1].value == 'history':
                out.append((qual, 'other', txt))
            elif any(is_hist(a) for a in n.args) and not (isinstance(f, ast.Name) and f.id in ('len', 'str', 'repr', 'print')):
                out.append((qual, 'other', txt))         # the list handed to another function
    visit(tree, '')
    return out


@generator('HistoryWriters', FILES)
def gen_history_writers(src):
    import os
    sites = []
    for rel in FILES:
        if not os.path.exists(os.path.join(src.repo, rel)):
            raise ExtractError(f'{rel} not found')
        for q, k, t in scan(src.tree(rel)):
            sites.append((q, k, t))
    if not any(k == 'append' for _, k, _ in sites):
        raise ExtractError('no `self.history.append(self.get_state())` found: how states are saved changed')
    rel = 'starsim/distributions.py'
    # Dist.reset(self, state=0): restores self.history[state]
    rs = src.func(rel, 'reset', 'Dist')
    if [a.arg for a in rs.args.args] != ['self', 'state'] or len(rs.args.defaults) != 1 or not (isinstance(rs.args.defaults[0], ast.Constant) and rs.args.defaults[0].value == 0):
        raise ExtractError('Dist.reset(self, state=0) signature changed')
    if not any(isinstance(n, ast.Assign) and unparse(n.targets[0]) == 'state' and unparse(n.value) == 'self.history[state]' for n in ast.walk(rs)):
        raise ExtractError('Dist.reset: `state = self.history[state]` not found')
    # Dist.jump: self.reset() with no arguments, before the assignment from jumped(...)
    jp = src.func(rel, 'jump', 'Dist')
    order = []
    for n in ast.walk(jp):
        if isinstance(n, ast.Call) and unparse(n.func) == 'self.reset':
            if n.args or n.keywords: raise ExtractError(f'Dist.jump: reset called with arguments: {unparse(n)!r}')
            order.append(('reset', n.lineno))
        if isinstance(n, ast.Call) and isinstance(n.func, ast.Attribute) and n.func.attr == 'jumped':
            order.append(('jumped', n.lineno))
    order.sort(key=lambda x: x[1])
    if [o[0] for o in order] != ['reset', 'jumped']:
        raise ExtractError(f'Dist.jump: expected one `self.reset()` followed by one `jumped(...)`, found {order}')
    rows = ',\n  '.join(f'⟨{lean_str(q)}, .{k}⟩' for q, k, _ in sites)
    body = f'''import StarsimModel.Model.History
namespace StarsimModel.Gen
open StarsimModel.Hist
/-- every statement of the package that writes a `history` attribute: (function, kind), in file / source order -/
def historyWriters : List Site := [
  {rows}]
/-- `Dist.reset(state=0)` restores `self.history[state]`; `Dist.jump` calls `self.reset()` and then `jumped` -/
def jumpResetsToSaved : Nat := 0
end StarsimModel.Gen
'''
    return body, dict(sites=[dict(fn=q, kind=k, text=t) for q, k, t in sites])
