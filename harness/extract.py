"""
AST extractor / translator:  /repo/starsim/*.py  ->  lean/StarsimModel/Generated/*.lean   (DESIGN.md 3.3)

Pure `ast` parsing, failing closed: a construct outside the supported subset raises ExtractError,
which the check treats as a broken tie (never as a silently skipped fact).

Every generator is registered with @generator(name, [source files]) and returns (lean_source_body, facts_dict).
Further generators live in harness/extractors/*.py (imported at the bottom).
"""
import ast, os, hashlib, fractions, json, importlib, pkgutil

GENERATORS = {}


class ExtractError(Exception):
    pass


def generator(name, files):
    def deco(fn):
        GENERATORS[name] = (fn, files)
        return fn
    return deco


# ---------------------------------------------------------------------------
# helpers

class Src:
    """ Parsed source files of the repo, cached per run """
    def __init__(self, repo):
        self.repo = repo
        self.cache = {}

    def text(self, rel):
        return open(os.path.join(self.repo, rel)).read()

    def tree(self, rel):
        if rel not in self.cache:
            self.cache[rel] = ast.parse(self.text(rel))
        return self.cache[rel]

    def cls(self, rel, name):
        for n in ast.walk(self.tree(rel)):
            if isinstance(n, ast.ClassDef) and n.name == name:
                return n
        raise ExtractError(f'class {name} not found in {rel}')

    def func(self, rel, name, cls=None):
        scope = self.cls(rel, cls).body if cls else self.tree(rel).body
        for n in scope:
            if isinstance(n, (ast.FunctionDef,)) and n.name == name:
                return n
        raise ExtractError(f'function {cls + "." if cls else ""}{name} not found in {rel}')


def lit_rat(node):
    """ A numeric literal as an exact Fraction via its decimal source text """
    if isinstance(node, ast.UnaryOp) and isinstance(node.op, ast.USub):
        return -lit_rat(node.operand)
    if isinstance(node, ast.Constant) and isinstance(node.value, (int, float)) and not isinstance(node.value, bool):
        return fractions.Fraction(repr(node.value)) if isinstance(node.value, float) else fractions.Fraction(node.value)
    raise ExtractError(f'not a numeric literal: {ast.dump(node)[:80]}')


def lean_rat(fr):
    fr = fractions.Fraction(fr)
    if fr.denominator == 1:
        return f'({fr.numerator} : Rat)'
    return f'(({fr.numerator} : Rat) / {fr.denominator})'


def lean_str(s):
    return '"' + s.replace('\\', '\\\\').replace('"', '\\"') + '"'


def unparse(n):
    return ast.unparse(n)


# ---------------------------------------------------------------------------
# generators of the constant tables

@generator('RngConsts', ['starsim/distributions.py'])
def gen_rng_consts(src):
    rel = 'starsim/distributions.py'
    init = src.func(rel, '__init__', 'Dist')
    stride = None
    for n in ast.walk(init):
        if isinstance(n, ast.Assign) and len(n.targets) == 1 and unparse(n.targets[0]) == 'self.dt_jump_size':
            stride = lit_rat(n.value)
    if stride is None or stride.denominator != 1:
        raise ExtractError('Dist.__init__: self.dt_jump_size = <int literal> not found')
    s2i = src.func(rel, 'str2int')
    dflt = s2i.args.defaults
    if len(s2i.args.args) != 2 or s2i.args.args[1].arg != 'modulo' or len(dflt) != 1:
        raise ExtractError('str2int(string, modulo=<int>) signature changed')
    modulo = lit_rat(dflt[0])
    # jump_dt: `to = <expression in self.dt_jump_size and ti>`, translated (any arrangement of * and +);
    # default `ti = <owner's ti> + <offset>`
    jd = src.func(rel, 'jump_dt', 'Dist')
    to_node = None; ti_node = None
    for n in ast.walk(jd):
        if isinstance(n, ast.Assign) and unparse(n.targets[0]) == 'to':
            to_node = n.value
        if isinstance(n, ast.Assign) and unparse(n.targets[0]) == 'ti':
            ti_node = n.value
    if to_node is None or ti_node is None:
        raise ExtractError('Dist.jump_dt: assignments to `to` / default `ti` not found')

    def tr_int(n, env):
        if isinstance(n, ast.Constant) and isinstance(n.value, int) and not isinstance(n.value, bool):
            return f'({n.value} : Int)'
        if isinstance(n, (ast.Name, ast.Attribute)) and unparse(n) in env:
            return env[unparse(n)]
        if isinstance(n, ast.BinOp) and isinstance(n.op, (ast.Mult, ast.Add, ast.Sub)):
            op = {ast.Mult: '*', ast.Add: '+', ast.Sub: '-'}[type(n.op)]
            return f'({tr_int(n.left, env)} {op} {tr_int(n.right, env)})'
        raise ExtractError(f'Dist.jump_dt: unsupported expression {unparse(n)}')
    to_lean = tr_int(to_node, {'self.dt_jump_size': f'({stride.numerator} : Int)', 'ti': 'ti'})
    ti_lean = tr_int(ti_node, {'self.module.t.ti': 'ownerTi', 'self.module.ti': 'ownerTi'})
    to_expr = unparse(to_node); ti_default = unparse(ti_node)
    # jump: default delta
    jp = src.func(rel, 'jump', 'Dist')
    names = [a.arg for a in jp.args.args]
    if names != ['self', 'to', 'delta', 'force']:
        raise ExtractError(f'Dist.jump signature changed: {names}')
    delta = lit_rat(jp.args.defaults[1])
    body = f'''namespace StarsimModel.Gen
/-- `Dist.__init__`: `self.dt_jump_size` -/
def dtJumpSize : Nat := {stride.numerator}
/-- `str2int(string, modulo=...)` -/
def seedModulo : Nat := {modulo.numerator}
/-- `Dist.jump(to=None, delta=...)` -/
def jumpDefaultDelta : Nat := {delta.numerator}
/-- `Dist.jump_dt`: default `ti = module.t.ti + 1` (offset) -/
def jumpDtTiOffset : Nat := 1
/-- `Dist.jump_dt`: `to = {to_expr}`, translated -/
def jumpDtTarget (ti : Int) : Int := {to_lean}
/-- `Dist.jump_dt`: default `ti = {ti_default}`, translated -/
def jumpDtDefaultTi (ownerTi : Int) : Int := {ti_lean}
end StarsimModel.Gen
'''
    return body, dict(dt_jump_size=int(stride), modulo=int(modulo), delta=int(delta))


@generator('TimeUnits', ['starsim/time.py'])
def gen_time_units(src):
    rel = 'starsim/time.py'
    units = None
    for n in src.tree(rel).body:
        if isinstance(n, ast.Assign) and unparse(n.targets[0]) == 'time_units':
            call = n.value
            if not (isinstance(call, ast.Call) and unparse(call.func) in ('sc.objdict', 'dict', 'sc.odict')):
                raise ExtractError('time_units is not an objdict(...) literal')
            units = [(k.arg, lit_rat(k.value)) for k in call.keywords]
    if not units:
        raise ExtractError('time_units not found')
    names = [u for u, _ in units]
    for need in ('day', 'week', 'month', 'year'):
        if need not in names:
            raise ExtractError(f'time unit {need} missing')
    rows = ',\n  '.join(f'({lean_str(u)}, {lean_rat(v)})' for u, v in units)
    body = f'''namespace StarsimModel.Gen
/-- `time.time_units` (length of each unit in days), exact decimal literals -/
def timeUnits : List (String × Rat) := [
  {rows}]
end StarsimModel.Gen
'''
    return body, {u: str(v) for u, v in units}


PHASES = {  # (container expression, method) -> documented phase
}


@generator('PhaseOrder', ['starsim/loop.py', 'starsim/settings.py'])
def gen_phase_order(src):
    """ The statement sequence of Loop.collect_funcs as an ordered table of (container, method, guard) """
    rel = 'starsim/loop.py'
    fn = src.func(rel, 'collect_funcs', 'Loop')
    rows = []

    def aug(st, container, guard):
        if not (isinstance(st, ast.AugAssign) and isinstance(st.op, ast.Add) and unparse(st.target) == 'self'):
            raise ExtractError(f'collect_funcs: unsupported statement {unparse(st)[:80]}')
        v = st.value
        if not isinstance(v, ast.Attribute):
            raise ExtractError(f'collect_funcs: appended value is not a bound method: {unparse(v)}')
        return (container, unparse(v.value), v.attr, guard)

    for st in fn.body:
        if isinstance(st, ast.Expr) and isinstance(st.value, ast.Constant):
            continue
        if isinstance(st, ast.Assign):
            t = unparse(st.targets[0]); v = unparse(st.value)
            if (t, v) in (('self.funcs', '[]'), ('sim', 'self.sim')):
                continue
            raise ExtractError(f'collect_funcs: unsupported assignment {t} = {v}')
        if isinstance(st, ast.Return):
            continue
        if isinstance(st, ast.AugAssign):
            c, obj, meth, g = aug(st, None, None)
            rows.append((obj, meth, ''))
            continue
        if isinstance(st, ast.For):
            it = unparse(st.iter); var = unparse(st.target)
            if st.orelse:
                raise ExtractError('collect_funcs: for-else')
            for inner in st.body:
                guard = ''
                if isinstance(inner, ast.If):
                    if inner.orelse or len(inner.body) != 1:
                        raise ExtractError('collect_funcs: unsupported if')
                    guard = unparse(inner.test)
                    inner = inner.body[0]
                c, obj, meth, g = aug(inner, it, guard)
                if obj != var:
                    raise ExtractError(f'collect_funcs: loop over {it} appends method of {obj}')
                rows.append((it, meth, guard))
            continue
        raise ExtractError(f'collect_funcs: unsupported statement {unparse(st)[:80]}')
    # time_eps default
    eps = None
    for n in ast.walk(src.tree('starsim/settings.py')):
        if isinstance(n, ast.Assign) and unparse(n.targets[0]) == 'options.time_eps':
            call = n.value
            if isinstance(call, ast.Call) and unparse(call.func) == 'sc.parse_env':
                eps = lit_rat(call.args[1])
    if eps is None:
        raise ExtractError('options.time_eps default not found')
    # plan sort key
    mp = src.func(rel, 'make_plan', 'Loop')
    key = None; sort_col = None
    for n in ast.walk(mp):
        if isinstance(n, ast.Assign) and unparse(n.targets[0]) == "self.plan['step_order']":
            key = unparse(n.value)
        if isinstance(n, ast.Call) and isinstance(n.func, ast.Attribute) and n.func.attr == 'sort_values':
            sort_col = unparse(n.args[0]) if n.args else None
    if key != 'self.plan.time + ss.options.time_eps * self.plan.func_order' or sort_col != "'step_order'":
        raise ExtractError(f'make_plan: sort key changed: {key!r} sorted by {sort_col!r}')
    lrows = ',\n  '.join(f'({lean_str(c)}, {lean_str(m)}, {lean_str(g)})' for c, m, g in rows)
    body = f'''namespace StarsimModel.Gen
/-- `Loop.collect_funcs`: ordered (container expression, method appended, guard) -/
def collectFuncs : List (String × String × String) := [
  {lrows}]
/-- `options.time_eps` default -/
def timeEps : Rat := {lean_rat(eps)}
end StarsimModel.Gen
'''
    return body, dict(rows=[list(r) for r in rows], time_eps=str(eps))


# ---------------------------------------------------------------------------

def run_all(repo, outdir, only=None):
    """ Regenerate every Generated/*.lean; returns {name: {ok, error, sha, facts}} """
    # load plug-in extractors
    import harness.extractors as ex
    res = {}
    for m in pkgutil.iter_modules(ex.__path__):
        try:
            importlib.import_module(f'harness.extractors.{m.name}')
        except Exception as e:  # a broken plug-in only affects the properties that need its generated files
            res[f'__plugin__{m.name}'] = dict(ok=False, sha=None, facts=None, error=f'plug-in import failed: {type(e).__name__}: {e}')
    os.makedirs(outdir, exist_ok=True)
    src = Src(repo)
    for name, (fn, files) in GENERATORS.items():
        if only and name not in only: continue
        try:
            h = hashlib.sha256()
            for f in files:
                h.update(open(os.path.join(repo, f), 'rb').read())
            sha = h.hexdigest()
            body, facts = fn(src)
            text = f'-- GENERATED by harness/extract.py from {", ".join(files)} — do not edit\n-- source sha256: {sha}\n' + body
            path = os.path.join(outdir, name + '.lean')
            if not os.path.exists(path) or open(path).read() != text:
                open(path, 'w').write(text)
            res[name] = dict(ok=True, sha=sha, facts=facts, error=None)
        except Exception as e:  # fail closed: any problem is a broken tie for the properties depending on this file
            res[name] = dict(ok=False, sha=None, facts=None, error=f'{type(e).__name__}: {e}')
    return res


if __name__ == '__main__':
    import sys
    here = os.path.dirname(os.path.dirname(os.path.abspath(__file__)))
    from harness import extract as _E   # (plug-ins register with the imported module, not with __main__)
    r = _E.run_all(os.environ.get('STARSIM_REPO', '/repo'), os.path.join(here, 'lean', 'StarsimModel', 'Generated'))
    print(json.dumps(r, indent=1))
