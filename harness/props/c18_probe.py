"""
Probe module for C18: an analyzer that stamps the process id and the wall-clock interval of the run it was
part of.  It draws no random numbers and has no results; it travels with the pickled sim to the worker and
back, which is how the harness observes the schedule (which worker ran which member, in which order) of a
real parallel run.  The stamps are only used to ORDER events and to count workers, never compared.
"""
import os, time
import starsim as ss


class Stamp(ss.Analyzer):
    def __init__(self, **kwargs):
        super().__init__(**kwargs)
        self.pid = None
        self.t0 = None
        self.t1 = None

    def init_pre(self, sim):
        super().init_pre(sim)
        self.pid = os.getpid()
        self.t0 = time.time()
        return

    def step(self):
        pass

    def finalize(self):
        super().finalize()
        self.t1 = time.time()
        return
