"""
C16 round 3: two families that are always exercised (each BOTH compared with the model in correspond() and checked against an
independent reference in search()).

  * declarations: a per-unit-time parameter WRITTEN in every spelling — the number itself (`ss.dur(10, unit=U)`, `ss.days(10)`,
    `ss.rate`, `ss.perday`, `ss.beta`, `ss.time_prob`), inside a distribution (`ss.lognorm_ex(mean=ss.dur(10, unit=U))`) and as a
    wrapper around a distribution (`ss.dur(dist, unit=U)`, `ss.days(dist)`, `ss.rate(dist, unit=U)`, `ss.perday(dist)`) — as a
    parameter of a module stepping (unit, dt): the per-step value / the sampled variates are the DECLARED value converted with the
    DECLARED unit.  The reference never reads the unit back from the object: variates are compared with the variates of a twin
    module holding the bare distribution (same parameter name -> same stream), scaled by the declared unit / module step.
    The built-in modules are covered through the declaration table regenerated from their source (Generated/TimeDecls.lean,
    `facts['decls']`): every declared (kind, unit, value) against the initialised object, for EVERY built-in class, every run.
  * consumption of beta: the acquisition probability a MixingPool / MixingPools hands to its Bernoulli draw, and the new
    infections of one call of `Infection.infect` on an ordinary network, against the declared per-unit-time beta converted to the
    route's / disease's step (exact where the probability is observable, statistical on the event counts).
"""
import math, os
from fractions import Fraction as Fr
import numpy as np

U = 2.0 ** -53


def F(sig, what):
    return dict(signature=sig, what=what)


# ---------------------------------------------------------------------------
# declarations

DISTS = dict(lognorm_ex=dict(mean=10, std=2), normal=dict(loc=8, scale=1), uniform=dict(low=2, high=4), expon=dict(scale=6), constant=dict(v=3))
SHORT = dict(days=('dur', 'day'), years=('dur', 'year'), perday=('rate', 'day'), peryear=('rate', 'year'))     # what the NAMES promise
UNITS = [None, 'day', 'week', 'month', 'year']
MOD_LINES = [('year', 1.0, {}), ('year', 0.25, {}), ('week', 1, {}), ('day', 1, dict(unit='week', dt=2)), ('year', 0.5, dict(unit='day', dt=2)),
             ('day', 7, dict(unit='month', dt=1)), ('month', 1, {}), ('year', 1.0, dict(unit='day', dt=1))]


def decl_specs(rng, n_extra=6):
    """ JSON-able declarations: dict(form, ctor, unit, dist, v).  A fixed core (every spelling x a unit that differs from typical
        module units) plus seeded extras. """
    core = []
    for u in ('day', 'month'):
        core += [dict(form='plain', ctor='dur', unit=u, dist=None, v=10), dict(form='plain', ctor='rate', unit=u, dist=None, v=0.05),
                 dict(form='plain', ctor='beta', unit=u, dist=None, v=0.02), dict(form='plain', ctor='time_prob', unit=u, dist=None, v=0.1),
                 dict(form='inside', ctor='dur', unit=u, dist='lognorm_ex', v=None), dict(form='wrapped', ctor='dur', unit=u, dist='lognorm_ex', v=None),
                 dict(form='wrapped', ctor='rate', unit=u, dist='uniform', v=None), dict(form='inside', ctor='rate', unit=u, dist='uniform', v=None)]
    for sc_ in ('days', 'years', 'perday', 'peryear'):
        core += [dict(form='plain', ctor=sc_, unit=None, dist=None, v=4), dict(form='wrapped', ctor=sc_, unit=None, dist='normal', v=None),
                 dict(form='inside', ctor=sc_, unit=None, dist='uniform', v=None)]
    extra = []
    for _ in range(n_extra):
        form = rng.choice(['plain', 'inside', 'wrapped', 'wrapped'])
        ctor = rng.choice(['dur', 'rate', 'dur', 'days', 'years', 'perday', 'peryear'] + (['beta', 'time_prob'] if form == 'plain' else []))
        extra.append(dict(form=form, ctor=ctor, unit=None if ctor in SHORT else rng.choice(UNITS), dist=None if form == 'plain' else rng.choice(sorted(DISTS)),
                          v=rng.choice([10, 0.5, 3, 0.05]) if form == 'plain' else None, positional=rng.random() < 0.5))
    for e in extra:
        if e['ctor'] in ('beta', 'time_prob') and e['v'] > 1: e['v'] = 0.05
    return core + extra


def make_decl(spec, bare=False):
    """ the starsim object of a declaration; bare: the same distribution / number without any time unit """
    import starsim as ss
    ctor = getattr(ss, spec['ctor'])
    kw = {} if spec['ctor'] in SHORT else dict(unit=spec['unit'])
    if spec['form'] == 'plain':
        return spec['v'] if bare else ctor(spec['v'], **kw)
    dpars = dict(DISTS[spec['dist']])
    dist = getattr(ss, spec['dist'])
    if bare: return dist(**dpars)
    if spec['form'] == 'wrapped':
        return ctor(v=dist(**dpars), **kw) if spec.get('positional') is False else ctor(dist(**dpars), **kw)
    k0 = next(iter(dpars))
    dpars[k0] = ctor(dpars[k0], **kw)
    return dist(**dpars)


def decl_kind_unit(spec):
    if spec['ctor'] in SHORT: return SHORT[spec['ctor']]
    return spec['ctor'], spec['unit']


def decl_value(spec):
    return spec['v'] if spec['form'] == 'plain' else next(iter(DISTS[spec['dist']].values()))


def probe_class():
    import starsim as ss

    class C16Probe(ss.Disease):
        """ a module whose parameters are the declarations under test (nothing else happens in it) """
        def __init__(self, decls=None, **kwargs):
            super().__init__()
            self.define_pars(**(decls or {}))
            self.update_pars(None, **kwargs)

        def step(self): pass
    return C16Probe


def build_probe(specs, su, sdt, mkw, bare=False, seed=1, n_agents=40):
    import starsim as ss
    decls = {f'p{i}': make_decl(s, bare=bare) for i, s in enumerate(specs)}
    sim = ss.Sim(n_agents=n_agents, unit=su, dt=sdt, dur=4 * sdt, diseases=probe_class()(decls=decls, **mkw), rand_seed=seed, verbose=0)
    sim.init()
    return sim, sim.diseases[0]


def first_timepar(obj):
    """ the TimePar of a declaration's object: itself, or the (first) TimePar among the distribution's parameters """
    import starsim as ss
    if isinstance(obj, ss.TimePar): return obj
    if isinstance(obj, ss.Dist):
        for v in obj.pars.values():
            if isinstance(v, ss.TimePar): return v
    return None


def ref_factor(c06, declared_unit, mu, mdt):
    """ declared unit (None = the module's unit, by definition of an undeclared unit) per module step, exact """
    return c06.exact_ratio(declared_unit or mu, 1.0, mu, mdt)


def check_scalar(c06, kind, v, val, f):
    """ per-step value of a scalar declaration against the declared number and the declared unit """
    if kind == 'dur': return c06.close(c06.fr(v) * f, c06.fr(val), 16 * U)
    if kind == 'rate': return c06.close(c06.fr(v) / f, c06.fr(val), 16 * U)
    if kind in ('time_prob', 'beta'):
        ref, tol = c06.tp_ref(v, f); return abs(c06.D(val) - ref) <= c06.Dm(tol)
    return abs(c06.D(val) - (1 - (-c06.D(v) / c06.D(f)).exp())) <= c06.Dm(1e-14)


def o_declared(a, c16):
    """ one module line x a list of declarations: per-step values and sampled variates from the DECLARED unit """
    import starsim as ss
    c06 = c16.c06
    su, sdt = a['sim']; mkw = a['mod']; specs = a['specs']
    simA, dA = build_probe(specs, su, sdt, mkw, seed=a.get('seed', 1))
    simB, dB = build_probe(specs, su, sdt, mkw, bare=True, seed=a.get('seed', 1))
    mu, mdt = dA.t.unit, dA.t.dt
    uids = simA.people.auids[:10]
    for i, s in enumerate(specs):
        kind, du = decl_kind_unit(s)
        f = ref_factor(c06, du, mu, mdt)
        obj = dA.pars[f'p{i}']
        spell = spelling(s)
        if s['form'] == 'plain':
            if not isinstance(obj, ss.TimePar) or type(obj).__name__ != kind:
                return [F(dict(oracle='declared-unit', form='plain', kind=kind, what='class'), f"{spell} is a {type(obj).__name__}, not ss.{kind}")]
            if not check_scalar(c06, kind, s['v'], obj.values, f):
                return [F(dict(oracle='declared-unit', form='plain', kind=kind, what='value'),
                          f"{spell} in a module stepping {mdt} {mu}: per-step value {obj.values!r}, but the declared {s['v']} per/for one {du or mu} converted to the step is "
                          f"{float(c06.fr(s['v']) * f if kind == 'dur' else c06.fr(s['v']) / f) if kind in ('dur', 'rate') else 'the compounded probability'} (unit ratio {float(f)!r})")]
            continue
        if not isinstance(obj, ss.Dist):
            return [F(dict(oracle='declared-unit', form=s['form'], kind=kind, what='class'), f"{spell} is a {type(obj).__name__}, not a distribution")]
        xa = np.asarray(obj.rvs(uids), dtype=float); xb = np.asarray(dB.pars[f'p{i}'].rvs(uids), dtype=float)
        for ga, gb in zip(xa.tolist(), xb.tolist()):
            want = c06.fr(gb) * f if kind == 'dur' else c06.fr(gb) / f
            if not c06.close(want, c06.fr(ga), 2.0 ** -20, 1e-300):
                return [F(dict(oracle='declared-unit', form=s['form'], kind=kind, what='variates'),
                          f"{spell} in a module stepping {mdt} {mu}: a variate is {ga!r} per-step units, but the same draw of the bare distribution is {gb!r} "
                          f"{du or mu}(s) = {float(want)!r} (declared unit / module step = {float(f)!r})")]
    return []


def spelling(s):
    u = '' if s['ctor'] in SHORT else f", unit={s['unit']!r}"
    if s['form'] == 'plain': return f"ss.{s['ctor']}({s['v']}{u})"
    dp = ', '.join(f'{k}={v}' for k, v in DISTS[s['dist']].items())
    if s['form'] == 'wrapped': return f"ss.{s['ctor']}(ss.{s['dist']}({dp}){u})"
    k0, v0 = next(iter(DISTS[s['dist']].items()))
    rest = ', '.join(f'{k}={v}' for k, v in list(DISTS[s['dist']].items())[1:])
    return f"ss.{s['dist']}({k0}=ss.{s['ctor']}({v0}{u}){', ' + rest if rest else ''})"


# --- built-in declarations (table regenerated from the source of the tree under test)

_DECLS = {}


def builtin_decls():
    """ facts['decls'] of the TimeDecls generator for the starsim tree that is imported (not read back from objects) """
    import starsim as ss
    repo = os.path.dirname(os.path.dirname(os.path.abspath(ss.__file__)))
    if repo not in _DECLS:
        from harness.extract import Src, GENERATORS
        import harness.extractors.hazard  # noqa: F401  (registers the generator)
        _DECLS[repo] = GENERATORS['TimeDecls'][0](Src(repo))[1]['decls']
    return _DECLS[repo]


BUILTIN_LINES = [('year', 1.0, dict(unit='week', dt=1)), ('year', 0.5, dict(unit='day', dt=2)), ('month', 1, {})]


def build_builtin(cls, su, sdt, mkw):
    """ (sim, module) for a built-in class as the only time-aware module of the sim (so its parameters are linked to its own timeline) """
    import starsim as ss
    C = getattr(ss, cls)
    if issubclass(C, ss.Disease):
        sim = ss.Sim(n_agents=30, unit=su, dt=sdt, dur=3 * sdt, diseases=C(**mkw), networks=None, verbose=0); sim.init()
        return sim, sim.diseases[0]
    if issubclass(C, ss.Demographics):
        sim = ss.Sim(n_agents=30, unit=su, dt=sdt, dur=3 * sdt, demographics=C(**mkw), verbose=0); sim.init()
        return sim, sim.demographics[0]
    if cls == 'MixingPool':
        sim = ss.Sim(n_agents=30, unit=su, dt=sdt, dur=3 * sdt, networks=C(**mkw), verbose=0); sim.init()
        return sim, sim.networks[0]
    return None, None


def o_builtin(a, c16):
    """ every time-parameter declaration of a built-in class against the initialised object: kind, declared number, and the
        per-step value converted from the DECLARED unit """
    import starsim as ss
    c06 = c16.c06
    su, sdt = a['sim']; cls = a['cls']
    rows = [d for d in builtin_decls() if d['cls'] == cls]
    if not rows: return []
    sim, m = build_builtin(cls, su, sdt, a['mod'])
    if m is None: return []
    mu, mdt = m.t.unit, m.t.dt
    seen = set()
    for d in rows:
        obj = m.pars.get(d['par']) if hasattr(m.pars, 'get') else None
        if obj is None: continue
        if d['form'] == 'plain': tp = obj if isinstance(obj, ss.TimePar) else None
        elif not isinstance(obj, ss.Dist): tp = None
        elif d['form'] == 'wrapped': tp = obj.pars[0] if len(obj.pars) else None
        else: tp = obj.pars[d['key']] if d['key'] is not None else obj.pars[0]
        key = (d['par'], d['key'])
        if key in seen: continue
        seen.add(key)
        where = f"{cls}.pars.{d['par']} (declared `{d['src']}`) in a module stepping {mdt} {mu}"
        if not isinstance(obj, ss.TimePar if d['form'] == 'plain' else ss.Dist): continue     # the module replaced the parameter at initialisation (Deaths moves its rate to death_rate_data)
        if not isinstance(tp, ss.TimePar):
            return [F(dict(oracle='builtin-declaration', form=d['form'], kind=d['kind'], what='class'), f"{where}: the {d['form']} time parameter is a {type(tp).__name__}")]
        if type(tp).__name__ != d['kind']:
            return [F(dict(oracle='builtin-declaration', form=d['form'], kind=d['kind'], what='class'), f"{where}: object is ss.{type(tp).__name__}, declared ss.{d['kind']}")]
        if (tp.parent_unit, tp.parent_dt) != (mu, mdt):
            return [F(dict(oracle='builtin-declaration', form=d['form'], kind=d['kind'], what='parent'), f"{where}: linked to ({tp.parent_unit}, {tp.parent_dt})")]
        if d['v'] is None or callable(tp.v) or tp.values is None: continue
        if not c06.close(c06.fr(d['v']), c06.fr(tp.v), 4 * U):
            return [F(dict(oracle='builtin-declaration', form=d['form'], kind=d['kind'], what='number'), f"{where}: object holds {tp.v!r}, declared {d['v']!r}")]
        f = ref_factor(c06, d['unit'], mu, mdt)
        if not check_scalar(c06, d['kind'], d['v'], tp.values, f):
            return [F(dict(oracle='builtin-declaration', form=d['form'], kind=d['kind'], what='value'),
                      f"{where}: per-step value {tp.values!r} is not the declared {d['v']} per/for one {d['unit'] or mu} converted to the step (declared unit / step = {float(f)!r}; "
                      f"the object says unit={tp.unit!r})")]
    return []


# ---------------------------------------------------------------------------
# consumption of beta: mixing pools, Infection.infect

POOL_CASES = [  # (sim unit, dt, route kwargs (own timeline), beta class, beta, beta unit)
    ('year', 1.0, {}, 'beta', 0.5, None), ('year', 0.25, {}, 'beta', 0.5, None), ('year', 0.1, {}, 'beta', 0.3, 'year'), ('month', 1, {}, 'beta', 0.5, 'year'),
    ('week', 2, {}, 'beta', 0.6, 'year'), ('week', 1, {}, 'beta', 0.002, 'day'), ('year', 1 / 52, {}, 'beta', 0.002, 'day'), ('day', 1, {}, 'beta', 0.2, 'month'),
    # time parameters other than ss.beta reach the probability through TimePar arithmetic (beta x trans x acq is converted as a whole): first-order check, small beta
    ('year', 0.25, {}, 'rate', 0.02, 'year'), ('week', 1, {}, 'time_prob', 0.02, 'year'), ('year', 0.25, {}, 'rate_prob', 0.02, 'year'), ('month', 1, {}, 'rate', 0.0005, 'day'),
]


def build_pool(a, n_agents=3000):
    import starsim as ss
    su, sdt = a['sim']
    beta = getattr(ss, a['bcls'])(a['b'], unit=a['bunit'])
    if a.get('plural'):
        route = ss.MixingPools(beta=beta, contacts=[[1.0, 0.5], [2.0, 1.0]], src=dict(f=lambda sim: sim.people.female.uids, m=lambda sim: sim.people.male.uids),
                               dst=dict(f=lambda sim: sim.people.female.uids, m=lambda sim: sim.people.male.uids), **a['mod'])
    else:
        route = ss.MixingPool(beta=beta, contacts=ss.constant(a.get('contacts', 1)), **a['mod'])
    sis = ss.SIS(init_prev=a.get('prev', 0.3), beta=0)
    sim = ss.Sim(n_agents=n_agents, unit=su, dt=sdt, dur=4 * sdt, diseases=sis, networks=route, rand_seed=a.get('seed', 1), verbose=0)
    sim.init()
    return sim, sim.networks[0], sim.diseases[0]


def beta_step_ref(c06, kind, b, bunit, mu, mdt):
    """ the declared per-unit-time beta converted to one step of (mu, mdt): (exact-ish value, first-order hazard x step) """
    f = c06.exact_ratio(bunit or mu, 1.0, mu, mdt)      # beta unit per step
    step = 1 / f                                         # step length in beta units
    if kind in ('beta', 'time_prob'):
        ref, tol = c06.tp_ref(b, f); return float(ref), tol, -math.log(1 - b) * float(step)
    if kind == 'rate_prob':
        return 1 - math.exp(-b * float(step)), 1e-14, b * float(step)
    return b * float(step), 1e-14, b * float(step)


def pool_bernoulli(pool):
    import starsim as ss
    c = [v for v in vars(pool).values() if isinstance(v, ss.bernoulli)]
    return c[0] if len(c) == 1 else None


def o_pool(a, c16):
    """ the acquisition probability of a mixing pool = beta converted to the pool's step x mean infectiousness of the sources x
        (contacts x susceptibility) of the destination; and the number of new infections of that step (statistical, 7 sigma) """
    import starsim as ss
    c06 = c16.c06
    sim, route, dis = build_pool(a)
    pools = list(route.pools) if hasattr(route, 'pools') else [route]
    out = []
    for pool in pools[:2]:
        mu, mdt = pool.t.unit, pool.t.dt
        bstep, tol, h1 = beta_step_ref(c06, a['bcls'], a['b'], a['bunit'], mu, mdt)
        src = pool.get_uids(pool.pars.src); dst = pool.get_uids(pool.pars.dst)
        if not len(src) or not len(dst): continue
        trans = float(np.mean(np.asarray(dis.infectious[src], dtype=float) * np.asarray(dis.rel_trans[src], dtype=float)))
        acq = np.asarray(pool.eff_contacts[dst], dtype=float) * np.asarray(dis.susceptible[dst], dtype=float) * np.asarray(dis.rel_sus[dst], dtype=float)
        sus_before = set(np.asarray(dis.susceptible.uids).tolist())
        n_new = pool.step()
        now_inf = set(np.asarray(dis.infected.uids).tolist())
        got_new = len(sus_before & now_inf)
        exact_kind = a['bcls'] == 'beta'
        want = np.clip((bstep if exact_kind else h1) * trans * acq, 0, 1)
        where = (f"{'MixingPools' if a.get('plural') else 'MixingPool'}(beta=ss.{a['bcls']}({a['b']}, unit={a['bunit']!r})) stepping {mdt} {mu}: mean source infectiousness {trans:.4f}")
        bern = pool_bernoulli(pool)
        if bern is not None:
            p = bern.pars['p'] if 'p' in bern.pars else None
            if isinstance(p, ss.TimePar): p = p.values
            if p is not None and np.size(p) == len(dst):
                p = np.asarray(p, dtype=float)
                rel = 2.0 ** -20 if exact_kind else 0.15     # float32 state arrays; first order (beta <= 0.02) for the kinds converted by TimePar arithmetic
                bad = np.abs(p - want) > rel * np.maximum(np.abs(want), 1e-300) + (tol if exact_kind else 0)
                if bad.any():
                    k = int(np.argmax(bad))
                    out.append(F(dict(oracle='pool-acquisition', route='pools' if a.get('plural') else 'pool', beta=a['bcls'], how='exact'),
                                 f"{where}; a destination with contacts x susceptibility = {acq[k]!r} gets acquisition probability {p[k]!r}, but beta converted to the step "
                                 f"({bstep!r}) x {trans:.4f} x {acq[k]!r} = {want[k]!r}"))
                    break
        E = float(np.sum(want)); V = float(np.sum(want * (1 - want)))
        if abs(got_new - E) > 7 * math.sqrt(V + 1) + 0.05 * E + 2 and not a.get('plural'):
            out.append(F(dict(oracle='pool-acquisition', route='pool', beta=a['bcls'], how='statistical'),
                         f"[statistical] {where}; {got_new} new infections in one step (returned {n_new}), expected {E:.1f} +- {7 * math.sqrt(V + 1):.1f}"))
            break
    return out[:1]


INFECT_CASES = [('year', 1.0, {}, 0.3, None), ('year', 0.25, {}, 0.3, None), ('week', 1, {}, 0.6, 'year'), ('day', 1, {}, 0.05, 'week'), ('year', 0.5, dict(unit='month', dt=1), 0.5, 'year'),
                ('month', 1, {}, 0.004, 'day')]


def o_infect(a, c16):
    """ [statistical] one call of Infection.infect on a random network: the number of new cases against
        sum_j 1 - prod_(infectious neighbours)(1 - beta per step x rel_trans x rel_sus x edge beta), beta = declared beta converted to the
        DISEASE's step (the disease is the only time-aware module besides the network, which has no time parameters) """
    import starsim as ss
    c06 = c16.c06
    su, sdt = a['sim']
    d = getattr(ss, a.get('disease', 'SIS'))(beta=ss.beta(a['b'], unit=a['bunit']), init_prev=0.25, **a['mod'])
    sim = ss.Sim(n_agents=a.get('n', 4000), unit=su, dt=sdt, dur=4 * sdt, diseases=d, networks=ss.RandomNet(n_contacts=ss.constant(a.get('contacts', 3))), rand_seed=a.get('seed', 1), verbose=0)
    sim.init()
    dis = sim.diseases[0]; net = sim.networks[0]
    if not len(net.edges.p1): net.step()
    if not len(net.edges.p1): return []
    tp = dis.pars.beta
    mu, mdt = dis.t.unit, dis.t.dt
    if (tp.parent_unit, tp.parent_dt) != (mu, mdt): return []     # the known first-module linkage: reported by disease_pars
    bstep, tol, h1 = beta_step_ref(c06, 'beta', a['b'], a['bunit'], mu, mdt)
    n = len(sim.people.uid)
    inf = np.zeros(n); sus = np.zeros(n)
    rt = np.asarray(dis.rel_trans.raw[:n], dtype=float) * np.asarray(dis.infectious.raw[:n], dtype=float)
    rs = np.asarray(dis.rel_sus.raw[:n], dtype=float) * np.asarray(dis.susceptible.raw[:n], dtype=float)
    p1 = np.asarray(net.edges.p1); p2 = np.asarray(net.edges.p2); eb = np.asarray(net.edges.beta, dtype=float)
    logsurv = np.zeros(n)
    for s_, t_ in ((p1, p2), (p2, p1)):
        p = np.clip(rt[s_] * rs[t_] * eb * bstep, 0, 1 - 1e-12)
        np.add.at(logsurv, t_, np.log1p(-p))
    P = 1 - np.exp(logsurv)
    E = float(P.sum()); V = float((P * (1 - P)).sum())
    new_cases = dis.infect()[0]
    got = len(new_cases)
    if abs(got - E) > 7 * math.sqrt(V + 1) + 0.05 * E + 2:
        return [F(dict(oracle='network-transmission', how='statistical'),
                  f"[statistical] {a.get('disease', 'SIS')}(beta=ss.beta({a['b']}, unit={a['bunit']!r})) stepping {mdt} {mu} on a random network ({len(p1)} edges): one call of infect() "
                  f"gives {got} new cases, expected {E:.1f} +- {7 * math.sqrt(V + 1):.1f} with beta per step = {bstep!r}")]
    return []


ORACLES = dict(declared=o_declared, builtin=o_builtin, pool=o_pool, infect=o_infect)


def pool_args(rng, case, plural=False):
    su, sdt, mkw, bcls, b, bu = case
    return dict(sim=[su, sdt], mod=mkw, bcls=bcls, b=b, bunit=bu, plural=plural, seed=rng.randint(1, 999), contacts=rng.choice([1, 1, 2]), prev=rng.choice([0.3, 0.15]))


def builtin_classes():
    out = []
    for d in builtin_decls():
        if d['cls'] not in out: out.append(d['cls'])
    return out


def search(ctx, c16, run_oracle):
    rng = ctx.rng
    # declarations: every spelling on three fixed module lines (declared units that differ from the module's) + seeded ones
    lines = MOD_LINES[2:5] + rng.sample(MOD_LINES, 2 if not ctx.thorough else 5)
    for su, sdt, mkw in lines:
        run_oracle(ctx, 'declared', dict(sim=[su, sdt], mod=mkw, specs=decl_specs(rng), seed=rng.randint(1, 999)))
    # built-in declarations: EVERY class of the regenerated table, on lines whose unit differs from some declared unit
    for cls in builtin_classes():
        for su, sdt, mkw in BUILTIN_LINES if (ctx.thorough or ctx.broken) else BUILTIN_LINES[:2]:
            run_oracle(ctx, 'builtin', dict(cls=cls, sim=[su, sdt], mod=mkw))
    # consumption of beta
    for i, case in enumerate(POOL_CASES):
        run_oracle(ctx, 'pool', pool_args(rng, case))
        if i in (1, 4, 5) or ctx.thorough or ctx.broken:
            run_oracle(ctx, 'pool', pool_args(rng, case, plural=True))
    run_oracle(ctx, 'pool', pool_args(rng, ('year', 1.0, dict(unit='month', dt=1), 'beta', 0.5, 'year')))     # the pool on its own timeline
    for su, sdt, mkw, b, bu in INFECT_CASES if (ctx.thorough or ctx.broken) else INFECT_CASES[:4]:
        run_oracle(ctx, 'infect', dict(sim=[su, sdt], mod=mkw, b=b, bunit=bu, seed=rng.randint(1, 999)))


# ---------------------------------------------------------------------------
# correspondence: the same families against Model/Hazard.lean

def correspond(ctx, c16):
    import starsim as ss
    c06 = c16.c06
    rng = ctx.rng
    tn, to_, tu = c06.tok_num, c06.tok_opt, c06.tok_unit
    facts = (ctx.extracted.get('TimeDecls') or {}).get('facts') or {}
    lines = []; checks = []

    def add(line, fn, data):
        checks.append((len(lines), fn, data)); lines.append(line)

    # --- shortcut table against the live functions
    for name, (kind, unit) in SHORT.items():
        x = getattr(ss, name)(1.0)
        def chk(ml, x=x, name=name):
            want = f'ok {type(x).__name__} {x.unit}'
            return None if ml == want else f'ss.{name}(1.0) is ss.{type(x).__name__} with unit {x.unit!r}, model says `{ml}`'
        add(f'shortcut {name}', chk, dict(kind='shortcut', name=name))
    # --- declarations: model object (declare + init with the module timeline) against the real object
    for su, sdt, mkw in MOD_LINES[2:4] + [rng.choice(MOD_LINES)]:
        specs = decl_specs(rng, n_extra=4)
        try:
            sim, d = build_probe(specs, su, sdt, mkw)
        except Exception as e:
            ctx.count('r3_rejected_' + type(e).__name__); continue
        mu, mdt = d.t.unit, d.t.dt
        for i, s in enumerate(specs):
            kind, du = decl_kind_unit(s)
            tp = first_timepar(d.pars[f'p{i}'])
            data = dict(kind='declaration', spec=s, sim=[su, sdt], mod=mkw)
            if tp is None:
                ctx.broke('correspondence', 'C16.declaration', f'{spelling(s)}: no time parameter in the object', data=data); return
            o = c06.observe(tp)
            def chk(ml, o=o, s=s, kind=kind):
                if not ml.startswith('ok '): return f'model {ml}'
                unit, pu, pdt, fac, vals = ml[3:].split(' ')
                if (unit if unit != '~' else None) != o['unit']: return f"object unit {o['unit']!r}, model {unit}"
                if (pu if pu != '~' else None) != o['punit']: return f"object parent unit {o['punit']!r}, model {pu}"
                if fac == '~' or not c06.close(Fr(fac), c06.fr(o['factor']), 8 * U): return f"object factor {o['factor']!r}, model {fac}"
                if kind in ('dur', 'rate'):
                    mv = c06.val_from_tok(vals)
                    if not c06.close(mv, c06.fr(o['values']), 16 * U): return f"object values {o['values']!r}, model {vals}"
                return None
            add(f"decl {s['form']} {kind} {c06.tok_val(decl_value(s))} {tu(du)} {tu(mu)} {to_(mdt)}", chk, data)
    # --- mixing pools: p handed to the Bernoulli draw against poolProb on the observed beta object
    for case in [POOL_CASES[1], POOL_CASES[4], POOL_CASES[5], rng.choice(POOL_CASES[:8])]:
        a = pool_args(rng, case)
        try:
            sim, pool, dis = build_pool(a, n_agents=400)
        except Exception as e:
            ctx.count('r3_rejected_' + type(e).__name__); continue
        beta = pool.pars.beta
        src = pool.get_uids(pool.pars.src); dst = pool.get_uids(pool.pars.dst)
        trans = float(np.mean(np.asarray(dis.infectious[src], dtype=float) * np.asarray(dis.rel_trans[src], dtype=float)))
        acq = np.asarray(pool.eff_contacts[dst], dtype=float) * np.asarray(dis.susceptible[dst], dtype=float) * np.asarray(dis.rel_sus[dst], dtype=float)
        o = c06.observe(beta)
        pool.step()
        bern = pool_bernoulli(pool)
        if bern is None or 'p' not in bern.pars or np.size(bern.pars['p']) != len(dst):
            ctx.count('r3_pool_probability_not_observable'); continue
        p = np.asarray(bern.pars['p'], dtype=float)
        ks = [int(np.argmax(acq > 0))] if (acq > 0).any() else [0]
        for k in ks:
            def chk(ml, p=p, k=k):
                m = c16.model_prob(ml)
                if isinstance(m, (str, list)): return f'model {ml}'
                return None if c06.close(m, c06.fr(p[k]), 2.0 ** -20, 1e-300) else f'acquisition probability {p[k]!r}, model {float(m)!r}'
            add(f"pool {tn(trans)} {tn(float(acq[k]))} {c16.tp_tokens(o)}", chk, dict(kind='pool', args=a))
    out = c16.drive(ctx, lines)
    for li, fn, data in checks:
        ml = out[li]
        ctx.case(('r3', lines[li]), True, sample=dict(kind=data['kind'], line=lines[li], model=ml))
        ctx.count('cmp_r3_' + data['kind'])
        why = 'the model does not understand the line' if ml == 'bad-op' else fn(ml)
        if why:
            ctx.broke('correspondence', 'C16.' + data['kind'], f"{data['kind']}: {why} [{lines[li]}]", data=data)
            return
    ctx.notes['round3_tables'] = dict(wrapLost=facts.get('wrapLost'), poolBetaField=facts.get('poolBetaField'), poolBetaTest=facts.get('poolBetaTest'),
                                      builtin_declarations=len(facts.get('decls') or []))
