"""
C06 — Time-unit conversion preserves physical quantities.

correspond(): Model/TimePar.lean (through Drivers/C06.lean) vs the REAL starsim on
   (1) time_ratio over ordered pairs of units (canonical, aliases, None, unitless, unknown) x dt pairs
       (integer / dyadic / decimal / None / equal);
   (2) call sequences on real TimePar objects of every class (new / init via keywords, via a parent object,
       set / to / to_parent / arithmetic / in-place arithmetic), scalar and array values incl. 0, 1, tiny, huge, invalid;
       `Q` sessions (dur, rate) compare the float result with the model's EXACT rational, `F` sessions (every class)
       with the model evaluated in IEEE doubles;
   (3) TimePars inside a real module's parameters initialised by the real Module.init_time of generated sims
       (sim unit/dt x module unit/dt).
search():  the identities of the property evaluated on the real code only, against exact fractions.Fraction /
           50-digit decimal references (no model): closed form, reciprocity, transitivity, dur/rate step identities,
           time_prob formula + compounding + range + monotonicity in dt, rate_prob formula, to-roundtrip,
           array = scalar, arithmetic, rejections, parent-path equivalence.
"""
import sys, math, struct, itertools, decimal
from fractions import Fraction as Fr
import numpy as np

PROP = 'C06'
GENERATED = ['TimeUnits', 'TimeParConsts']
DRIVER = 'Drivers/C06.lean'
DRIVER_MODULES = ['StarsimModel.Model.TimePar', 'StarsimModel.Model.Proto']
RULE = ('(1) every ordered pair of the unit pool x seeded dt pairs through time_ratio; (2) seeded call sequences on real TimePar '
        'objects (class x scalar/array value x unit/parent/dt x ops), compared op by op with the Lean model (state after every op); '
        '(3) TimePars of a probe module initialised by Module.init_time in generated sims; (4) histories of array-valued parameters '
        '(link / re-link / set(v) / to / to_parent / scale), compared call by call with the array-identity model (Store/AOp); (5) the distribution bridge: '
        'every distribution family x every form of the time-valued parameter (float / int / numpy int / float32 / callable -> int or float array) x dur/rate, '
        'the bare variates of the same generator state through the model (`postprocess`, integer variates as integers). distinct = distinct canonical line '
        'sequence; non-trivial = a conversion with factor != 1 or an error branch was exercised')
TRUSTED = ['the reference variates of the distribution bridge are re-drawn from the SAME Dist object and generator state (`rvs(..., reset=True)`) after replacing the time parameter in `dist.pars`',
           'identity of ndarray objects on the real side is observed with `is` / numpy.shares_memory on arrays the harness keeps alive (c06_round3.Labels)',
           'IEEE-754 double arithmetic of CPython/NumPy and of Lean `Float` (same operation order as the source); libm/NumPy exp/log within 1 ulp',
           'decimal (50 digits) exp/ln as the reference for the transcendental identities in the oracle']
ASSUMPTIONS = ['dt > 0 and factor != 0 in every compared case (the property quantifies over positive dt); NaN/inf values are outside the compared domain',
               'float results are compared with the exact model within 16 ulp relative (+4e-15 absolute for probabilities), per single operation: after every operation that feeds a computed value back into `v` the model is re-synchronised to the implementation state']

U = 2.0 ** -53
CANON = ['day', 'week', 'month', 'year']
ALIASES = ['d', 'days', 'perday', 'w', 'wk', 'weeks', 'm', 'mo', 'months', 'y', 'yr', 'years', 'peryear']
SPECIAL = [None, 'unitless', 'none']
BADUNITS = ['fortnight', 'Year', 'hours']
DT_INT = [1, 2, 5, 7, 30]
DT_DYADIC = [0.5, 0.25, 0.125, 1.5, 3.75]
DT_DEC = [0.1, 0.2, 0.01, 0.7, 2.5, 1e-3, 365.25, 1 / 3]
KINDS = ['dur', 'rate', 'time_prob', 'rate_prob', 'beta']
PROBKINDS = ('time_prob', 'rate_prob', 'beta')


def drive(ctx, lines, driver=None, modules=None):
    """ ctx.drive (the framework serialises checks and rebuilds a missing .olean itself; no locking here) """
    return ctx.drive(driver or DRIVER, lines)


# ---------------------------------------------------------------------------
# encoding

def fr(x):
    """ exact rational of a Python/NumPy number """
    if isinstance(x, Fr): return x
    if isinstance(x, (bool, np.bool_)): return Fr(int(x))
    if isinstance(x, (int, np.integer)): return Fr(int(x))
    return Fr(float(x))


def finite(x):
    try:
        return math.isfinite(float(x))
    except Exception:
        return False


def tok_num(x):
    f = fr(x)
    return str(f.numerator) if f.denominator == 1 else f'{f.numerator}/{f.denominator}'


def tok_opt(x):
    return '~' if x is None else tok_num(x)


def tok_unit(u):
    return '~' if u is None else str(u)


def is_arr(v):
    return isinstance(v, (list, tuple, np.ndarray))


def tok_val(v):
    if v is None: return '~'
    if is_arr(v):
        l = list(np.asarray(v).tolist()) if isinstance(v, np.ndarray) else list(v)
        return 'a:' + (','.join(tok_num(x) for x in l) if l else '-')
    return 's:' + tok_num(v)


def from_tok(t):
    """ model number token -> Fraction, or 'inf'/'nan' """
    if t.startswith('b'):
        x = struct.unpack('<d', struct.pack('<Q', int(t[1:])))[0]
        if not math.isfinite(x): return 'nonfinite'
        return Fr(x)
    return Fr(t)


def val_from_tok(t):
    if t == '~': return None
    if t.startswith('s:'): return from_tok(t[2:])
    body = t[2:]
    return [] if body == '-' else [from_tok(x) for x in body.split(',')]


def pyval(v):
    """ JSON value -> what is handed to starsim: a number or a float64 array """
    return np.array(v, dtype=float) if isinstance(v, list) else v


def err_kind(e):
    if isinstance(e, ValueError): return 'E:Value'
    if isinstance(e, KeyError): return 'E:Key'
    if isinstance(e, ZeroDivisionError): return 'E:ZeroDiv'
    if isinstance(e, AttributeError): return 'E:Attr'
    if isinstance(e, TypeError): return 'E:Type'
    return 'E:Other:' + type(e).__name__


def close(m, i, rel, abs_=0.0):
    if m == 'nonfinite' or i == 'nonfinite': return m == i
    return abs(m - i) <= Fr(rel) * max(abs(m), abs(i)) + Fr(abs_)


def live_units():
    import starsim as ss
    return {k: fr(v) for k, v in ss.time.time_units.items()}


# ---------------------------------------------------------------------------
# observation of a real TimePar

def obs_num(x):
    if x is None: return None
    if not finite(x): return 'nonfinite'
    return fr(x)


def obs_val(v):
    if v is None: return None
    if isinstance(v, np.ndarray):
        return [obs_num(x) for x in v.tolist()]
    return obs_num(v)


def observe(t):
    return dict(kind=type(t).__name__, unit=t.unit, punit=t.parent_unit, pdt=obs_num(t.parent_dt), sdt=obs_num(t.self_dt),
                factor=obs_num(t.factor), init=bool(t.initialized), v=obs_val(t.v), values=obs_val(t.values))


def has_nonfinite(o):
    def nf(x):
        if isinstance(x, list): return any(nf(y) for y in x)
        return x == 'nonfinite'
    return any(nf(o[k]) for k in ('factor', 'v', 'values', 'pdt', 'sdt'))


def parse_state(s):
    if s == '-': return None
    p = s.split(' ')
    return dict(kind=p[0], unit=None if p[1] == '~' else p[1], punit=None if p[2] == '~' else p[2],
                pdt=None if p[3] == '~' else Fr(p[3]), sdt=None if p[4] == '~' else Fr(p[4]),
                factor=None if p[5] == '~' else Fr(p[5]), init=p[6] == '1', v=val_from_tok(p[7]), values=val_from_tok(p[8]))


def close_prob(m, i, rel, abs_):
    """ probabilities outside [0,1] (negative dt: exp of a large positive number) carry the relative error of the exponent """
    if abs_ and m != 'nonfinite' and i != 'nonfinite' and abs(m) > 2:
        rel = rel * 2 * (1 + math.log(float(abs(1 - m))))
    return close(m, i, rel, abs_)


def cmp_val(m, i, rel, abs_):
    if (m is None) != (i is None): return False
    if m is None: return True
    if isinstance(m, list) != isinstance(i, list): return False
    if isinstance(m, list):
        return len(m) == len(i) and all(close_prob(a, b, rel, abs_) for a, b in zip(m, i))
    return close_prob(m, i, rel, abs_)


def cmp_state(m, o, prob, vrel=4 * U):
    """ model state vs observed state -> None or a reason """
    if (m is None) != (o is None): return f'object presence: model={m is not None} impl={o is not None}'
    if m is None: return None
    for k in ('kind', 'unit', 'punit', 'init'):
        if m[k] != o[k]: return f'{k}: model={m[k]!r} impl={o[k]!r}'
    for k in ('pdt', 'sdt'):
        if m[k] != o[k]: return f'{k}: model={m[k]} impl={o[k]}'
    if (m['factor'] is None) != (o['factor'] is None) or (m['factor'] is not None and not close(m['factor'], o['factor'], 8 * U)):
        return f"factor: model={m['factor'] if m['factor'] is None else float(m['factor'])!r} impl={o['factor'] if o['factor'] is None else float(o['factor'])!r}"
    abs_ = 4e-15 if prob else 0.0
    if not cmp_val(m['v'], o['v'], max(vrel, 16 * U if prob else vrel), abs_ if prob else 0.0):
        return f"v: model={show(m['v'])} impl={show(o['v'])}"
    if not cmp_val(m['values'], o['values'], 16 * U, abs_):
        return f"values: model={show(m['values'])} impl={show(o['values'])}"
    return None


def show(v):
    if v is None: return 'None'
    if isinstance(v, list): return '[' + ', '.join(show(x) for x in v) + ']'
    if v == 'nonfinite': return v
    return repr(float(v))


# ---------------------------------------------------------------------------
# sessions on real TimePar objects

def load_line(mode, o):
    """ re-synchronise the model to the implementation state """
    return (f"{mode} load {o['kind']} {tok_unit(o['unit'])} {tok_unit(o['punit'])} {tok_opt(o['pdt'])} {tok_opt(o['sdt'])} "
            f"{tok_opt(o['factor'])} {int(o['init'])} {tok_val(o['v'])} {tok_val(o['values'])}")


def make_parent(spec, pu, pdt):
    import starsim as ss, sciris as sc
    if spec == 'time' and pu in CANON and pdt is not None and float(pdt) == int(pdt) and int(pdt) >= 1:
        return ss.Time(start=0, stop=3 * int(pdt), dt=pdt, unit=pu)
    if spec in ('time', 'time0'):
        return ss.Time(start=0, stop=1, dt=pdt, unit=pu, init=False)
    return sc.dictobj(unit=pu, dt=pdt)


def run_session(case):
    """ Execute a session on the real code.  Returns a list of steps: dict(line, res, obs, extra, sync, prob) """
    import starsim as ss
    mode = case['mode']; kind = case['kind']
    cls = getattr(ss, kind)
    prob = kind in PROBKINDS
    steps = []
    line = f"{mode} new {kind} {tok_val(case['v'])} {tok_unit(case['unit'])} {tok_unit(case['punit'])} {tok_opt(case['pdt'])} {tok_opt(case['sdt'])}"
    cur = None; last = None
    user = pyval(case['v']); user_orig = user.copy() if isinstance(user, np.ndarray) else None
    try:
        cur = cls(user, unit=case['unit'], parent_unit=case['punit'], parent_dt=case['pdt'], self_dt=case['sdt'])
        steps.append(dict(line=line, res='ok', obs=observe(cur), extra=None, user=user, user_orig=user_orig))
    except Exception as e:
        steps.append(dict(line=line, res=err_kind(e), obs=None, extra=None))
        return steps
    for op in case['ops']:
        name = op[0]; res = 'ok'; extra = None; sync = False; info = {}
        try:
            if name == 'init':
                _, spec, pu, pdt, ex, uv, die = op
                if spec == 'kw':
                    line = f"{mode} init 0 {tok_unit(pu)} {tok_opt(pdt)} ~ {int(uv)} {int(die)}"
                    cur.init(parent_unit=pu, parent_dt=pdt, update_values=uv, die=die)
                else:
                    parent = make_parent(spec, pu, pdt)
                    line = f"{mode} init 1 {tok_unit(parent.unit)} {tok_opt(parent.dt)} {tok_opt(ex)} {int(uv)} {int(die)}"
                    cur.init(parent=parent, parent_dt=ex, update_values=uv, die=die)
            elif name == 'set':
                _, v, u, pu, pdt, sdt, force = op
                line = f"{mode} set {tok_val(v)} {tok_unit(u)} {tok_unit(pu)} {tok_opt(pdt)} {tok_opt(sdt)} {int(force)}"
                cur.set(v=None if v is None else pyval(v), unit=u, parent_unit=pu, parent_dt=pdt, self_dt=sdt, force=force)
            elif name == 'to':
                line = f"{mode} to {tok_unit(op[1])} {tok_opt(op[2])}"
                last = None
                last = cur.to(unit=op[1], dt=op[2]); extra = ('tp', observe(last))
            elif name == 'toparent':
                line = f"{mode} toparent"
                last = None
                last = cur.to_parent(); extra = ('tp', observe(last))
            elif name in ('mul', 'rmul', 'div', 'neg'):
                line = f"{mode} {name}" + ('' if name == 'neg' else ' ' + tok_num(op[1]))
                last = None
                if name == 'mul': last = cur * op[1]
                elif name == 'rmul': last = op[1] * cur
                elif name == 'div': last = cur / op[1]
                else: last = -cur
                extra = ('tp', observe(last))
            elif name in ('add', 'sub', 'rsub', 'rdiv', 'pow'):
                line = f"{mode} {name} {op[1] if name == 'pow' else tok_num(op[1])}"
                c = op[1]
                if name == 'add': r = cur + c
                elif name == 'sub': r = cur - c
                elif name == 'rsub': r = c - cur
                elif name == 'rdiv': r = c / cur
                else: r = cur ** c
                extra = ('val', obs_val(r)); info = dict(c=c)
            elif name in ('powr', 'rpowr'):
                c = op[1]
                vals = cur.values
                flatv = [] if vals is None else [float(t) for t in np.atleast_1d(np.asarray(vals, dtype=float)).tolist()]
                if vals is not None and ((name == 'powr' and float(c) != int(c) and any(t < 0 for t in flatv)) or (name == 'powr' and c < 0 and any(t == 0 for t in flatv))):
                    continue   # complex / infinite results: outside the compared domain
                line = f"{mode} {name} {tok_num(c)}"
                r = cur ** c if name == 'powr' else c ** cur
                extra = ('val', obs_val(r)); info = dict(c=c)
            elif name == 'draws':
                # what Dist.postprocess_timepar does with the variates of a wrapped distribution
                line = f"{mode} draws " + (','.join(tok_num(t) for t in op[1]) if op[1] else '-')
                sync = True
                cur.v = np.array(op[1], dtype=float)
                cur.update_cached()
            elif name in ('iadd', 'isub', 'imul', 'idiv'):
                line = f"{mode} {name} {tok_num(op[1])}"
                sync = True
                if name == 'iadd': cur += op[1]
                elif name == 'isub': cur -= op[1]
                elif name == 'imul': cur *= op[1]
                else: cur /= op[1]
            elif name == 'adopt':
                line = f"{mode} adopt"
                if last is None:
                    steps.append(dict(line=line, res='no-object', obs=observe(cur), extra=None))
                    continue
                cur = last; last = None; sync = True
            else:
                raise RuntimeError(f'unknown op {op}')
        except RuntimeError:
            raise
        except Exception as e:
            res = err_kind(e)
            sync = sync and True
        o = observe(cur)
        steps.append(dict(line=line, res=res, obs=o, extra=extra, op=name, info=info))
        if has_nonfinite(o) or (extra and extra[0] == 'tp' and has_nonfinite(extra[1])):
            steps[-1]['stop'] = True
            break
        if sync:
            steps.append(dict(line=load_line(mode, o), res='sync', obs=o, extra=None))
    return steps


def compare_session(case, steps, out):
    """ -> None or dict(at, why) """
    prob = case['kind'] in PROBKINDS
    u0 = steps[0].get('user_orig') if steps else None
    if u0 is not None and not np.array_equal(steps[0]['user'], u0, equal_nan=True):
        return dict(at=len(steps) - 1, line=steps[-1]['line'], why=f"the user's input array was modified by the call sequence: {u0.tolist()} -> {steps[0]['user'].tolist()}")
    for k, (st, ml) in enumerate(zip(steps, out)):
        if ml in ('bad-op',):
            return dict(at=k, line=st['line'], why='the model does not understand the operation line')
        if st['res'] == 'sync':
            if not ml.startswith('ok|'): return dict(at=k, line=st['line'], why=f'resync refused: {ml}')
            continue
        if ml == 'no-object':
            if st['res'] == 'no-object': continue
            return dict(at=k, line=st['line'], why='model has no object')
        res, state, extra = ml.split('|')
        if st.get('stop'):   # non-finite numbers on the implementation side: outside the compared domain
            return None
        if st['res'] == 'E:Other:OverflowError':
            continue   # a Python float overflowed: outside the compared domain
        if st.get('op') == 'rdiv' and res == 'E:ZeroDiv' and st['res'] in ('ok', 'E:ZeroDiv'):
            continue   # c / 0: Python floats raise, NumPy scalars return inf — outside the compared domain
        if res != st['res']:
            return dict(at=k, line=st['line'], why=f"outcome: model={res} impl={st['res']}", model=ml)
        why = cmp_state(parse_state(state), st['obs'], prob)
        if why:
            return dict(at=k, line=st['line'], why='state after the call: ' + why, model=ml)
        if (extra == '-') != (st['extra'] is None):
            return dict(at=k, line=st['line'], why=f"result presence: model={extra} impl={st['extra'] is not None}", model=ml)
        if st['extra'] is not None:
            tag, body = extra.split(' ', 1)
            if tag != st['extra'][0]:
                return dict(at=k, line=st['line'], why='result type differs', model=ml)
            if tag == 'tp':
                why = cmp_state(parse_state(body), st['extra'][1], prob, vrel=16 * U)
                if why: return dict(at=k, line=st['line'], why='returned object: ' + why, model=ml)
            else:
                mv = val_from_tok(body); iv = st['extra'][1]
                if 'nonfinite' in (iv if isinstance(iv, list) else [iv]) or 'nonfinite' in (mv if isinstance(mv, list) else [mv]):
                    continue   # overflow of a double: outside the compared domain
                vals_m = parse_state(state)['values']
                rel, abs_ = compute_tol(st['op'], st['info'].get('c'), prob, vals_m, mv)
                if not cmp_val(mv, iv, rel, abs_):
                    return dict(at=k, line=st['line'], why=f'returned number: model={show(mv)} impl={show(iv)}', model=ml)
    return None


def compute_tol(op, c, prob, vals, result):
    """ tolerance of a number computed from `values` (which itself carries rel 16u [+ abs 4e-15 for probabilities]) """
    flat = lambda x: (x if isinstance(x, list) else [x]) if x is not None else []
    vs = [abs(x) for x in flat(vals) if x != 'nonfinite']; rs = [abs(x) for x in flat(result) if x != 'nonfinite']
    vmax = max(vs, default=Fr(0)); vmin = min(vs, default=Fr(0)); rmax = max(rs, default=Fr(0))
    a = 4e-15 if prob else 0.0
    if op in ('add', 'sub', 'rsub'):
        return 16 * U, float(vmax) * 32 * U + a
    if op == 'rdiv':
        relv = 32 * U + (a / float(vmin) if vmin else 0.0)
        return 2 * relv, 0.0
    if op == 'powr':
        relv = 32 * U + (a / float(vmin) if vmin else 0.0)
        return min((abs(float(c)) + 1) * relv * 2, 0.5), (a if vmin == 0 else 0.0) + 1e-290
    if op == 'rpowr':
        lc = abs(math.log(float(c))) if float(c) > 0 else 1.0
        return min(lc * (float(vmax) * 32 * U + a) * 2 + 32 * U, 0.5), 1e-290
    if op == 'pow':
        n = max(int(c), 1)
        relv = 32 * U + (a / float(vmin) if vmin else 0.0)
        return min(n * relv * 2, 0.5), (a if vmin == 0 else 0.0) + 1e-290   # + underflow floor
    return 16 * U, a


# ---------------------------------------------------------------------------
# generators

def gen_dt(rng, allow_none=True):
    r = rng.random()
    if allow_none and r < 0.08: return None
    if allow_none and r < 0.10: return rng.choice([-1.0, -0.5, -2])
    if r < 0.35: return rng.choice(DT_INT)
    if r < 0.6: return rng.choice(DT_DYADIC)
    if r < 0.9: return rng.choice(DT_DEC)
    return max(round(rng.uniform(0.01, 20), rng.choice([1, 2, 3])), 0.05)


def gen_unit(rng, p_none=0.15, p_alias=0.15, p_special=0.05, p_bad=0.04):
    r = rng.random()
    if r < p_none: return None
    r -= p_none
    if r < p_alias: return rng.choice(ALIASES)
    r -= p_alias
    if r < p_special: return rng.choice(['unitless', 'none'])
    r -= p_special
    if r < p_bad: return rng.choice(BADUNITS)
    return rng.choice(CANON)


SCALARS = {
    'dur': [0, 1, 1e-300, 1e-12, 0.1, 10, 50, 3.7, 1e12, 1e300, -1, -0.5, 2, 0.25],
    'rate': [0, 1, 1e-300, 1e-12, 0.1, 10, 50, 3.7, 1e12, 1e300, -1, -0.5, 2, 0.25],
    'time_prob': [0, 1, 0.0, 1.0, 1e-300, 1e-12, 1e-6, 0.001, 0.1, 0.5, 0.9, 0.999, 1 - 1e-12, 1.0000001, 1.5, -0.1, -1e-12, 2, 0.3, 0.05],
    'beta': [0, 1, 1e-12, 1e-6, 0.001, 0.1, 0.5, 0.9, 0.999, 1.5, -0.1, 0.05, 0.02],
    'rate_prob': [0, 0.0, 1, 1e-300, 1e-12, 1e-6, 0.1, 0.5, 2, 10, 20, 37, 52, 120, 700, 1e300, -0.1, -1e-12, -3, 0.7],
}


def gen_scalar(rng, kind, valid_only=False):
    while True:
        x = rng.choice(SCALARS[kind]) if rng.random() < 0.75 else (
            round(rng.uniform(0, 1), rng.choice([2, 4, 8])) if kind in ('time_prob', 'beta') else round(rng.uniform(0, 30), rng.choice([1, 3, 6])))
        if not valid_only: return x
        if kind in ('time_prob', 'beta') and not (0 <= x <= 1): continue
        if kind == 'rate_prob' and x < 0: continue
        return x


def gen_value(rng, kind, valid_only=False):
    if rng.random() < 0.6:
        return gen_scalar(rng, kind, valid_only)
    n = rng.choice([0, 1, 2, 3, 4, 6])
    return [float(gen_scalar(rng, kind, valid_only or rng.random() < 0.7)) for _ in range(n)]


def gen_c(rng):
    return rng.choice([2, 3, 0.5, 0.1, 1, 7, 1.5, -1, 0.25, 10, 1e-3])


def gen_session(rng):
    kind = rng.choice(KINDS)
    mode = 'Q' if kind in ('dur', 'rate') and rng.random() < 0.7 else 'F'
    v = gen_value(rng, kind)
    unit = gen_unit(rng, p_none=0.3)
    punit = gen_unit(rng, p_none=0.6)
    pdt = None if rng.random() < 0.6 else gen_dt(rng)
    sdt = 1.0 if rng.random() < 0.7 else gen_dt(rng)
    ops = []
    n = rng.randint(1, 7)
    inited = False
    for _ in range(n):
        r = rng.random()
        if not inited and r < 0.7 or r < 0.12:
            spec = rng.choice(['kw', 'kw', 'time', 'time0', 'dict'])
            pu = gen_unit(rng, p_none=0.12, p_alias=0.05 if spec != 'kw' else 0.08)
            pd = gen_dt(rng)
            ex = None if spec == 'kw' or rng.random() < 0.9 else gen_dt(rng, False)
            ops.append(['init', spec, pu, pd, ex, rng.random() < 0.9, rng.random() < 0.75])
            inited = True
        elif r < 0.30:
            ops.append(['to', gen_unit(rng, p_none=0.25, p_alias=0.03, p_special=0.03, p_bad=0.03), gen_dt(rng)])
            if rng.random() < 0.6: ops.append(['adopt'])
        elif r < 0.36:
            ops.append(['toparent'])
            if rng.random() < 0.4: ops.append(['adopt'])
        elif r < 0.48:
            ops.append(['set', gen_value(rng, kind) if rng.random() < 0.5 else None,
                        gen_unit(rng, p_none=0.6), gen_unit(rng, p_none=0.6), gen_dt(rng) if rng.random() < 0.4 else None,
                        gen_dt(rng) if rng.random() < 0.3 else None, rng.random() < 0.3])
        elif r < 0.62:
            name = rng.choice(['mul', 'rmul', 'div', 'neg'])
            ops.append([name] if name == 'neg' else [name, gen_c(rng)])
            if rng.random() < 0.4: ops.append(['adopt'])
        elif r < 0.80:
            name = rng.choice(['add', 'sub', 'rsub', 'rdiv', 'pow'])
            ops.append([name, rng.choice([0, 1, 2, 3, 5]) if name == 'pow' else gen_c(rng)])
        else:
            ops.append([rng.choice(['iadd', 'isub', 'imul', 'idiv']), gen_c(rng)])
    return dict(mode=mode, kind=kind, v=v, unit=unit, punit=punit, pdt=pdt, sdt=sdt, ops=ops)


def sanitize(case):
    """ keep the session inside the compared domain: no division by a zero value (NumPy returns inf where Python raises) """
    ops = []
    for op in case['ops']:
        if op[0] == 'rdiv':
            vals = case['v'] if is_arr(case['v']) else [case['v']]
            if any(x == 0 for x in vals): continue
        ops.append(op)
    case['ops'] = ops
    return case


# ---------------------------------------------------------------------------
# (3) Module.init_time

def make_probe(ss, specs, mu, mdt):
    import sciris as sc
    class C06Probe(ss.Analyzer):
        def __init__(self, **kw):
            super().__init__()
            pars = {}
            for name, (kind, v, unit) in specs.items():
                pars[name] = getattr(ss, kind)(pyval(v), unit=unit)
            nested = sc.objdict(inner=pars.pop('inner')) if 'inner' in pars else None
            if nested is not None: pars['nested'] = nested
            self.define_pars(**pars)
            self.update_pars(None, **kw)
        def step(self): pass
    kw = {}
    if mu is not None: kw['unit'] = mu
    if mdt is not None: kw['dt'] = mdt
    return C06Probe(**kw)


SIM_TIMES = [('year', 1.0), ('year', 0.2), ('year', 0.5), ('year', 0.25), ('day', 1), ('day', 2), ('day', 7), ('week', 1), ('week', 2), ('month', 1), ('month', 3)]
MOD_TIMES = [(None, None), ('day', 1), ('day', 3), ('week', 1), ('week', 2), ('month', 1), ('year', 1.0), ('year', 0.1), ('year', 0.5), (None, 2), ('year', None)]


def gen_module_case(rng):
    su, sdt = rng.choice(SIM_TIMES)
    mu, mdt = rng.choice(MOD_TIMES)
    specs = {}
    for name in ['a', 'b', 'c', 'd', 'e', 'inner']:
        kind = rng.choice(KINDS)
        specs[name] = [kind, gen_value(rng, kind, valid_only=rng.random() < 0.9), gen_unit(rng, p_none=0.35, p_alias=0.1, p_special=0, p_bad=0)]
    return dict(su=su, sdt=sdt, mu=mu, mdt=mdt, specs=specs)


def run_module_case(case):
    """ -> (parent_unit, parent_dt, {name: observation}) from a real sim, or raises """
    import starsim as ss
    dur = {'year': 3, 'month': 24, 'week': 60, 'day': 200}[case['su']]
    probe = make_probe(ss, {k: tuple(v) for k, v in case['specs'].items()}, case['mu'], case['mdt'])
    sim = ss.Sim(n_agents=10, unit=case['su'], dt=case['sdt'], dur=dur, analyzers=probe, verbose=0)
    sim.init()
    p = sim.analyzers[0]
    obs = {}
    for k in case['specs']:
        tp = p.pars.nested.inner if k == 'inner' else p.pars[k]
        obs[k] = observe(tp)
    return p.t.unit, p.t.dt, obs


# ---------------------------------------------------------------------------

def correspond(ctx):
    import starsim as ss
    rng = ctx.rng
    # --- runtime cross-check of the regenerated tables against the imported module
    facts = (ctx.extracted.get('TimeUnits') or {}).get('facts') or {}
    live = {k: fr(v) for k, v in ss.time.time_units.items()}
    if facts and {k: Fr(v) for k, v in facts.items()} != live:
        ctx.broke('extract', 'TimeUnits', f'extracted table {facts} differs from the live ss.time.time_units {dict(ss.time.time_units)}')
    cf = (ctx.extracted.get('TimeParConsts') or {}).get('facts') or {}
    if cf:
        live_map = {k: v for k, v in ss.time.unit_mapping.items() if isinstance(k, str)}
        ext_map = {a: c for c, al in cf['aliases'].items() for a in al}
        if live_map != ext_map:
            ctx.broke('extract', 'TimeParConsts', f'extracted alias table differs from the live ss.time.unit_mapping')
    # --- (1) time_ratio: every ordered pair of the unit pool x seeded dt pairs
    pool = CANON + [None, 'unitless', 'none', 'd', 'yr', 'fortnight']
    lines = []; cases = []
    for u1, u2 in itertools.product(pool, pool):
        dts = [(1.0, 1.0), (rng.choice(DT_INT), rng.choice(DT_DEC)), (rng.choice(DT_DYADIC), rng.choice(DT_INT)), (gen_dt(rng), gen_dt(rng))]
        if ctx.thorough:
            dts += [(gen_dt(rng), gen_dt(rng)) for _ in range(6)]
        for d1, d2 in dts:
            cases.append((u1, d1, u2, d2))
            lines.append(f'Q ratio {tok_unit(u1)} {tok_opt(d1)} {tok_unit(u2)} {tok_opt(d2)}')
    out = drive(ctx, lines)
    for (u1, d1, u2, d2), ln, ml in zip(cases, lines, out):
        try:
            r = ss.time_ratio(u1, d1, u2, d2); ires = 'ok'
        except Exception as e:
            r = None; ires = err_kind(e)
        mres = ml.split(' ')[0]
        ctx.case(('ratio', ln), nontrivial=(u1 != u2 or d1 != d2), sample=dict(kind='time_ratio', args=[u1, d1, u2, d2], impl=r if r is None else float(r), model=ml))
        ctx.count('ratio_' + ('ok' if ires == 'ok' else ires))
        bad = None
        if mres != ires: bad = f'outcome: model={ml} impl={ires}'
        elif ires == 'ok' and not close(Fr(ml.split(' ')[1]), fr(r), 8 * U): bad = f'value: model={float(Fr(ml.split(" ")[1]))!r} impl={float(r)!r}'
        if bad:
            ctx.broke('correspondence', 'C06.time_ratio', f'time_ratio({u1!r}, {d1!r}, {u2!r}, {d2!r}) diverges from Model/TimePar.lean timeRatio: {bad}',
                      data=dict(args=[u1, d1, u2, d2], model=ml))
            break
    # --- (2) sessions on real TimePar objects
    nsess = ctx.budget(700, 6000)
    from harness.props import c06_round2 as r2
    me = sys.modules[__name__]
    r2.corr_as_int(ctx, me)
    from harness.props import c06_round3 as r3
    sessions = r2.fixed_sessions(rng) + r3.fixed_sessions(rng) + [sanitize(gen_session(rng)) for _ in range(nsess)]
    all_lines = []; per = []
    for c in sessions:
        try:
            steps = run_session(c)
        except Exception as e:
            ctx.broke('correspondence', 'C06.session', f'harness raised {type(e).__name__}: {e}', data=c)
            continue
        per.append((c, steps, len(all_lines)))
        all_lines += [s['line'] for s in steps]
    out = drive(ctx, all_lines)
    for c, steps, off in per:
        ml = out[off:off + len(steps)]
        div = compare_session(c, steps, ml)
        lines = [s['line'] for s in steps]
        nontrivial = any(s['res'].startswith('E:') for s in steps) or any(
            s['obs'] and s['obs']['factor'] not in (None, 1) for s in steps)
        ctx.case(('sess', tuple(lines)), nontrivial, sample=dict(kind='session', case=c, model_last=ml[-1] if ml else None))
        ctx.count('sess_' + c['mode'] + '_' + c['kind'])
        for s in steps:
            if s['res'].startswith('E:'): ctx.count('err_' + s['res'])
            if s.get('stop'): ctx.count('nonfinite_stopped')
            if s.get('op'): ctx.count('op_' + s['op'])
        if div:
            ctx.broke('correspondence', 'C06.session', f"ss.{c['kind']} call sequence diverges from Model/TimePar.lean at step {div['at']} `{div['line']}`: {div['why']}",
                      data=dict(case=c, lines=lines[:div['at'] + 1], divergence=div))
            break
    # --- (2b) distributions wrapped in a TimePar
    r2.corr_dist_wrapping(ctx, me)
    # --- (2b') the distribution bridge: every family x every form of the time-valued parameter (integer variates stay integers)
    from harness.props import c06_round5 as r5
    r5.corr_dist_bridge(ctx, me)
    # --- (2c) array identity: which ndarray objects `v` and `values` are, through histories of one object
    from harness.props import c06_round3 as r3
    r3.corr_identity(ctx, me)
    # --- (3) Module.init_time
    nmod = ctx.budget(25, 200)
    lines = []; per = []
    for _ in range(nmod):
        mc = gen_module_case(rng)
        try:
            pu, pdt, obs = run_module_case(mc)
        except Exception as e:
            ctx.count('module_case_rejected_' + type(e).__name__)
            continue
        for name, (kind, v, unit) in mc['specs'].items():
            l1 = f"F new {kind} {tok_val(v)} {tok_unit(unit)} ~ ~ 1"
            l2 = f"F init 1 {tok_unit(pu)} {tok_opt(pdt)} ~ 1 0"
            per.append((mc, name, kind, obs[name], len(lines)))
            lines += [l1, l2]
    if not per:
        ctx.broke('correspondence', 'C06.init_time', 'no generated sim could be initialised: the Module.init_time path was not compared')
    out = drive(ctx, lines)
    for mc, name, kind, o, off in per:
        ml = out[off + 1]
        ctx.case(('module', lines[off], lines[off + 1]), nontrivial=o['factor'] not in (None, 1),
                 sample=dict(kind='Module.init_time', sim=[mc['su'], mc['sdt']], module=[mc['mu'], mc['mdt']], par=mc['specs'][name], model=ml))
        ctx.count('module_pars')
        why = 'model refused' if '|' not in ml else cmp_state(parse_state(ml.split('|')[1]), o, kind in PROBKINDS)
        if why:
            ctx.broke('correspondence', 'C06.init_time', f"parameter ss.{kind}({mc['specs'][name][1]}, unit={mc['specs'][name][2]!r}) initialised by Module.init_time "
                      f"(sim {mc['su']}/{mc['sdt']}, module {mc['mu']}/{mc['mdt']}) diverges from the model: {why}", data=dict(case=mc, par=name, model=ml))
            break


# ---------------------------------------------------------------------------
# oracle on the real code (no model)

decimal.getcontext().prec = 60
Dm = decimal.Decimal


def D(x):
    f = fr(x)
    return Dm(f.numerator) / Dm(f.denominator)


def exact_ratio(u1, d1, u2, d2):
    """ the physical meaning of the factor: (dt1 * len(u1)) / (dt2 * len(u2)), exact """
    L = live_units()
    return (fr(d1) * L[u1]) / (fr(d2) * L[u2])


def F(sig, what):
    return dict(signature=sig, what=what)


def o_ratio(a):
    import starsim as ss
    u1, d1, u2, d2 = a['u1'], a['d1'], a['u2'], a['d2']
    out = []
    r = ss.time_ratio(u1, d1, u2, d2); ref = exact_ratio(u1, d1, u2, d2)
    if not close(ref, fr(r), 8 * U):
        out.append(F(dict(oracle='ratio-closed-form', same_unit=u1 == u2, same_dt=d1 == d2),
                     f'time_ratio({u1!r},{d1},{u2!r},{d2}) = {r!r} but (dt1*len(unit1))/(dt2*len(unit2)) = {float(ref)!r}'))
    rr = ss.time_ratio(u2, d2, u1, d1)
    if not close(Fr(1), fr(r) * fr(rr), 8 * U):
        out.append(F(dict(oracle='ratio-reciprocal', same_unit=u1 == u2, same_dt=d1 == d2),
                     f'time_ratio({u1!r},{d1},{u2!r},{d2}) * time_ratio({u2!r},{d2},{u1!r},{d1}) = {float(fr(r) * fr(rr))!r} != 1'))
    if 'u3' in a:
        u3, d3 = a['u3'], a['d3']
        r23 = ss.time_ratio(u2, d2, u3, d3); r13 = ss.time_ratio(u1, d1, u3, d3)
        if not close(fr(r13), fr(r) * fr(r23), 12 * U):
            out.append(F(dict(oracle='ratio-transitive'), f'ratio({u1},{d1}->{u2},{d2}) * ratio({u2},{d2}->{u3},{d3}) = {float(fr(r) * fr(r23))!r} != ratio({u1},{d1}->{u3},{d3}) = {r13!r}'))
    return out


def o_ratio_as_int(a):
    """ time_ratio(as_int=True) is the rounded factor, and asking for it does not disturb later exact requests
        (nor the other way round) — the same four arguments are used with and without as_int, in both orders """
    import starsim as ss
    u1, d1, u2, d2 = a['u1'], a['d1'], a['u2'], a['d2']
    out = []
    ref = exact_ratio(u1, d1, u2, d2)
    seq = a.get('order', [True, False, True, False])
    for as_int in seq:
        r = ss.time_ratio(u1, d1, u2, d2, as_int=as_int)
        if as_int:
            lo, hi = math.floor(ref), math.ceil(ref)
            want = [lo, hi] if abs((ref - lo) - Fr(1, 2)) < Fr(1, 10**9) else [int(round(float(ref)))]
            if not (isinstance(r, (int, np.integer)) and int(r) in want):
                out.append(F(dict(oracle='ratio-as-int'), f'time_ratio({u1!r},{d1},{u2!r},{d2}, as_int=True) = {r!r} but the rounded factor is {want} (exact {float(ref)!r}); call order {seq}'))
        elif not close(ref, fr(r), 8 * U):
            out.append(F(dict(oracle='ratio-closed-form-after-as-int'),
                         f'time_ratio({u1!r},{d1},{u2!r},{d2}) = {r!r} after an as_int=True request with the same arguments, but (dt1*len(unit1))/(dt2*len(unit2)) = {float(ref)!r}; call order {seq}'))
    return out


def build(a, via=None):
    """ construct and initialise a real TimePar from oracle arguments """
    import starsim as ss
    pre = a.get('pre')   # [how, unit, dt]: the parameter already has ANOTHER parent (given to the constructor / linked before) when it is linked
    ctor = dict(parent_unit=pre[1], parent_dt=pre[2]) if pre and pre[0] == 'ctor' else {}
    x = getattr(ss, a['kind'])(pyval_dtype(a['v'], a.get('dtype')), unit=a['unit'], self_dt=a.get('sdt', 1.0), **ctor)
    if pre and pre[0] == 'init': x.init(parent_unit=pre[1], parent_dt=pre[2])
    elif pre and pre[0] == 'initp': x.init(parent=make_parent('dict', pre[1], pre[2]))
    via = via or a.get('via', 'kw')
    if via == 'kw':
        x.init(parent_unit=a['punit'], parent_dt=a['pdt'])
    elif via == 'time':
        x.init(parent=make_parent('time', a['punit'], a['pdt']))
    elif via == 'dict':
        x.init(parent=make_parent('dict', a['punit'], a['pdt']))
    return x


def pyval_dtype(v, dtype=None):
    if isinstance(v, list):
        return np.array(v, dtype=int if dtype == 'int' else float)
    return v


def flat(v):
    if isinstance(v, np.ndarray): return [x for x in v.tolist()]
    if isinstance(v, list): return v
    return [v]


def branch(v):
    return 'array' if is_arr(v) else 'scalar'


def o_steps(a):
    """ dur: values*dt_parent*len(parent) = v*self_dt*len(unit);  rate: values/(dt_parent*len(parent)) = v/(self_dt*len(unit)) """
    x = build(a)
    L = live_units(); out = []
    own = fr(a.get('sdt', 1.0)) * L[a['unit']]; par = fr(a['pdt']) * L[a['punit']]
    for v, val in zip(flat(a['v']), flat(x.values)):
        if a['kind'] == 'dur':
            lhs, rhs = fr(val) * par, fr(v) * own
        else:
            lhs, rhs = fr(val) * own, fr(v) * par
        if not close(lhs, rhs, 12 * U):
            out.append(F(dict(oracle='steps', kind=a['kind'], branch=branch(a['v'])),
                         f"ss.{a['kind']}({v}, unit={a['unit']!r}, self_dt={a.get('sdt', 1.0)}) in a parent ({a['punit']!r}, dt={a['pdt']}): values={val!r}; "
                         + ('values * parent step length' if a['kind'] == 'dur' else 'values / parent step length')
                         + f" = {float(lhs / (1 if a['kind'] == 'dur' else own * par))!r} differs from the quantity in its own unit {float(rhs / (1 if a['kind'] == 'dur' else own * par))!r} (in days)"))
            break
    return out


def tp_ref(p, f):
    """ 1 - (1-p)^(1/f) with 60 digits, and the forward error bound of the double algorithm """
    p = D(p); f = D(f)
    if p == 0: return Dm(0), 0.0
    if p == 1: return Dm(1), 0.0
    t = 1 - p; Lg = t.ln(); E = (Lg / f).exp()
    tol = U * float(4 + E * (1 / (t * f) + 4 * abs(Lg) / f)) * 4
    return 1 - E, tol


def o_timeprob(a):
    x = build(a); out = []
    f = exact_ratio(a['unit'], a.get('sdt', 1.0), a['punit'], a['pdt'])
    for p, val in zip(flat(a['v']), flat(x.values)):
        ref, tol = tp_ref(p, f)
        sig = dict(kind=a['kind'], branch=branch(a['v']))
        if not (0 <= float(val) <= 1):
            out.append(F(dict(oracle='timeprob-range', **sig), f"ss.{a['kind']}({p}, {a['unit']!r}) -> ({a['punit']!r}, dt={a['pdt']}): values={val!r} outside [0,1]"))
        if abs(D(val) - ref) > Dm(tol):
            out.append(F(dict(oracle='timeprob-formula', **sig),
                         f"ss.{a['kind']}({p}, unit={a['unit']!r}) in a parent ({a['punit']!r}, dt={a['pdt']}): values={val!r} but 1-(1-p)^(1/factor) = {float(ref)!r} (factor={float(f)!r})"))
        elif 0 < float(val) < 1 and 0 < p < 1:
            # compounding over the steps in the reference period returns p
            comp = 1 - ((1 - D(val)).ln() * D(f)).exp()
            ctol = Dm(tol) * D(f) * ((1 - D(val)).ln() * (D(f) - 1)).exp() * 2 + Dm(4 * U)
            if abs(comp - D(p)) > ctol:
                out.append(F(dict(oracle='timeprob-compound', **sig), f"1-(1-values)^factor = {float(comp)!r} != p = {p!r}"))
        if out: break
    return out


def o_timeprob_mono(a):
    import starsim as ss
    out = []; prev = None
    for dt in sorted(a['dts']):
        x = getattr(ss, a['kind'])(a['v'], unit=a['unit']); x.init(parent_unit=a['punit'], parent_dt=dt)
        if prev is not None and float(x.values) < prev[1] - 4e-16:
            out.append(F(dict(oracle='timeprob-mono', kind=a['kind']), f"ss.{a['kind']}({a['v']}, {a['unit']!r}) per step of dt={dt} {a['punit']} is {x.values!r} < {prev[1]!r} for the shorter dt={prev[0]}"))
            break
        prev = (dt, float(x.values))
    return out


def o_rateprob(a):
    x = build(a); out = []
    f = exact_ratio(a['unit'], a.get('sdt', 1.0), a['punit'], a['pdt'])
    for v, val in zip(flat(a['v']), flat(x.values)):
        xx = D(v) / D(f); E = (-xx).exp(); ref = 1 - E
        tol = U * float(4 + E * 4 * xx) * 4
        if abs(D(val) - ref) > Dm(tol):
            out.append(F(dict(oracle='rateprob-formula', kind='rate_prob', branch=branch(a['v'])),
                         f"ss.rate_prob({v}, unit={a['unit']!r}) in a parent ({a['punit']!r}, dt={a['pdt']}): values={val!r} but 1-exp(-rate*dt) = {float(ref)!r}"))
            break
    return out


def o_roundtrip(a):
    """ x.to(u1, d1).to(u0, d0).v == x.v """
    import starsim as ss
    x = getattr(ss, a['kind'])(pyval(a['v']), unit=a['unit'], self_dt=a['sdt'])
    x.init(parent_unit=a['unit'], parent_dt=a['sdt'])
    y = x.to(a['u1'], a['d1']); z = y.to(a['unit'], a['sdt'])
    out = []
    f = exact_ratio(a['unit'], a['sdt'], a['u1'], a['d1'])
    for v, mid, back in zip(flat(a['v']), flat(y.v), flat(z.v)):
        if a['kind'] in ('time_prob', 'beta') and float(mid) in (0.0, 1.0) and float(v) not in (0.0, 1.0):
            continue   # the double saturated at 0 or 1: the information is gone, outside the compared domain (counted by the caller)
        if a['kind'] in ('dur', 'rate'):
            ok = close(fr(v), fr(back), 16 * U)
        else:
            # the double algorithm is ill-conditioned near 0 and 1: bound from the two forward errors
            _, t1 = tp_ref(v, f) if a['kind'] != 'rate_prob' else (None, 8 * U)
            mm = min(max(float(mid), 0.0), 1.0)
            if a['kind'] != 'rate_prob' and 0 < mm < 1:
                amp = float(1 / D(1 / f)) * float(((1 - D(mm)).ln() * (D(f) - 1)).exp())   # d back / d mid
                _, t2 = tp_ref(mm, 1 / f)
            else:
                amp, t2 = 1.0, 8 * U
            ok = abs(float(back) - float(v)) <= t1 * abs(amp) * 2 + t2 * 2 + 1e-15
        if not ok:
            out.append(F(dict(oracle='roundtrip', kind=a['kind']),
                         f"ss.{a['kind']}({v}, unit={a['unit']!r}, self_dt={a['sdt']}).to({a['u1']!r}, {a['d1']}).to({a['unit']!r}, {a['sdt']}).v = {back!r} != {v!r} (intermediate {mid!r})"))
            break
        if (y.unit, y.self_dt) != (a['u1'], a['d1']) or (z.unit, z.self_dt) != (a['unit'], a['sdt']):
            out.append(F(dict(oracle='roundtrip-units', kind=a['kind']), f"to() does not record the target unit/dt: {y.unit},{y.self_dt} / {z.unit},{z.self_dt}"))
            break
    return out


def o_array_eq_scalar(a):
    import starsim as ss
    out = []
    arr = build(a)
    for k, v in enumerate(a['v']):
        b = dict(a); b['v'] = int(v) if a.get('dtype') == 'int' else v
        s = build(b)
        av = arr.values[k]
        if abs(float(av) - float(s.values)) > 8 * U * abs(float(s.values)) + (4e-16 if a['kind'] in PROBKINDS else 0):
            out.append(F(dict(oracle='array-eq-scalar', kind=a['kind'], dtype=a.get('dtype', 'float')),
                         f"ss.{a['kind']}(np.array({a['v']}, dtype={a.get('dtype', 'float')}), unit={a['unit']!r}) in a parent ({a['punit']!r}, dt={a['pdt']}): element {k} is {av!r} but the scalar ss.{a['kind']}({b['v']}) gives {s.values!r}"))
            break
    return out


def moderate(v):
    """ keep magnitudes where squares / products neither overflow nor underflow """
    m = lambda x: x if x == 0 or 1e-9 <= abs(x) <= 1e9 else 0.37
    return [m(x) for x in v] if is_arr(v) else m(v)


def o_arith(a):
    a = dict(a, v=moderate(a['v']))
    x = build(a); c = a['c']; out = []
    sig = dict(oracle='arith', kind=a['kind'], branch=branch(a['v']))
    def chk(name, got, want, rel=8 * U):
        for g, w in zip(flat(got), flat(want)):
            if not close(fr(w), fr(g), rel):
                out.append(F(dict(sig, op=name), f"ss.{a['kind']}({a['v']}, {a['unit']!r}) parent ({a['punit']!r},{a['pdt']}), c={c}: {name} gives {g!r}, expected {float(fr(w))!r}"))
                return
    vals = [fr(t) for t in flat(x.values)]; vs = [fr(t) for t in flat(a['v'])]
    y = x * c
    chk('(x*c).v', y.v, [v * fr(c) for v in vs]); chk('(x*c).values', y.values, [v * fr(c) for v in vals], 16 * U)
    if (y.unit, y.parent_unit, y.parent_dt, y.self_dt) != (x.unit, x.parent_unit, x.parent_dt, x.self_dt):
        out.append(F(dict(sig, op='mul-units'), 'x*c changed unit/dt fields'))
    y = c * x
    chk('(c*x).values', y.values, [v * fr(c) for v in vals], 16 * U)
    y = x / c
    chk('(x/c).v', y.v, [v / fr(c) for v in vs]); chk('(x/c).values', y.values, [v / fr(c) for v in vals], 16 * U)
    y = -x
    chk('(-x).values', y.values, [-v for v in vals])
    chk('x+c', x + c, [v + fr(c) for v in vals]); chk('x-c', x - c, [v - fr(c) for v in vals]); chk('c-x', c - x, [fr(c) - v for v in vals])
    chk('c+x', c + x, [v + fr(c) for v in vals])
    if all(v != 0 for v in vals): chk('c/x', c / x, [fr(c) / v for v in vals])
    chk('x**2', x ** 2, [v * v for v in vals])
    z = build(a); z *= c
    chk('x*=c', z.values, [v * fr(c) for v in vals], 16 * U)
    z = build(a); z += c
    chk('(x+=c).v', z.v, [v + fr(c) for v in vs])
    return out[:1]


def o_reject(a):
    """ invalid values / units must raise """
    import starsim as ss
    how = a['how']
    try:
        if how == 'unit':
            getattr(ss, a['kind'])(1, unit=a['unit'])
        elif how == 'parent_unit':
            getattr(ss, a['kind'])(1, parent_unit=a['unit'])
        elif how == 'ratio':
            ss.time_ratio(a['unit'], 1.0, 'day', 1.0)
        elif how == 'to':
            x = getattr(ss, a['kind'])(0.5, unit='day'); x.init(parent_unit='day', parent_dt=1.0); x.to(a['unit'])
        elif how == 'init':
            x = getattr(ss, a['kind'])(pyval(a['v']), unit=a['unit']); x.init(parent_unit=a['punit'], parent_dt=a['pdt'])
        elif how == 'set':
            x = getattr(ss, a['kind'])(0.5 if not is_arr(a['v']) else np.array([0.5]), unit=a['unit']); x.init(parent_unit=a['punit'], parent_dt=a['pdt'])
            x.set(v=pyval(a['v']))
        elif how == 'to-value':
            x = getattr(ss, a['kind'])(pyval(a['v']), unit=a['unit']); x.to(a['punit'], a['pdt'])
        elif how == 'neg':
            x = getattr(ss, a['kind'])(pyval(a['v']), unit=a['unit']); x.init(parent_unit=a['punit'], parent_dt=a['pdt']); -x
        else:
            raise RuntimeError(how)
    except RuntimeError:
        raise
    except Exception:
        return []
    return [F(dict(oracle='reject', how=how, kind=a.get('kind')), f"invalid input accepted without an exception: {a}")]


def o_parent_equiv(a):
    """ init(parent_unit, parent_dt) == init(parent=Time) == init(parent=dictobj) """
    out = []
    ref = observe(build(a, 'kw'))
    for via in ('time', 'dict'):
        o = observe(build(a, via))
        if o != ref:
            out.append(F(dict(oracle='parent-equiv', kind=a['kind'], via=via), f"init(parent=<{via}>) gives {o} but init(parent_unit=, parent_dt=) gives {ref}"))
            break
    return out


ORACLES = dict(ratio=o_ratio, ratio_as_int=o_ratio_as_int, steps=o_steps, timeprob=o_timeprob, timeprob_mono=o_timeprob_mono, rateprob=o_rateprob,
               roundtrip=o_roundtrip, array_eq_scalar=o_array_eq_scalar, arith=o_arith, reject=o_reject, parent_equiv=o_parent_equiv)


def _r2(name):
    def f(a):
        from harness.props import c06_round2 as r2
        return r2.ORACLES[name](a, sys.modules[__name__])
    return f


ORACLES.update({k: _r2(k) for k in ('arith_consistency', 'no_alias', 'nan', 'dist_wrap', 'pow')})


def _r3(name):
    def f(a):
        from harness.props import c06_round3 as r3
        return r3.ORACLES[name](a, sys.modules[__name__])
    return f


ORACLES.update({k: _r3(k) for k in ('history', 'rateprob_mono', 'module_relink')})


def _r5(name):
    def f(a):
        from harness.props import c06_round5 as r5
        return r5.ORACLES[name](a, sys.modules[__name__])
    return f


ORACLES.update({k: _r5(k) for k in ('dist_bridge',)})


def run_oracle(ctx, name, args):
    try:
        fails = ORACLES[name](args)
    except Exception as e:
        fails = [F(dict(oracle=name + '-exception', exc=type(e).__name__), f'oracle {name} on valid input {args} raised {type(e).__name__}: {e}')]
    ctx.count('oracle_' + name)
    for f in fails:
        ctx.fail(f['signature'], f['what'], dict(oracle=name, args=args))
    return fails


def pos_dt(rng):
    return gen_dt(rng, allow_none=False)


def search(ctx):
    rng = ctx.rng
    # every ordered pair / triple of the canonical units
    for u1, u2 in itertools.product(CANON, CANON):
        for k in range(ctx.budget(3, 12)):
            d1, d2 = (1.0, 1.0) if k == 0 else ((2.0, 2.0) if k == 1 and u1 != u2 else (pos_dt(rng), pos_dt(rng)))
            run_oracle(ctx, 'ratio', dict(u1=u1, d1=d1, u2=u2, d2=d2))
    # the as_int form (used by Time.init for calendar units with a fractional dt), interleaved with exact requests
    for u1, u2 in itertools.product(CANON, CANON):
        for k in range(ctx.budget(2, 8)):
            d1 = rng.choice([0.5, 0.25, 1.5, 2.5, 0.1, 1.0, 3.0]); d2 = rng.choice([1.0, 1.0, 2.0, 0.5])
            order = rng.choice([[True, False], [False, True, False], [True, True, False, True]])
            run_oracle(ctx, 'ratio_as_int', dict(u1=u1, d1=d1, u2=u2, d2=d2, order=order))
    for u1, u2, u3 in itertools.product(CANON, CANON, CANON):
        for k in range(ctx.budget(1, 4)):
            run_oracle(ctx, 'ratio', dict(u1=u1, d1=pos_dt(rng), u2=u2, d2=pos_dt(rng), u3=u3, d3=pos_dt(rng)))
    # dur / rate step identities, all unit pairs, scalar and array, three init paths
    for u, pu in itertools.product(CANON, CANON):
        for kind in ('dur', 'rate'):
            for k in range(ctx.budget(2, 8)):
                v = gen_value(rng, kind)
                pdt = pos_dt(rng) if k else rng.choice(DT_INT)
                a = dict(kind=kind, v=v, unit=u, punit=pu, pdt=pdt, sdt=1.0 if rng.random() < 0.6 else pos_dt(rng), via=rng.choice(['kw', 'dict', 'time']))
                run_oracle(ctx, 'steps', a)
            a = dict(kind=kind, v=gen_value(rng, kind), unit=u, punit=pu, pdt=pos_dt(rng), c=gen_c(rng))
            if not (is_arr(a['v']) and len(a['v']) == 0): run_oracle(ctx, 'arith', a)
            run_oracle(ctx, 'parent_equiv', dict(kind=kind, v=gen_value(rng, kind), unit=u, punit=pu, pdt=rng.choice(DT_INT)))
        for kind in ('time_prob', 'beta'):
            for k in range(ctx.budget(2, 8)):
                a = dict(kind=kind, v=gen_value(rng, kind, valid_only=True), unit=u, punit=pu, pdt=pos_dt(rng), via=rng.choice(['kw', 'dict']))
                run_oracle(ctx, 'timeprob', a)
            run_oracle(ctx, 'timeprob_mono', dict(kind=kind, v=rng.choice([0.001, 0.1, 0.5, 0.9, 0.999]), unit=u, punit=pu, dts=sorted({pos_dt(rng) for _ in range(5)})))
            run_oracle(ctx, 'parent_equiv', dict(kind=kind, v=gen_value(rng, kind, True), unit=u, punit=pu, pdt=rng.choice(DT_INT)))
        for k in range(ctx.budget(2, 8)):
            run_oracle(ctx, 'rateprob', dict(kind='rate_prob', v=gen_value(rng, 'rate_prob', True), unit=u, punit=pu, pdt=pos_dt(rng), via=rng.choice(['kw', 'dict'])))
        # array = scalar, float and integer arrays
        for kind in KINDS:
            vs = [float(gen_scalar(rng, kind, True)) for _ in range(4)]
            run_oracle(ctx, 'array_eq_scalar', dict(kind=kind, v=vs, unit=u, punit=pu, pdt=pos_dt(rng)))
            iv = [0, 1] if kind in ('time_prob', 'beta') else [0, 1, 2, rng.randint(3, 40)]
            run_oracle(ctx, 'array_eq_scalar', dict(kind=kind, v=iv, unit=u, punit=pu, pdt=pos_dt(rng), dtype='int'))
        # round trips
        for kind in KINDS:
            for k in range(ctx.budget(1, 4)):
                if kind in ('time_prob', 'beta'):
                    v = rng.choice([0, 1, 0.001, 0.05, 0.1, 0.3, 0.5, 0.9]) if rng.random() < 0.7 else [0.0, 0.2, 1.0, 0.01]
                elif kind == 'rate_prob':
                    v = rng.choice([0, 0.1, 0.5, 2.0]) if rng.random() < 0.7 else [0.0, 0.3, 1.5]
                else:
                    v = gen_value(rng, kind)
                run_oracle(ctx, 'roundtrip', dict(kind=kind, v=v, unit=u, sdt=rng.choice([1.0, 1.0, 0.5, 2, 0.1]), u1=pu, d1=rng.choice([1.0, 1, 2, 0.5, 0.25, 7, 0.1])))
    # rejections
    for kind in KINDS:
        for bad in BADUNITS + ['sec']:
            for how in ('unit', 'parent_unit', 'to'):
                run_oracle(ctx, 'reject', dict(kind=kind, how=how, unit=bad))
    for bad in BADUNITS:
        run_oracle(ctx, 'reject', dict(how='ratio', unit=bad))
    for kind, bads in (('time_prob', [1.5, -0.1, 1.0000001, -1e-12, 2]), ('beta', [1.5, -0.1]), ('rate_prob', [-0.1, -1e-12, -3])):
        for bv in bads:
            for v in (bv, [0.5, bv], [bv]):
                for how in ('init', 'set', 'to-value'):
                    run_oracle(ctx, 'reject', dict(kind=kind, how=how, v=v, unit=rng.choice(CANON), punit=rng.choice(CANON), pdt=pos_dt(rng)))
    for kind in ('time_prob', 'beta', 'rate_prob'):
        run_oracle(ctx, 'reject', dict(kind=kind, how='neg', v=0.5, unit='day', punit='week', pdt=1.0))
    from harness.props import c06_round2 as r2
    r2.search(ctx, sys.modules[__name__], run_oracle)
    from harness.props import c06_round3 as r3
    r3.search(ctx, sys.modules[__name__], run_oracle)
    from harness.props import c06_round5 as r5
    r5.search(ctx, sys.modules[__name__], run_oracle)
    # the stored inputs of the known findings (re-run on every invocation)
    for k in ctx.known:
        r = k.get('replay')
        if r and r.get('oracle') in ORACLES:
            run_oracle(ctx, r['oracle'], r['args'])


def replay(ctx, data):
    name = data.get('oracle')
    if name in ORACLES:
        try:
            return bool(ORACLES[name](data['args']))
        except Exception:
            return True
    return False
