"""
C17 — equivalent spellings over the scenario zoo (coordinator, round 5).

Every zoo configuration whose components have a plain dict spelling is built twice: with module OBJECTS
(`ss.SIR(beta=..)`, `ss.RandomNet(..)`, `ss.Deaths(..)`: what harness/impl.py does for every other check) and with
dict SPECS handed to `ss.Sim` (`diseases=[dict(type='sir', beta=..)]`, `networks=[dict(type='random', ..)]`,
`demographics=[dict(type='deaths', ..)]`) — the two routes by which a value reaches a parameter
(`Module.update_pars` from the constructor vs `SimPars.convert_modules` -> constructor).  Same seed: results and agent
states must be identical.  A difference is a parameter applied differently (or dropped) on one route.
"""
import numpy as np
from harness import impl, snap

DIS = {'sir': 'sir', 'sis': 'sis'}
NET = {'random': 'random', 'static': 'static', 'mf': 'mf', 'msm': 'msm', 'embedding': 'embedding', 'erdosrenyi': 'erdosrenyi', 'disk': 'disk',
       'maternal': 'maternal', 'null': 'null'}
DEM = {'births': 'births', 'deaths': 'deaths'}


def spellable(cfg):
    if cfg.get('own_people') or cfg.get('interventions'): return False
    for d in cfg.get('diseases', []):
        if d['type'] not in DIS or isinstance(d.get('beta'), dict) or isinstance(d.get('dur_inf'), dict): return False
    for n in cfg.get('networks', []):
        if n['type'] not in NET or isinstance(n.get('dur'), dict): return False
    for d in cfg.get('demographics', []):
        if d['type'] not in DEM or 'death_table' in d: return False
    return bool(cfg.get('diseases')) and bool(cfg.get('networks'))


def spec_disease(d):
    d = dict(d)
    out = dict(type=d['type'], beta=d.get('beta', 0.1), init_prev=d.get('init_prev', 0.05))
    for k in ('dur_inf', 'p_death', 'waning', 'name') + tuple(impl.TIME_KEYS):
        if k in d and d[k] is not None and (k != 'p_death' or d['type'] == 'sir') and (k != 'waning' or d['type'] == 'sis'):
            out[k] = d[k]
    return out


def spec_network(n):
    import starsim as ss
    n = dict(n); t = n['type']
    if t == 'random': return dict(type='random', n_contacts=n.get('n_contacts', 4), dur=n.get('dur', 0), **impl._own_time(n))
    if t in ('mf', 'msm', 'embedding'):
        return dict(type=t, duration=ss.lognorm_ex(mean=n.get('duration', 5), std=1.0)) if 'duration' in n else dict(type=t)
    if t == 'erdosrenyi':
        out = dict(type='erdosrenyi', p=n.get('p', 0.05))
        if 'dur' in n: out['dur'] = n['dur']
        return out
    if t == 'static': return dict(type='static', n_contacts=n.get('n_contacts', 4))
    if t == 'disk': return dict(type='disk', r=n.get('r', 0.1), v=n.get('v', 0.1))
    return dict(type=t)


def spec_demog(d):
    d = dict(d); t = d['type']
    if t == 'births': return dict(type='births', birth_rate=d.get('birth_rate', 20), **impl._own_time(d))
    return dict(type='deaths', death_rate=d.get('death_rate', 10), **impl._own_time(d))


def build_spelled(cfg):
    import starsim as ss
    pars = dict(n_agents=cfg['n_agents'], rand_seed=cfg.get('rand_seed', 1), verbose=0)
    for k in ('unit', 'dt', 'start', 'dur', 'stop', 'pop_scale', 'total_pop', 'use_aging'):
        if k in cfg and cfg[k] is not None: pars[k] = cfg[k]
    pars['diseases'] = [spec_disease(d) for d in cfg['diseases']]
    pars['networks'] = [spec_network(n) for n in cfg['networks']]
    dem = [spec_demog(d) for d in cfg.get('demographics', [])]
    if dem: pars['demographics'] = dem
    return ss.Sim(**pars)


def run_pair(cfg):
    out = []
    for mk in (lambda: impl.build_sim(cfg), lambda: build_spelled(cfg)):
        np.random.seed(cfg.get('rand_seed', 1))
        sim = mk(); sim.init(); sim.run()
        mods = [m.name for m in sim.modules] + ['__people__', '__sim__']
        out.append((snap.everything(sim, mods), [type(m).__name__ + ':' + m.name for m in sim.modules]))
    return out


def oracle(name, cfg):
    (sa, ma), (sb, mb) = run_pair(cfg)
    if ma != mb:
        return f'zoo `{name}`: module objects and dict specs build different module lists: {ma} vs {mb}'
    d = snap.diff(sa, sb)
    if d:
        return f'zoo `{name}`: module objects and the same configuration written as dict specs give different simulations (results / agent states / edges): {d}'
    return None


def candidates():
    from harness import zoo
    return [(n, c) for n, c in zoo.configs() if spellable(c)]


def search(ctx):
    cands = candidates()
    ctx.notes['zoo_dict_spelling_candidates'] = [n for n, _ in cands]
    for name, cfg in cands:
        try:
            msg = oracle(name, cfg)
        except Exception as e:
            ctx.count('zoo_spelling_exceptions'); ctx.notes['last_zoo_spelling_exception'] = f'{name}: {type(e).__name__}: {e}'; continue
        ctx.count('oracle_zoo_dict_spelling')
        if msg:
            ctx.fail(dict(oracle='sim-spellings-differ', group='dict-spec'), msg, dict(kind='zoo-dict-spelling', name=name))


def replay(ctx, data):
    if data.get('kind') != 'zoo-dict-spelling': return None
    from harness import zoo
    cfg = zoo.configs(names=[data['name']])[0][1]
    msg = oracle(data['name'], cfg)
    if msg: print('  ' + msg)
    return bool(msg)
