"""
C07 — scenario families that EVERY run exercises (next to the seeded random ones in c07.py).

Each clause of the property and each configuration family of its quantifier has at least one fixed case here:
start = 0 / 0.0 / default in every unit and both stop/dur forms; every module field overridden alone and in pairs in every
kind of sim; leap years and non-leap centuries for every unit; week/month fractional dt; module stop before / after the sim's
stop and start after it; unitless sims with modules; int vs float dt; dt <= 0; dur <= 0 given directly; mixed start/stop kinds;
two instances of one class.  Numbers are decimal strings: "2" is handed to starsim as a Python int, "2.0" as a float.
"""


def S(family, **kw):
    return dict(family=family, **kw)


def fixed_sims():
    out = []
    # start = 0 (int and float) and the default start, in every unit, dur- and stop-form, integer / fractional / non-dividing dt
    for unit in ('year', 'unitless', 'day', 'week', 'month', ''):
        for start in ('0', '0.0', None):
            for form in ('dur', 'stop'):
                for dt in ('1.0', '0.25', '0.3'):
                    if form == 'stop' and start is None: continue
                    spec = S('fixed-start0', unit=unit, dt=dt)
                    if start is not None: spec['start'] = start
                    spec[form] = '10' if form == 'dur' else '10.0'
                    out.append(spec)
    # numeric starts that are not 0, int and float, every unit
    for unit in ('year', 'day', 'week', 'month', 'unitless'):
        out.append(S('fixed-numeric', unit=unit, start='2000', stop='2011', dt='4.0'))
        out.append(S('fixed-numeric', unit=unit, start='2000.5', dur='3.3', dt='0.5'))
        out.append(S('fixed-numeric', unit=unit, start='3', stop='9', dt='1.5'))
    # leap years and non-leap centuries for every calendar unit (date timelines)
    for a, b in (('D1999-12-25', 'D2001-01-10'), ('D2003-12-30', 'D2005-01-02'), ('D1899-12-20', 'D1901-01-05'),
                 ('D2099-12-20', 'D2101-01-05'), ('D2024-02-27', 'D2024-03-02'), ('D2023-02-27', 'D2023-03-02')):
        out.append(S('fixed-leap', unit='day', start=a, stop=b, dt='1.0'))
        out.append(S('fixed-leap', unit='week', start=a, stop=b, dt='1.0'))
        out.append(S('fixed-leap', unit='month', start=a, stop=b, dt='1.0'))
        out.append(S('fixed-leap', unit='year', start=a, stop=b, dt='0.1'))
        out.append(S('fixed-leap', unit='day', start=a, stop=b, dt='7.0'))
    out.append(S('fixed-leap', unit='month', start='D2019-01-31', dur='30', dt='1.0'))
    out.append(S('fixed-leap', unit='month', start='D2020-02-29', dur='50', dt='12.0'))
    out.append(S('fixed-leap', unit='year', start='D2020-02-29', dur='8', dt='1.0'))
    out.append(S('fixed-leap', unit='year', start='D1996-01-01', dur='10', dt='0.5'))
    # the requested stop IS a grid point (so it must be the last point), date start and date stop, every unit, starting in leap
    # and non-leap years, one to four units long
    for y in (2000, 2001, 2003, 2004, 2096, 2100):
        for k in (1, 2, 3, 4):
            for dt in ('1.0', '0.5'):
                out.append(S('fixed-stop-on-grid', unit='year', start=f'D{y}-01-01', stop=f'D{y + k}-01-01', dt=dt))
        out.append(S('fixed-stop-on-grid', unit='month', start=f'D{y}-01-31', stop=f'D{y + 1}-01-31', dt='3.0'))
        out.append(S('fixed-stop-on-grid', unit='month', start=f'D{y}-02-01', stop=f'D{y}-03-01', dt='1.0'))
        out.append(S('fixed-stop-on-grid', unit='week', start=f'D{y}-02-01', stop=f'D{y}-03-14', dt='2.0'))
        out.append(S('fixed-stop-on-grid', unit='day', start=f'D{y}-02-20', stop=f'D{y}-03-02', dt='1.0' if y % 4 else '2.0'))
    # numeric day/week/month timelines across leap years and a non-leap century
    for start in ('2000', '2003', '1900', '2100', '0'):
        out.append(S('fixed-leap-numeric', unit='day', start=start, dur='800', dt='10.0'))
        out.append(S('fixed-leap-numeric', unit='week', start=start, dur='110', dt='1.0'))
        out.append(S('fixed-leap-numeric', unit='month', start=start, dur='30', dt='1.0'))
    # week / month / day with fractional dt
    for unit in ('day', 'week', 'month'):
        for dt in ('0.5', '1.5', '2.5', '0.3', '10.5'):
            out.append(S('fixed-frac', unit=unit, start='D2020-01-31', dur='40', dt=dt))
    # int dt (Python int) next to the float form
    for dt in ('1', '2', '1.0', '2.0'):
        out.append(S('fixed-intdt', unit='year', start='2000', stop='2010', dt=dt))
        out.append(S('fixed-intdt', unit='day', start='D2020-01-01', dur='30', dt=dt))
        out.append(S('fixed-intdt', unit='day', start='0', dur='30', dt=dt))
    # dt <= 0
    out.append(S('fixed-dt0', unit='year', start='2000', stop='2010', dt='0.0'))
    out.append(S('fixed-dt0', unit='year', start='2000', stop='2010', dt='-1.0'))
    out.append(S('fixed-dt0', unit='year', start='2000', stop='2000.5', dt='-1.0'))
    out.append(S('fixed-dt0', unit='year', start='D2000-01-01', stop='D2003-01-01', dt='0.0'))
    out.append(S('fixed-dt0', unit='day', start='D2020-01-01', stop='D2020-02-01', dt='0.0'))
    out.append(S('fixed-dt0', unit='week', start='D2020-01-01', dur='5', dt='0'))
    out.append(S('fixed-dt0', unit='month', start='D2020-01-01', dur='5', dt='0.0'))
    out.append(S('fixed-dt0', unit='month', start='D2020-01-01', dur='5', dt='-1.0'))
    out.append(S('fixed-dt0', unit='week', start='D0200-01-01', dur='5', dt='-50.0'))
    out.append(S('fixed-dt0', unit='day', start='D2020-01-01', dur='5', dt='-0.4'))
    out.append(S('fixed-dt0', unit='day', start='D2020-01-01', dur='5', dt='-2.5'))
    # dur <= 0 given directly (validate_time only looks at the sign when stop is given)
    for dur in ('0', '0.0', '-0.5', '-0.99', '-1', '-1.0', '-3'):
        out.append(S('fixed-dur', unit='year', start='2000', dur=dur, dt='1.0'))
    for dur in ('0', '-1', '-40'):
        out.append(S('fixed-dur', unit='day', start='D2020-01-10', dur=dur, dt='1.0'))
        out.append(S('fixed-dur', unit='year', start='D2020-01-10', dur=dur, dt='1.0'))
    # one number, one date
    for unit in ('year', 'day', 'week', 'month', 'unitless'):
        out.append(S('fixed-mixed', unit=unit, start='2000', stop='D2003-01-01', dt='1.0'))
        out.append(S('fixed-mixed', unit=unit, start='D2000-01-01', stop='2003', dt='1.0'))
        out.append(S('fixed-mixed', unit=unit, start='D2000-01-01', stop='2000.2', dt='1.0'))
        out.append(S('fixed-mixed', unit=unit, start='D2000-03-01', stop='2000.1', dt='1.0'))
    return out


SIMS_FOR_MODS = [
    S('fixed-mod', unit='year', start='2000', stop='2010', dt='1.0'),
    S('fixed-mod', unit='year', start='2000', stop='2004.5', dt='0.5'),
    S('fixed-mod', unit='year', start='2000', stop='2010', dt='1'),
    S('fixed-mod', unit='year', start='0', dur='5', dt='0.25'),
    S('fixed-mod', unit='day', start='D2020-01-01', dur='60', dt='1.0'),
    S('fixed-mod', unit='week', start='D1999-12-01', dur='60', dt='2.0'),
    S('fixed-mod', unit='month', start='D2019-11-30', dur='24', dt='1.0'),
    S('fixed-mod', unit='year', start='D1999-07-01', stop='D2005-01-01', dt='0.5'),
    S('fixed-mod', unit='day', start='0', dur='400', dt='5.0'),
    S('fixed-mod', unit='day', start='2000', dur='400', dt='5.0'),
    S('fixed-mod', unit='unitless', start='0', dur='10', dt='1.0'),
    S('fixed-mod', unit='none', start='3', stop='9', dt='0.5'),
]


def single_overrides(sim):
    """ every module field overridden alone, and the pairs that go together, for one sim """
    unit = sim['unit']
    date = str(sim.get('start', '')).startswith('D')
    numeric_year = (not date) and unit in ('year', 'unitless', 'none')
    mods = [dict()]
    # unit alone
    for u in ('day', 'week', 'month', 'year'):
        if u != unit: mods.append(dict(unit=u))
    mods.append(dict(unit=unit))
    # dt alone (float and int)
    sdt = float(sim['dt'])
    for f in (2, 0.5, 3):
        mods.append(dict(dt=repr(float(sdt * f))))
    mods.append(dict(dt='2'))
    # start alone / stop alone / both
    if date:
        mods += [dict(start='D2020-01-15'), dict(stop='D2020-02-10'), dict(stop='D2031-01-01'), dict(start='D2020-01-08', stop='D2020-02-01'),
                 dict(start='D2040-01-01')]
        if sim['start'] < 'D2005': mods += [dict(start='D2000-02-28'), dict(stop='D2000-03-01'), dict(stop='D2000-12-31')]
    else:
        s0 = float(sim['start']);
        end = float(sim['stop']) if 'stop' in sim else s0 + float(sim['dur'])
        mid = repr(round((s0 + end) / 2, 3))
        mods += [dict(start=repr(s0 + sdt)), dict(start=repr(s0 + sdt / 2)), dict(stop=mid), dict(stop=repr(end + 3 * sdt)),
                 dict(start=repr(s0 + sdt), stop=mid), dict(start=repr(end + sdt / 2)), dict(start=repr(end + 2 * sdt)),
                 dict(start=str(int(s0) + 1)), dict(stop=str(int(end) - 1)),
                 dict(dt='2', start=repr(s0 + 0.5)), dict(dt='2', start=str(int(s0) + 1)), dict(dt='2.0', start=repr(s0 + 0.5))]
    # unit together with dt (own unit, own step), crossing leap years in year sims
    for u, dt in (('day', '30.0'), ('day', '1.0'), ('week', '1.0'), ('week', '2.5'), ('month', '1.0'), ('month', '1.5'), ('year', '0.25')):
        if u != unit: mods.append(dict(unit=u, dt=dt))
    # numeric start in another unit (the placement the code derives from raw numbers)
    if not date:
        for u in ('day', 'week'):
            if u != unit:
                mods.append(dict(unit=u, dt='1.0', start=repr(float(sim['start']) + 1.0), stop=repr(float(sim['start']) + 2.0)))
                mods.append(dict(unit=u, dt='1.0', start=sim['start'], stop=repr(float(sim['start']) + 2.0)))
                mods.append(dict(unit=u, dt='3', start=sim['start'], stop=repr(float(sim['start']) + 2.0)))
    if unit in ('unitless', 'none'):
        mods += [dict(unit='unitless'), dict(unit='none', dt='2.0')]
    else:
        mods.append(dict(unit='unitless'))
    return mods


def equal_count_mods(sim):
    """ modules whose timeline has AS MANY POINTS as the sim's but denotes OTHER instants (several fields overridden together so
        that the counts coincide): half the step over the second / the first half of the sim, twice the step over twice the
        span (ending after the sim), the same step shifted by half a step, another unit over as many of its own steps.
        Equal length must never be taken for equal timelines """
    from fractions import Fraction as F
    import datetime as dtm
    unit = sim['unit']
    date = str(sim.get('start', '')).startswith('D')
    sdt = F(sim['dt'])
    def fl(q): return repr(float(q))
    mods = []
    if not date:
        s0 = F(sim['start']); end = F(sim['stop']) if 'stop' in sim else s0 + F(sim['dur'])
        n = (end - s0) // sdt                # steps of the sim
        last = s0 + n * sdt
        mid = s0 + n * sdt / 2
        mods += [dict(start=fl(mid), stop=fl(last), dt=fl(sdt / 2)),
                 dict(start=fl(s0), stop=fl(mid), dt=fl(sdt / 2)),
                 dict(start=fl(s0), stop=fl(s0 + 2 * n * sdt), dt=fl(2 * sdt)),
                 dict(start=fl(s0 + sdt / 2), stop=fl(last + sdt / 2), dt=fl(sdt)),
                 ] + ([dict(start=fl(s0 - sdt), stop=fl(last - sdt))] if s0 - sdt >= 1 else [])
    else:
        y, m, d = (int(x) for x in sim['start'][1:].split('-'))
        d0 = dtm.date(y, m, d)
        if 'dur' in sim: n = F(sim['dur']) // sdt
        else: n = 11       # (the year-unit date sim of SIMS_FOR_MODS: 1999-07-01 .. 2005-01-01 by half years)
        iso = lambda k: 'D' + (d0 + dtm.timedelta(days=int(k))).isoformat()
        # another unit (or the same one) over exactly n of its own whole-day steps from the sim's start, and the same window
        # starting a few days later
        for u, w in (('day', 1), ('week', 7)):
            mods.append(dict(unit=u, dt='1.0', start=iso(0), stop=iso(n * w)))
            mods.append(dict(unit=u, dt='2.0', start=iso(3), stop=iso(3 + 2 * n * w)))
        if unit in ('day', 'week'):
            w = {'day': 1, 'week': 7}[unit]
            mods.append(dict(start=iso(sdt * w), stop=iso((n + 1) * sdt * w)))           # the sim's step, shifted by one step
            mods.append(dict(dt=fl(2 * sdt), stop=iso(2 * n * sdt * w)))                # twice the step over twice the span
    return mods


def fixed_mods():
    out = []
    kinds = ('sis', 'randomnet', 'births')
    i = 0
    for sim in SIMS_FOR_MODS:
        for mod in single_overrides(sim) + equal_count_mods(sim):
            kind = kinds[i % 3]; i += 1
            extra = [('sis',), ('randomnet',), ()][i % 3]
            out.append(dict(sim=dict(sim), mod=mod, modkind=kind, extra=list(extra)))
    # two instances of one class on different timelines in one sim
    out.append(dict(sim=S('fixed-mod', unit='year', start='2000', stop='2010', dt='1.0'), mod=dict(dt='2.0'), modkind='sis', extra=[],
                    mod2=dict(dt='0.5', start='2002.0')))
    out.append(dict(sim=S('fixed-mod', unit='day', start='D2020-01-01', dur='60', dt='1.0'), mod=dict(unit='week'), modkind='sis', extra=['randomnet'],
                    mod2=dict(dt='3.0', stop='D2020-02-01')))
    # a fractional dt whose constant whole-day step loses a point before the drift exceeds a day
    out.append(dict(sim=S('fixed-mod', unit='day', start='D1953-12-20', dur='5.0', dt='1.0'), mod=dict(dt='1.5'), modkind='randomnet', extra=[]))
    # a module crossing 31 Dec of a leap year day by day inside year-unit sims (numeric and calendar)
    out.append(dict(sim=S('fixed-mod', unit='year', start='2000', stop='2002', dt='1.0'), mod=dict(unit='day', dt='1.0'), modkind='sis', extra=[]))
    out.append(dict(sim=S('fixed-mod', unit='year', start='D2003-06-01', stop='D2005-03-01', dt='0.25'), mod=dict(unit='day', dt='1.0'), modkind='randomnet', extra=[]))
    out.append(dict(sim=S('fixed-mod', unit='year', start='2099', stop='2101', dt='0.5'), mod=dict(unit='week', dt='1.0'), modkind='sis', extra=[]))
    return out


def update_cases(rng, n):
    """ Time.update(pars, parent, force, **kwargs) on uninitialised Time objects: random presence of every argument """
    vals = dict(start=['2000', '2000.5', 'D2001-02-03', '0'], stop=['2010', '2010.25', 'D2011-02-03', '50'], dt=['1.0', '0.5', '2', '0.25'],
                unit=['year', 'day', 'week', 'y', 'unitless', 'month'])
    def tp(p):
        return {k: (rng.choice(vals[k]) if rng.random() < p else None) for k in ('start', 'stop', 'dt', 'unit')}
    out = []
    for _ in range(n):
        out.append(dict(force=rng.choice(['F', 'N', 'T']), self=tp(0.5), kw=tp(0.3), pars=tp(0.3),
                        parent=tp(0.7) if rng.random() < 0.75 else None))
    # fixed: the unit / dt interplay with a parent
    out.append(dict(force='N', self=dict(start='2000', stop=None, dt=None, unit=None), kw=tp(0), pars=tp(0), parent=dict(start='1990', stop='2010', dt='0.25', unit='year')))
    out.append(dict(force='T', self=dict(start='2000', stop=None, dt='0.5', unit=None), kw=tp(0), pars=tp(0), parent=dict(start='1990', stop='2010', dt='0.25', unit='year')))
    out.append(dict(force='N', self=dict(start='2000', stop=None, dt=None, unit='year'), kw=tp(0), pars=tp(0), parent=dict(start='1990', stop='2010', dt='0.25', unit='year')))
    out.append(dict(force='F', self=dict(start='2000', stop=None, dt='0.5', unit='day'), kw=dict(start='1', stop='7', dt=None, unit=None), pars=dict(start=None, stop=None, dt='3.0', unit='week'), parent=dict(start='1990', stop='2010', dt='0.25', unit='year')))
    return out
