"""
C14 — Contact networks reference only live agents and honour their rules.

correspond(): generated sims (every built-in network class under Deaths / Pregnancy / Births, duration and contact
              parameters, several dt) run with the network methods wrapped.  Every recorded operation
              (end_pairs, remove_uids, append, MaternalNet.step/end_pairs, add_pairs of every class) is replayed
              through Model/Network.lean from the OBSERVED pre-state; the model must predict the observed post-table
              (deterministic parts) or accept the observed new edges as a possible outcome of its `newPairs`
              (random parts).  At the transmission phase of every step an intervention probe sends the table and
              people.auids/alive/age/female to the model, which evaluates its invariants.  Plus direct API scenarios
              (end_pairs with dead-but-not-removed agents, append with a missing key).
search():     the invariants of the property evaluated directly on the real tables (no model).
"""
import numpy as np
from fractions import Fraction

PROP = 'C14'
GENERATED = ['NetworkFacts']
DRIVER = 'Drivers/C14.lean'
DRIVER_MODULES = ['StarsimModel.Model.Network', 'StarsimModel.Model.Proto']
RULE = ('sim configurations drawn from VERIF_SEED: 1-2 networks out of RandomNet / MFNet / MSMNet / EmbeddingNet / ErdosRenyiNet / '
        'DiskNet / StaticNet / NullNet / MaternalNet / PrenatalNet+PostnatalNet with duration and contact parameters, demographics out of '
        'Deaths / Pregnancy / Births, dt in {1, 1/2, 1/4, 1/12}; one case = one recorded network operation or one '
        'transmission-phase snapshot replayed through the model; distinct = distinct canonical line; non-trivial = the '
        'table involved is non-empty')
TRUSTED = ['NumPy boolean-mask indexing, np.isin, np.concatenate as used by networks.py',
           'the wrappers of harness/props/c14.py record the state a network method sees (people arrays are read, never written)']
ASSUMPTIONS = ['random choices (permutation, choice without replacement, linear_sum_assignment, Bernoulli edge masks, durations) are '
               'arbitrary values of the shape NumPy/SciPy guarantee; the model checks the shape of every observed choice']

KINDS = {'StaticNet': 'static', 'RandomNet': 'random', 'ErdosRenyiNet': 'erdos', 'DiskNet': 'disk', 'NullNet': 'null',
         'MFNet': 'mf', 'MSMNet': 'msm', 'EmbeddingNet': 'embedding', 'MaternalNet': 'maternal', 'PrenatalNet': 'maternal',
         'PostnatalNet': 'maternal'}
PARTNERSHIP = ('mf', 'msm', 'embedding')
COLS = ('p1', 'p2', 'beta', 'dur', 'acts', 'start', 'end')
LEANCOL = dict(p1='p1', p2='p2', beta='beta', dur='dur', acts='acts', start='start', end='stop')
KEYS = dict(randomplain=('p1', 'p2', 'beta', 'dur'), static=('p1', 'p2', 'beta'), disk=('p1', 'p2', 'beta'), null=('p1', 'p2', 'beta'),
            random=('p1', 'p2', 'beta', 'dur'), erdos=('p1', 'p2', 'beta', 'dur'),
            mf=('p1', 'p2', 'beta', 'dur', 'acts'), msm=('p1', 'p2', 'beta', 'dur', 'acts'),
            embedding=('p1', 'p2', 'beta', 'dur', 'acts'), maternal=('p1', 'p2', 'beta', 'dur', 'start', 'end'))


# ---------------------------------------------------------------------------
# configurations

def fixed_families(rng):
    """ Scenario families exercised on EVERY run (quantifier of the property: every class, births+deaths+pregnancy, all
        duration/contact parameters): networks on their own dt (finer and coarser than the sim's), constant-size churn
        (one agent dies and one joins every step), explicit-uid mixing pools, plain-number n_contacts, long histories. """
    seed = lambda: rng.randint(0, 9999)
    base = lambda **kw: dict(dict(n_agents=40, rand_seed=seed(), dt=1.0, start=2000, dur=8.0, demographics=[], disease='sis'), **kw)
    fam = []
    swap = [dict(type='swap', k=1)]
    fam.append(('disk-swap', base(networks=[dict(type='disk', r=0.25, v=0.1)], demographics=swap, dur=6.0)))
    fam.append(('erdos-swap', base(networks=[dict(type='erdos', p=0.08, dur=2.5)], demographics=swap, dur=6.0)))
    fam.append(('static-random-swap', base(networks=[dict(type='static', n_contacts=4), dict(type='random', n_contacts=4, dur=3.5)], demographics=swap, dur=6.0)))
    fam.append(('random-own-dt-finer', base(networks=[dict(type='random', n_contacts=4, dur=1.3, net_dt=0.5)], demographics=[dict(type='deaths', death_rate=80)], dur=5.0)))
    fam.append(('random-own-dt-coarser', base(dt=0.5, networks=[dict(type='random', n_contacts=2, dur=2.5, net_dt=1.0)], dur=5.0)))
    fam.append(('mf-own-dt-finer', base(networks=[dict(type='mf', duration=1.7, debut=16, participation=0.9, net_dt=0.25)], demographics=[dict(type='deaths', death_rate=80)], dur=4.0)))
    fam.append(('erdos-own-dt-finer', base(networks=[dict(type='erdos', p=0.05, dur=0.8, net_dt=0.25)], dur=3.0)))
    fam.append(('msm-embedding-long', base(n_agents=60, dt=0.25, networks=[dict(type='msm', duration=0.6, debut=16, participation=1.0), dict(type='embedding', duration=0.9, debut=16, participation=0.9)],
                                           demographics=[dict(type='deaths', death_rate=120)], dur=5.0)))
    fam.append(('pool-explicit', base(networks=[dict(type='pool', src=list(range(0, 12)), dst=list(range(8, 30)))], demographics=[dict(type='deaths', death_rate=250)], dur=6.0)))
    fam.append(('pools-explicit', base(networks=[dict(type='pools', groups=[list(range(0, 15)), list(range(15, 40))]), dict(type='random', n_contacts=2, dur=0)],
                                       demographics=[dict(type='deaths', death_rate=250)], dur=6.0)))
    fam.append(('random-plain-contacts', base(networks=[dict(type='random', n_contacts=4, dur=0, plain=True)],
                                              demographics=[dict(type='pregnancy', fertility_rate=600, p_maternal_death=0, p_neonatal_death=0, burnin=True, dur_postpartum=0.3),
                                                            dict(type='deaths', death_rate=250)], dur=5.0)))
    # stated durations (number / constant distribution / random distribution) under timesteps on both sides of 1: the lifetime
    # of an edge is ceil(D / dt) updates of its network, D being what the configuration states, in the network's unit
    fam.append(('random-dur-quarterly', base(dt=0.25, networks=[dict(type='random', n_contacts=2, dur=1.0)], dur=2.5)))
    fam.append(('random-dur-coarse', base(dt=2.0, networks=[dict(type='random', n_contacts=2, dur=5.0), dict(type='erdos', p=0.05, dur=('const', 3.0))],
                                          demographics=[dict(type='deaths', death_rate=40)], dur=12.0)))
    fam.append(('random-dur-dist-monthly', base(dt=1 / 12, networks=[dict(type='random', n_contacts=2, dur=('const', 0.2)),
                                                                      dict(type='erdos', p=0.04, dur=('lognorm', 0.3, 0.1))], dur=0.75)))
    fam.append(('random-dur-timepar', base(dt=0.5, networks=[dict(type='random', n_contacts=2, dur=('years', 1.5)), dict(type='erdos', p=0.05, dur=('years', 1.0))], dur=5.0)))
    fam.append(('maternal-deaths', base(n_agents=80, dt=0.25, networks=[dict(type='prenatal'), dict(type='postnatal'), dict(type='random', n_contacts=2, dur=0.6)],
                                        demographics=[dict(type='pregnancy', fertility_rate=500, p_maternal_death=0.2, p_neonatal_death=0.3, burnin=True, dur_postpartum=0.6),
                                                      dict(type='deaths', death_rate=120)], dur=3.0)))
    return fam


def gen_cfg(rng, force_net=None, thorough=False):
    dt = rng.choice([1.0, 0.5, 0.25, 1 / 12])
    n_agents = rng.choice([30, 50, 80] if not thorough else [50, 120, 200])
    nsteps = rng.randint(4, 8 if not thorough else 14)
    cfg = dict(n_agents=n_agents, rand_seed=rng.randint(0, 9999), dt=dt, start=2000, dur=round(dt * nsteps, 9))
    pool = ['random', 'mf', 'msm', 'embedding', 'erdos', 'disk', 'static', 'null', 'maternal', 'prepost']
    names = [force_net] if force_net else rng.sample(pool, rng.choice([1, 1, 2]))
    if 'maternal' in names and 'prepost' in names:
        names.remove('maternal')   # starsim accepts only one prenatal layer
    nets = []
    for nm in names:
        if nm == 'random':
            dur = rng.choice([0, 0, dt, 2.5 * dt, 4 * dt, ('lognorm', 3 * dt, dt)])
            nets.append(dict(type='random', n_contacts=rng.choice([2, 4, 6, 3, 5, ('poisson', 3)]), dur=dur))
        elif nm in ('mf', 'msm', 'embedding'):
            nets.append(dict(type=nm, duration=rng.choice([0.6 * dt, 2 * dt, 5 * dt, 12 * dt]), debut=rng.choice([0, 16, 25]),
                             participation=rng.choice([0.5, 0.9, 1.0])))
        elif nm == 'erdos':
            nets.append(dict(type='erdos', p=rng.choice([0.03, 0.08]), dur=rng.choice([0, 0, 1.5 * dt, 3 * dt])))
        elif nm == 'disk':
            nets.append(dict(type='disk', r=rng.choice([0.1, 0.2]), v=rng.choice([0.05, 0.3])))
        elif nm == 'static':
            nets.append(dict(type='static', n_contacts=rng.choice([2, 4])))
        elif nm == 'null':
            nets.append(dict(type='null'))
        elif nm == 'maternal':
            nets.append(dict(type='maternal'))
        elif nm == 'prepost':
            nets.append(dict(type='prenatal')); nets.append(dict(type='postnatal'))
    for n in nets:   # a third of the dynamic networks run on their own, finer or coarser, timestep
        if n['type'] in ('random', 'erdos', 'mf', 'msm', 'embedding') and rng.random() < 0.35:
            n['net_dt'] = dt * rng.choice([0.5, 0.25, 2.0])
    cfg['networks'] = nets
    need_preg = any(n['type'] in ('maternal', 'prenatal', 'postnatal') for n in nets)
    dem = []
    if rng.random() < 0.8:
        dem.append(dict(type='deaths', death_rate=rng.choice([30, 80, 200])))
    if need_preg or rng.random() < 0.45:
        dem.append(dict(type='pregnancy', fertility_rate=rng.choice([80, 200, 400]), p_maternal_death=rng.choice([0, 0, 0.2]),
                        p_neonatal_death=rng.choice([0, 0, 0.3]), burnin=rng.random() < 0.6,
                        dur_postpartum=rng.choice([0.3, 0.6])))
    elif rng.random() < 0.3:
        dem.append(dict(type='births', birth_rate=rng.choice([30, 90])))
    if rng.random() < 0.25:
        dem.append(dict(type='swap', k=rng.choice([1, 2])))
    cfg['demographics'] = dem
    cfg['disease'] = rng.choice(['sis', 'sir_death', 'sir_death'])
    return cfg


def make_swap(k):
    """ A demographics module that keeps the population size constant while changing its membership: every step it asks
        `k` living agents to die (carried out and removed at the end of the step) and adds `k` new ones. """
    import starsim as ss

    class Swap(ss.Demographics):
        def __init__(self, k=1):
            super().__init__()
            self.k = k
            self.pick = ss.random(name='swap_pick')

        def step(self):
            ppl = self.sim.people
            au = ppl.auids[ppl.alive[ppl.auids]] if hasattr(ppl.alive, '__getitem__') else ppl.auids
            r = self.pick.rvs(au)
            victims = au[np.argsort(r)[:self.k]]
            ppl.request_death(ss.uids(victims))
            new = ppl.grow(self.k)
            ppl.age[new] = 5.0
            return new
    return Swap(k)


def dur_par(d):
    """ the `dur` parameter of a RandomNet / ErdosRenyiNet from its JSON form: a number, ('lognorm', mean, std) or ('const', v) """
    import starsim as ss
    if isinstance(d, (tuple, list)):
        if d[0] == 'years': return ss.years(d[1])   # a time parameter: D years, whatever the timestep
        return ss.constant(d[1]) if d[0] == 'const' else ss.lognorm_ex(mean=d[1], std=d[2])
    return d


def stated_of(ncfg):
    """ What the CONFIGURATION states about the duration of the edges of a network: ('plain', D) — every edge lasts D, in the
        network's time unit (a number, or a constant distribution) —, ('drawn', None) — one draw of the duration distribution
        per new edge —, or None for a network without a duration parameter. """
    t = ncfg['type']
    if t in ('random', 'erdos'):
        d = ncfg['dur']
        if isinstance(d, (tuple, list)):
            return ('plain', float(d[1])) if d[0] in ('const', 'years') else ('drawn', None)   # networks run in years here
        return ('plain', float(d))
    if t in ('mf', 'msm', 'embedding'):
        return ('drawn', None)
    return None


def build_sim(cfg, probe=None):
    import starsim as ss
    nets = []
    for n in cfg['networks']:
        t = n['type']
        own = dict(dt=n['net_dt']) if n.get('net_dt') else {}
        if t == 'random':
            nc = n['n_contacts']; nc = ss.poisson(lam=nc[1]) if isinstance(nc, (tuple, list)) else nc
            net = ss.RandomNet(n_contacts=nc, dur=dur_par(n['dur']), **own)
            if n.get('plain'):
                net.pars['n_contacts'] = n['n_contacts']   # a plain number stored on the parameter object itself
            nets.append(net)
        elif t in ('mf', 'msm', 'embedding'):
            cls = dict(mf=ss.MFNet, msm=ss.MSMNet, embedding=ss.EmbeddingNet)[t]
            nets.append(cls(duration=ss.lognorm_ex(mean=n['duration'], std=0.5 * n['duration']),
                            debut=ss.normal(loc=n['debut'], scale=2), participation=ss.bernoulli(p=n['participation']), **own))
        elif t == 'erdos':
            nets.append(ss.ErdosRenyiNet(p=n['p'], dur=dur_par(n['dur']), **own))
        elif t == 'pool':
            nets.append(ss.MixingPool(src=ss.uids(n['src']), dst=ss.uids(n['dst']), beta=ss.beta(0.1)))
        elif t == 'pools':
            g = {f'g{i}': ss.uids(u) for i, u in enumerate(n['groups'])}
            nets.append(ss.MixingPools(src=dict(g), dst=dict(g), beta=ss.beta(0.1)))
        elif t == 'disk':
            nets.append(ss.DiskNet(r=n['r'], v=n['v']))
        elif t == 'static':
            nets.append(ss.StaticNet(n_contacts=n['n_contacts']))
        elif t == 'null':
            nets.append(ss.NullNet())
        elif t == 'maternal':
            nets.append(ss.MaternalNet())
        elif t == 'prenatal':
            nets.append(ss.PrenatalNet())
        elif t == 'postnatal':
            nets.append(ss.PostnatalNet())
    dem = []
    for d in cfg['demographics']:
        if d['type'] == 'deaths':
            dem.append(ss.Deaths(death_rate=d['death_rate']))
        elif d['type'] == 'births':
            dem.append(ss.Births(birth_rate=d['birth_rate']))
        elif d['type'] == 'swap':
            dem.append(make_swap(d['k']))
        elif d['type'] == 'pregnancy':
            kw = dict(fertility_rate=d['fertility_rate'], burnin=d['burnin'])
            if d.get('p_maternal_death'): kw['p_maternal_death'] = ss.bernoulli(d['p_maternal_death'])
            if d.get('p_neonatal_death'): kw['p_neonatal_death'] = ss.bernoulli(d['p_neonatal_death'])
            if d.get('dur_postpartum'): kw['dur_postpartum'] = ss.lognorm_ex(mean=ss.years(d['dur_postpartum']), std=ss.years(0.2))
            dem.append(ss.Pregnancy(**kw))
    dis = ss.SIS(beta=0.1, init_prev=0.1) if cfg['disease'] == 'sis' else ss.SIR(beta=0.2, init_prev=0.3, p_death=0.5, dur_inf=cfg['dt'] * 2)
    pars = dict(n_agents=cfg['n_agents'], rand_seed=cfg['rand_seed'], dt=cfg['dt'], start=cfg['start'], dur=cfg['dur'],
                networks=nets, diseases=[dis], verbose=0)
    if dem: pars['demographics'] = dem
    if probe is not None: pars['interventions'] = [probe]
    return ss.Sim(**pars)


# ---------------------------------------------------------------------------
# recording

def net_dt_of(net):
    try:
        return float(net.t.dt)
    except Exception:
        return None


def table_of(net):
    return {k: np.array(v).copy() for k, v in net.edges.items()}


def people_of(sim):
    ppl = sim.people
    n = int(ppl.uid.len_used)
    au = np.asarray(ppl.auids).astype(int)
    return dict(n=n, auids=au.copy(), alive=np.flatnonzero(np.asarray(ppl.alive.raw[:n])).astype(int),
                female=np.flatnonzero(np.asarray(ppl.female.raw[:n])).astype(int),
                age=np.asarray(ppl.age.raw[au]).astype(float).copy())


def netstate_of(net, ppl_snap):
    out = {}
    au = ppl_snap['auids']
    if hasattr(net, 'debut') and hasattr(net.debut, 'raw'):
        n = ppl_snap['n']
        out['part'] = np.flatnonzero(np.asarray(net.participant.raw[:n])).astype(int)
        out['debut'] = np.asarray(net.debut.raw[au]).astype(float).copy()
    return out


def make_probe():
    import starsim as ss

    class Probe(ss.Intervention):
        def __init__(self):
            super().__init__()
            self.snaps = []

        def step(self):
            sim = self.sim
            ps = people_of(sim)
            for name, net in sim.networks.items():
                if isinstance(net, ss.Network):
                    snap = dict(op='snap', ti=int(sim.ti), nti=int(net.ti), net=name, cls=type(net).__name__, table=table_of(net), people=ps,
                                netstate=netstate_of(net, ps))
                elif isinstance(net, (ss.MixingPool, ss.MixingPools)):
                    snap = dict(op='snap', ti=int(sim.ti), net=name, cls=type(net).__name__, groups=pool_groups(net), people=ps)
                else:
                    continue
                self.snaps.append(snap)
                if _ACTIVE: _ACTIVE[-1].events.append(snap)
    return Probe()


_ACTIVE = []   # the Recorder currently installed (the probe writes its snapshots into the same ordered event list)


def pool_groups(route):
    """ explicit-uid groups of a MixingPool / MixingPools: {label: [uids]} """
    import starsim as ss
    pools = route.pools if isinstance(route, ss.MixingPools) else [route]
    out = {}
    for i, mp in enumerate(pools):
        for key in ('src', 'dst'):
            g = mp.pars[key]
            if isinstance(g, ss.uids):
                out[f'{mp.name}#{i}.{key}'] = [int(u) for u in g]
    return out


class Recorder:
    """ Wrap the network methods (class level, restored on exit) and record what each call saw and did """

    def __init__(self):
        self.events = []
        self.depth = 0

    def __enter__(self):
        import starsim as ss
        N = ss.networks
        rec = self
        self.saved = []
        _ACTIVE.append(self)

        def patch(cls, name, wrapper):
            orig = cls.__dict__[name]
            self.saved.append((cls, name, orig))
            setattr(cls, name, wrapper(orig))

        def sim_of(net):
            return getattr(net, 'sim', None)

        def w_append(orig):
            def f(self, edges=None, **kw):
                sim = sim_of(self)
                pre = table_of(self)
                try:
                    ps = people_of(sim)
                except Exception:
                    ps = None   # appended before the population exists (NullNet.init_pre)
                ns = netstate_of(self, ps) if ps is not None else {}
                err = None
                try:
                    return orig(self, edges, **kw)
                except KeyError as e:
                    err = 'E:KeyMissing'; raise
                finally:
                    import sciris as sc
                    new = sc.mergedicts(edges, kw)
                    rec.events.append(dict(op='append', net=self.name, cls=type(self).__name__, pre=pre, people=ps, netstate=ns,
                                           new={k: np.array(v).copy() for k, v in new.items()}, post=table_of(self), err=err,
                                           ti=getattr(getattr(sim, 't', None), 'ti', None) if sim is not None else None,
                                           dt=net_dt_of(self)))
            return f

        def w_end(kind):
            def w(orig):
                def f(self):
                    sim = sim_of(self)
                    pre = table_of(self); ps = people_of(sim)
                    out = orig(self)
                    rec.events.append(dict(op=kind, net=self.name, cls=type(self).__name__, pre=pre, people=ps, post=table_of(self),
                                           dt=float(self.t.dt), ti=int(self.ti)))
                    return out
                return f
            return w

        def w_rm(orig):
            def f(self, uids):
                pre = table_of(self)
                out = orig(self, uids)
                rec.events.append(dict(op='rm', net=self.name, cls=type(self).__name__, pre=pre, uids=np.asarray(uids).astype(int).copy(),
                                       post=table_of(self)))
                return out
            return f

        def w_matstep(orig):
            def f(self):
                pre = table_of(self)
                out = orig(self)
                rec.events.append(dict(op='matstep', net=self.name, cls=type(self).__name__, pre=pre, post=table_of(self), ti=int(self.ti)))
                return out
            return f

        def w_disk(orig):
            def f(self):
                sim = sim_of(self)
                pre = table_of(self); ps = people_of(sim)
                out = orig(self)
                n = ps['n']
                rec.events.append(dict(op='diskadd', net=self.name, cls=type(self).__name__, pre=pre, people=ps, netstate={}, post=table_of(self),
                                       x=np.asarray(self.x.raw[:n], dtype=float).copy(), y=np.asarray(self.y.raw[:n], dtype=float).copy(), r=float(self.pars.r)))
                return out
            return f

        def w_poolrm(orig):
            def f(self, uids):
                pre = pool_groups(self)
                out = orig(self, uids)
                rec.events.append(dict(op='poolrm', net=self.name, cls=type(self).__name__, pre=pre, uids=np.asarray(uids).astype(int).copy(),
                                       post=pool_groups(self)))
                return out
            return f

        def w_rvs(orig):
            def f(self, *a, **kw):
                out = orig(self, *a, **kw)
                try:
                    nets = list(self.sim.networks.values()) if getattr(self, 'sim', None) is not None and self.initialized else []
                except Exception:
                    nets = []
                for net in nets:
                    pars = getattr(net, 'pars', None)
                    if pars is None: continue
                    for key in ('dur', 'duration'):
                        if key in pars and pars[key] is self:
                            rec.events.append(dict(op='durdraw', net=net.name, cls=type(net).__name__, par=key,
                                                   values=np.array(out, dtype=float).ravel().copy()))
                return out
            return f

        def w_matadd(orig):
            def f(self, mother_inds=None, unborn_inds=None, dur=None, start=None):
                pre = table_of(self)
                out = orig(self, mother_inds, unborn_inds, dur, start)
                if mother_inds is not None:
                    rec.events.append(dict(op='matadd', net=self.name, cls=type(self).__name__, pre=pre, post=table_of(self), ti=int(self.ti),
                                           mothers=np.asarray(mother_inds).astype(int).copy(), unborn=np.asarray(unborn_inds).astype(int).copy(),
                                           durs=np.array(dur, dtype=float).ravel().copy(),
                                           starts=None if start is None else np.array(start, dtype=float).ravel().copy()))
                return out
            return f

        patch(ss.Dist, 'rvs', w_rvs)
        patch(N.MaternalNet, 'add_pairs', w_matadd)
        patch(N.Network, 'append', w_append)
        patch(N.DynamicNetwork, 'end_pairs', w_end('end'))
        patch(N.MaternalNet, 'end_pairs', w_end('matend'))
        patch(N.Network, 'remove_uids', w_rm)
        patch(N.MaternalNet, 'step', w_matstep)
        patch(N.DiskNet, 'add_pairs', w_disk)
        patch(N.MixingPool, 'remove_uids', w_poolrm)
        return self

    def __exit__(self, *a):
        for cls, name, orig in reversed(self.saved):
            setattr(cls, name, orig)
        if self in _ACTIVE: _ACTIVE.remove(self)


def run_recorded(cfg):
    probe = make_probe()
    with Recorder() as rec:
        sim = build_sim(cfg, probe)
        sim.init()
        sim.run()
    plain = set(net.name for net, n in zip(sim.networks.values(), cfg['networks']) if n.get('plain')) if len(sim.networks) == len(cfg['networks']) else set()
    for ev in rec.events:
        if ev.get('net') in plain: ev['plain'] = True
    attach_stated(sim, cfg, rec.events)
    return sim, rec.events, sim.interventions[0].snaps


def stated_of_impl(ncfg):
    """ `stated_of` for a network entry in harness/impl.py format (the scenario zoo): RandomNet `dur` is a plain number in the
        network's unit, ErdosRenyiNet is built with its default `dur = 0`, the partnership classes draw from a lognormal """
    t = ncfg['type']
    if t == 'random': return ('plain', float(ncfg.get('dur', 0)))
    if t == 'erdosrenyi': return ('plain', 0.0)
    if t in ('mf', 'msm', 'embedding'): return ('drawn', None)
    return None


def attach_stated(sim, cfg, events, stated_fn=None):
    """ For every `append` of a duration-carrying network: the `dur` column the configuration STATES for the new edges
        (`stated_col`), derived from the user's configuration (plain number / constant) or from the draws of the network's
        duration distribution recorded since the network's previous append — never from the appended column itself. """
    if len(sim.networks) != len(cfg['networks']): return
    stated = {net.name: (stated_fn or stated_of)(n) for net, n in zip(sim.networks.values(), cfg['networks'])}
    last_draw = {}
    for ev in events:
        if ev['op'] == 'durdraw':
            last_draw[ev['net']] = ev['values']
        elif ev['op'] == 'append' and not ev['err'] and stated.get(ev['net']) is not None and 'p1' in ev['new']:
            how, val = stated[ev['net']]
            n = len(ev['new']['p1'])
            ev['stated'] = how
            if how == 'plain':
                ncfg = cfg['networks'][list(stated).index(ev['net'])]
                ev['stated_timepar'] = isinstance(ncfg.get('dur'), (tuple, list)) and ncfg['dur'][0] == 'years'
                ev['stated_val'] = val
                ev['stated_col'] = np.full(n, val, dtype=float)
            else:
                ev['stated_col'] = last_draw.pop(ev['net'], None)   # None: no draw of the duration parameter preceded this append


def run_recorded_impl(cfg):
    """ `run_recorded` for a configuration in harness/impl.py format (the shared scenario zoo): same recorder, same probe
        (appended after the configuration's own interventions, i.e. it still sees the networks as transmission will) """
    from harness import impl
    with Recorder() as rec:
        sim = impl.build_sim(cfg, extra_interventions=[make_probe()])
        sim.init()
        sim.run()
    attach_stated(sim, cfg, rec.events, stated_of_impl)
    probe = [iv for iv in sim.interventions.values() if type(iv).__name__ == 'Probe'][0]
    return sim, rec.events, probe.snaps


# ---------------------------------------------------------------------------
# protocol

def frac(x):
    x = float(x)
    if x != x or x in (float('inf'), float('-inf')):
        raise ValueError('non-finite value in an edge table')
    p, q = x.as_integer_ratio()
    return f'{p}/{q}' if q != 1 else str(p)


def lst(xs, f=str):
    xs = list(xs)
    return ','.join(f(x) for x in xs) if xs else '-'


def table_kv(tab, kind, prefix=''):
    out = []
    for k in KEYS[kind]:
        if k in tab:
            v = tab[k]
            out.append(f"{prefix}{LEANCOL[k]}=" + (lst(np.asarray(v).astype(int)) if k in ('p1', 'p2') else lst(v, frac)))
    return out


def people_kv(ps, ns=None):
    out = [f"n={ps['n']}", 'auids=' + lst(ps['auids']), 'alive=' + lst(ps['alive']), 'female=' + lst(ps['female']),
           'age=' + lst(ps['age'], frac)]
    if ns and 'part' in ns:
        out += ['part=' + lst(ns['part']), 'debut=' + lst(ns['debut'], frac)]
    return out


def parse_table(line):
    parts = line.split()
    out = {}
    for p in parts[1:]:
        k, v = p.split('=', 1)
        out[k] = [] if v == '-' else v.split(',')
    return out


def col_equal(model_vals, obs, is_uid, tol=0.0):
    obs = list(np.asarray(obs).tolist())
    if len(model_vals) != len(obs):
        return False
    for m, o in zip(model_vals, obs):
        if is_uid:
            if int(m) != int(o): return False
        else:
            fm = Fraction(m)
            fo = Fraction(float(o))
            if fm != fo and abs(fm - fo) > tol * (1 + abs(fo)):
                return False
    return True


def compare_table(model_line, obs_tab, kind, tol_dur=0.0, tol_end=0.0):
    """ None if equal, else a description """
    if not model_line.startswith('ok '):
        return f'model answered {model_line!r}'
    m = parse_table(model_line)
    for k in KEYS[kind]:
        if k not in obs_tab:
            return f'observed table lacks column {k}'
        if not col_equal(m.get(LEANCOL[k], []), obs_tab[k], k in ('p1', 'p2'), tol_dur if k == 'dur' else tol_end if k == 'end' else 0.0):
            return f'column {k}: model {m.get(LEANCOL[k])[:8]}… vs observed {list(np.asarray(obs_tab[k]).tolist())[:8]}… (lengths {len(m.get(LEANCOL[k], []))}/{len(obs_tab[k])})'
    return None


def kind_of(ev):
    k = KINDS.get(ev['cls'])
    if k == 'random' and ev.get('plain'): return 'randomplain'
    return k


def event_lines(ev, variant_of):
    """ protocol line(s) for one recorded event -> list of (line, checker(model_line) -> None | str) """
    if ev['op'] == 'poolrm':
        return pool_lines(ev)
    if ev['op'] == 'snap':
        return []
    kind = KINDS.get(ev['cls'])
    if kind is None:
        return []
    akind = kind_of(ev)
    out = []
    op = ev['op']
    if op == 'end':
        line = ' '.join(['end', f'kind={kind}', f"dt={frac(ev['dt'])}", 'alive=' + lst(ev['people']['alive'])] + table_kv(ev['pre'], kind))
        durs = np.asarray(ev['pre'].get('dur', []), dtype=float) - ev['dt']
        dontcare = bool(len(durs)) and bool(np.any(np.abs(durs) < 1e-9))
        out.append((line, (lambda ml, ev=ev, kind=kind: compare_table(ml, ev['post'], kind, 1e-12)) if not dontcare else 'dontcare'))
    elif op == 'matend':
        line = ' '.join(['matend', f'kind={kind}', f"ti={ev['ti']}", 'alive=' + lst(ev['people']['alive'])] + table_kv(ev['pre'], kind))
        out.append((line, lambda ml, ev=ev, kind=kind: compare_table(ml, ev['post'], kind)))
    elif op == 'matstep':
        line = ' '.join(['matstep', f'kind={kind}', f"ti={ev['ti']}"] + table_kv(ev['pre'], kind))
        out.append((line, lambda ml, ev=ev, kind=kind: compare_table(ml, ev['post'], kind)))
    elif op == 'rm':
        line = ' '.join(['rm', f'kind={kind}', 'uids=' + lst(ev['uids'])] + table_kv(ev['pre'], kind))
        out.append((line, lambda ml, ev=ev, kind=kind: compare_table(ml, ev['post'], kind)))
    elif op == 'append':
        new = {k: v for k, v in ev['new'].items() if k in COLS}
        line = ' '.join(['append', f'kind={kind}'] + table_kv(ev['pre'], kind) + table_kv_any(new, 'n_'))
        def chk(ml, ev=ev, kind=kind):
            if ev['err']:
                return None if ml == ev['err'] else f"code raised {ev['err']}, model answered {ml}"
            d = compare_table(ml, ev['post'], kind)
            if d: return d
            if ' wf=1' not in ml: return 'append produced columns of unequal length (model wf=0)'
            return None
        out.append((line, chk))
        if kind in ('random', 'erdos', 'mf', 'msm', 'embedding') and ev['people'] is not None and not ev['err']:
            out.append(accept_line(ev, akind, new.get('p1', []), new.get('p2', []), new.get('dur', []), new.get('acts', []), variant_of))
            if 'stated' in ev:
                out.append(addstated_line(ev, akind, new, variant_of))
    elif op == 'matadd':
        line = ' '.join(['matadd', f'kind={kind}', f"ti={ev['ti']}", 'mothers=' + lst(ev['mothers']), 'unborn=' + lst(ev['unborn']),
                         'durs=' + lst(ev['durs'], frac)] + (['starts=' + lst(ev['starts'], frac)] if ev['starts'] is not None else []) +
                        table_kv(ev['pre'], kind))
        def chk(ml, ev=ev, kind=kind):
            d = compare_table(ml, ev['post'], kind, tol_end=1e-15)   # end = start + dur: exact in the model, one float64 addition in the code
            if d: return d
            return None if ' wf=1' in ml else 'MaternalNet.add_pairs produced columns of unequal length (model wf=0)'
        out.append((line, chk))
    elif op == 'diskadd':
        out.append(accept_line(ev, kind, ev['post']['p1'], ev['post']['p2'], [], [], variant_of))
    return out


def pool_lines(ev):
    out = []
    for key, members in ev['pre'].items():
        line = ' '.join(['poolrm', 'kind=null', 'uids=' + lst(ev['uids']), 'a=' + lst(members)])
        def chk(ml, key=key, ev=ev):
            exp = ev['post'].get(key)
            got = [] if ml in ('ok -', 'ok') else [int(x) for x in ml.split()[1].split(',')]
            return None if (ml.startswith('ok') and got == list(exp)) else f'MixingPool group {key}: model {ml[:100]} vs observed {exp}'
        out.append((line, chk))
    return out


def table_kv_any(tab, prefix):
    out = []
    for k in COLS:
        if k in tab:
            v = tab[k]
            out.append(f"{prefix}{LEANCOL[k]}=" + (lst(np.asarray(v).astype(int)) if k in ('p1', 'p2') else lst(np.asarray(v, dtype=float), frac)))
    return out


def accept_line(ev, kind, a, b, durs, acts, variant_of):
    variant = variant_of(kind)
    line = ' '.join(['accept', f'kind={kind}', f'variant={variant}'] + people_kv(ev['people'], ev['netstate']) +
                    ['p1=' + lst(np.asarray(ev['pre']['p1']).astype(int)), 'p2=' + lst(np.asarray(ev['pre']['p2']).astype(int)),
                     'a=' + lst(np.asarray(a).astype(int)), 'b=' + lst(np.asarray(b).astype(int))])
    def chk(ml, kind=kind, variant=variant):
        if ml.startswith('ok accept=1'):
            return None
        return f'{kind} ({variant}): the observed new edges are not a possible outcome of the model\'s add_pairs: {ml[:200]}'
    return (line, chk)


def addstated_line(ev, kind, new, variant_of):
    """ the whole add_pairs through the model: observed pre-table and people, the observed endpoints as the random choice, and
        the durations the CONFIGURATION states (number, or the recorded draws of the duration distribution); the model must
        produce the observed post-table, dur column included """
    variant = variant_of(kind)
    if ev['stated'] == 'plain' and ev.get('stated_timepar'):
        dur = ['durpar=timepar', 'dval=' + frac(ev['stated_val']), 'dt=' + frac(ev['dt'])]   # value of a time parameter = D / dt timesteps
    elif ev['stated'] == 'plain':
        dur = ['durpar=plain', 'dval=' + frac(ev['stated_val'])]
    else:
        dur = ['durpar=drawn', 'draws=' + (lst(ev['stated_col'], frac) if ev['stated_col'] is not None else '-')]
    line = ' '.join(['addstated', f'kind={kind}', f'variant={variant}'] + people_kv(ev['people'], ev['netstate']) + table_kv(ev['pre'], kind) +
                    ['a=' + lst(np.asarray(new.get('p1', [])).astype(int)), 'b=' + lst(np.asarray(new.get('p2', [])).astype(int)),
                     'actsl=' + lst(np.asarray(new.get('acts', []), dtype=float), frac)] + dur)
    def chk(ml, ev=ev, kind=kind):
        if ev['stated'] == 'drawn' and ev['stated_col'] is None and len(new.get('p1', [])):
            return 'no draw of the duration distribution preceded this add_pairs'
        d = compare_table(ml, ev['post'], kind)
        return f'add_pairs with the stated durations: {d}' if d else None
    return (line, chk)


def snap_line(s):
    kind = KINDS.get(s['cls'])
    if kind is None: return None
    return ' '.join(['check', f'kind={kind}'] + people_kv(s['people']) + table_kv_ragged(s['table'], kind))


def table_kv_ragged(tab, kind):
    return table_kv(tab, kind)


# ---------------------------------------------------------------------------
# the oracle (real code only)

def oracle_snapshot(s, removed_ever):
    """ invariants on one transmission-phase snapshot -> list of (signature, what) """
    fails = []
    cls = s['cls']
    if 'groups' in s:   # a Route that is not a Network (MixingPool / MixingPools): explicit-uid groups must be active agents
        au = set(int(u) for u in s['people']['auids'])
        for key, members in s['groups'].items():
            gone = sorted(set(members) - au)
            if gone:
                fails.append((dict(oracle='pool-members-active', network=cls),
                              f"{cls} at ti={s['ti']}: group {key} still lists removed agent(s) {gone[:5]}"))
        return fails
    kind = KINDS.get(cls); tab = s['table']
    if kind is None: return fails
    n = len(tab['p1'])
    for k in KEYS[kind]:
        if k not in tab or len(tab[k]) != n:
            fails.append((dict(oracle='columns-equal-length', network=cls),
                          f"{cls} at ti={s['ti']}: column {k} has length {len(tab.get(k, []))}, p1 has {n}"))
    au = set(int(u) for u in s['people']['auids'])
    alive = set(int(u) for u in s['people']['alive'])
    ends = [int(u) for u in tab['p1']] + [int(u) for u in tab['p2']]
    bad = sorted(set(u for u in ends if u not in au))
    if bad:
        fails.append((dict(oracle='endpoints-active', network=cls, _agents=bad),
                      f"{cls} at ti={s['ti']} (transmission phase): {len(bad)} edge endpoint(s) are not active agents, e.g. uid {bad[:5]} (auids has {len(au)} agents)"))
    dead = sorted(set(u for u in ends if u in au and u not in alive))
    if dead:
        fails.append((dict(oracle='endpoints-alive', network=cls), f"{cls} at ti={s['ti']}: endpoint(s) {dead[:5]} are active but not alive"))
    if kind == 'maternal' and all(k in tab and len(tab[k]) == n for k in ('beta', 'dur', 'start', 'end')):
        # a maternal edge states its window [start, start + dur): it transmits (beta 1) until the network's step reaches its end
        nti = s.get('nti', s['ti'])
        for i in range(n):
            st, d, e, b = float(tab['start'][i]), float(tab['dur'][i]), float(tab['end'][i]), float(tab['beta'][i])
            if e != st + d:
                fails.append((dict(oracle='maternal-window', network=cls), f"{cls} at ti={s['ti']}: edge {i} has start={st}, dur={d} but end={e}")); break
            if (b != 0) != (e > nti):
                fails.append((dict(oracle='maternal-window', network=cls),
                              f"{cls} at ti={s['ti']} (network ti={nti}): edge {i} ({int(tab['p1'][i])}->{int(tab['p2'][i])}) with window [{st}, {e}) has beta={b}")); break
    if kind in PARTNERSHIP and len(set(ends)) != len(ends):
        dup = sorted(u for u in set(ends) if ends.count(u) > 1)
        fails.append((dict(oracle='monogamy', network=cls), f"{cls} at ti={s['ti']}: agent(s) {dup[:5]} are in two concurrent edges"))
    return fails


def oracle_events(events, snaps, cfg):
    """ property-level checks on the recorded history of the real code """
    fails = []
    # (a) removed agents vanish: after remove_uids no edge touches them
    for ev in events:
        cls = ev['cls']
        if ev['op'] == 'poolrm':
            gone = set(int(u) for u in ev['uids'])
            for key, members in ev['post'].items():
                if gone & set(members):
                    fails.append((dict(oracle='removed-vanish', network=cls), f'{cls}.remove_uids: group {key} still lists {sorted(gone & set(members))[:5]}'))
                if set(members) != set(ev['pre'].get(key, [])) - gone:
                    fails.append((dict(oracle='removed-only', network=cls), f'{cls}.remove_uids: group {key} lost or gained agents other than the removed ones'))
        if ev['op'] == 'diskadd' and 'x' in ev:
            au = [int(u) for u in ev['people']['auids']]
            x, y, r = ev['x'], ev['y'], ev['r']
            exp = set()
            for i in range(len(au)):
                for j in range(i + 1, len(au)):
                    d2 = (x[au[j]] - x[au[i]]) ** 2 + (y[au[j]] - y[au[i]]) ** 2
                    if abs(d2 - r * r) > 1e-12 and d2 < r * r: exp.add((au[i], au[j]))
            near = set()
            for i in range(len(au)):
                for j in range(i + 1, len(au)):
                    d2 = (x[au[j]] - x[au[i]]) ** 2 + (y[au[j]] - y[au[i]]) ** 2
                    if abs(d2 - r * r) <= 1e-12: near.add((au[i], au[j]))
            got = set(zip([int(u) for u in ev['post']['p1']], [int(u) for u in ev['post']['p2']]))
            if (got - near) != exp:
                miss = sorted(exp - got); extra = sorted(got - exp - near)
                fails.append((dict(oracle='disk-rule', network=cls),
                              f'{cls}.add_pairs: edges differ from "all pairs of active agents within r={r}": missing {miss[:4]} ({len(miss)}), extra {extra[:4]} ({len(extra)})'))
        if ev['op'] == 'rm':
            gone = set(int(u) for u in ev['uids'])
            left = [int(u) for u in ev['post']['p1']] + [int(u) for u in ev['post']['p2']]
            still = sorted(gone & set(left))
            if still:
                fails.append((dict(oracle='removed-vanish', network=cls), f'{cls}: after remove_uids the removed agent(s) {still[:5]} are still endpoints'))
            # nothing else may disappear
            keep = [i for i, (a, b) in enumerate(zip(ev['pre']['p1'], ev['pre']['p2'])) if int(a) not in gone and int(b) not in gone]
            if len(keep) != len(ev['post']['p1']) or any(int(ev['pre']['p1'][i]) != int(x) for i, x in zip(keep, ev['post']['p1'])):
                fails.append((dict(oracle='removed-only', network=cls), f'{cls}: remove_uids dropped or reordered edges not touching the removed agents'))
        if ev['op'] in ('end', 'matend'):
            alive = set(int(u) for u in ev['people']['alive'])
            left = [int(u) for u in ev['post']['p1']] + [int(u) for u in ev['post']['p2']]
            dead = sorted(set(left) - alive)
            if dead:
                fails.append((dict(oracle='end-pairs-dead', network=cls), f'{cls}.end_pairs kept edge(s) with non-alive endpoint(s) {dead[:5]}'))
            if ev['op'] == 'end':
                pre = ev['pre']; dt = ev['dt']
                for i in range(len(pre['p1'])):
                    d = float(pre['dur'][i]) - dt
                    if abs(d) < 1e-9: continue
                    should = d > 0 and int(pre['p1'][i]) in alive and int(pre['p2'][i]) in alive
                    # count-based presence check below
                exp = [(int(pre['p1'][i]), int(pre['p2'][i])) for i in range(len(pre['p1']))
                       if float(pre['dur'][i]) - dt > 1e-9 and int(pre['p1'][i]) in alive and int(pre['p2'][i]) in alive]
                amb = [(int(pre['p1'][i]), int(pre['p2'][i])) for i in range(len(pre['p1'])) if abs(float(pre['dur'][i]) - dt) <= 1e-9]
                got = list(zip([int(u) for u in ev['post']['p1']], [int(u) for u in ev['post']['p2']]))
                if not amb and got != exp:
                    fails.append((dict(oracle='timed-edges', network=cls),
                                  f'{cls}.end_pairs (dt={dt}): {len(got)} edges kept, but {len(exp)} have remaining duration > 0 with both endpoints alive'))
        if ev['op'] == 'append' and not ev['err']:
            kind = KINDS.get(cls)
            new = ev['new']
            if kind in KEYS:
                lens = {k: len(new[k]) for k in KEYS[kind] if k in new}
                if len(set(lens.values())) > 1:
                    fails.append((dict(oracle='append-ragged', network=cls), f'{cls}.append received columns of unequal length {lens}'))
            if ev['people'] is not None and kind in PARTNERSHIP:
                fails += oracle_eligible(ev, kind, cls)
            if ev['people'] is not None and kind == 'random':
                fails += oracle_random_degree(ev, cls, cfg)
    # (b) static networks only shrink, and only through death
    by_net = {}
    for s in snaps:
        if 'table' in s: by_net.setdefault(s['net'], []).append(s)
    for name, ss_ in by_net.items():
        if KINDS.get(ss_[0]['cls']) != 'static': continue
        for prev, cur in zip(ss_, ss_[1:]):
            pe = list(zip(prev['table']['p1'].tolist(), prev['table']['p2'].tolist()))
            ce = list(zip(cur['table']['p1'].tolist(), cur['table']['p2'].tolist()))
            au = set(int(u) for u in cur['people']['auids'])
            exp = [e for e in pe if e[0] in au and e[1] in au]
            if ce != exp:
                fails.append((dict(oracle='static-only-shrinks', network=ss_[0]['cls']),
                              f"StaticNet changed between ti={prev['ti']} and ti={cur['ti']} other than by losing the edges of removed agents ({len(pe)} -> {len(ce)}, expected {len(exp)})"))
    # (c) stated durations: the dur column of new edges IS the configured duration (number) / the draws of the duration distribution
    fails += oracle_stated(events)
    # (d) lifetimes: an edge of STATED duration d created at step s is present at s+k iff k == 0 or k*dt < d (endpoints alive)
    fails += oracle_lifetimes(events, snaps, cfg)
    return fails


def oracle_stated(events):
    """ The duration a new edge carries is the one its network's configuration states: exactly the configured number (in the
        network's time unit) for a plain / constant duration, exactly the value drawn for it from the configured duration
        distribution otherwise.  MaternalNet.add_pairs appends exactly the (mother, child, dur, start, start + dur) it is given. """
    fails = []
    seen = set()
    for ev in events:
        cls = ev.get('cls')
        if ev['op'] == 'append' and 'stated' in ev and cls not in seen:
            # what the table holds for the new edges after the call (falls back to the appended column on a ragged table)
            got = np.asarray(ev['post'].get('dur', []), dtype=float).ravel()[len(ev['pre'].get('dur', [])):]
            if len(ev['post'].get('dur', [])) != len(ev['post'].get('p1', [])) or len(ev['pre'].get('dur', [])) != len(ev['pre'].get('p1', [])):
                got = np.asarray(ev['new'].get('dur', []), dtype=float).ravel()
            exp = ev['stated_col']
            n = len(ev['new']['p1'])
            if exp is None:
                if n:
                    seen.add(cls)
                    fails.append((dict(oracle='stated-duration', network=cls),
                                  f'{cls}.add_pairs appended {n} edge(s) without drawing their durations from the duration distribution (dur column {got[:4].tolist()}…)'))
                continue
            exp = np.asarray(exp, dtype=float).ravel()
            if len(exp) != len(got) or not np.array_equal(exp, got):
                seen.add(cls)
                i = next((j for j in range(min(len(exp), len(got))) if exp[j] != got[j]), None)
                what = (f'new edge {i} ({int(ev["new"]["p1"][i])}->{int(ev["new"]["p2"][i])}) carries dur={got[i]!r} but its stated duration is {exp[i]!r}'
                        if i is not None else f'{len(got)} durations for {len(exp)} stated ones')
                src = f"the configured duration {ev['stated_val']!r}" if ev['stated'] == 'plain' else 'the draws of the configured duration distribution'
                sig = dict(oracle='stated-duration', network=cls)
                if ev.get('stated_timepar') and ev.get('dt') and len(exp) == len(got) and np.array_equal(got, exp / ev['dt']):
                    sig['_defect'] = 'timepar-timesteps'   # the column holds the time parameter's value in TIMESTEPS (D / dt)
                    src += f"; the column holds D/dt = {ev['stated_val'] / ev['dt']!r} timesteps, which end_pairs counts down by dt = {ev['dt']!r} per update"
                fails.append((sig, f'{cls}.add_pairs (ti={ev.get("ti")}): {what} ({src}, in the network\'s time unit)'))
        if ev['op'] == 'matadd' and ('mat', cls) not in seen:
            pre, post = ev['pre'], ev['post']
            starts = ev['starts'] if ev['starts'] is not None else np.full(len(ev['durs']), float(ev['ti']))
            exp = dict(p1=ev['mothers'], p2=ev['unborn'], beta=np.ones(len(ev['mothers'])), dur=ev['durs'], start=starts, end=starts + ev['durs'])
            for k, v in exp.items():
                want = np.concatenate([np.asarray(pre[k], dtype=float), np.asarray(v, dtype=float)])
                have = np.asarray(post.get(k, []), dtype=float)
                if len(want) != len(have) or not np.array_equal(want, have):
                    seen.add(('mat', cls))
                    fails.append((dict(oracle='maternal-window', network=cls),
                                  f'{cls}.add_pairs at ti={ev["ti"]}: column {k} is {have[-4:].tolist()} after appending, expected {want[-4:].tolist()} (mothers, children, beta 1, the given durations, start, start + dur)'))
                    break
    return fails


def oracle_eligible(ev, kind, cls):
    fails = []
    ps = ev['people']; ns = ev['netstate']
    if 'part' not in ns: return fails
    au = [int(u) for u in ps['auids']]
    pos = {u: i for i, u in enumerate(au)}
    alive = set(int(u) for u in ps['alive']); female = set(int(u) for u in ps['female']); part = set(int(u) for u in ns['part'])
    inedge = set(int(u) for u in ev['pre']['p1']) | set(int(u) for u in ev['pre']['p2'])
    for col, want_f in (('p1', False), ('p2', kind != 'msm')):
        for u in np.asarray(ev['new'][col]).astype(int).tolist():
            why = None
            if u not in pos: why = 'not an active agent'
            elif u not in alive: why = 'not alive'
            elif u not in part: why = 'not a participant'
            elif not (ps['age'][pos[u]] > ns['debut'][pos[u]]): why = f"age {ps['age'][pos[u]]:.2f} not past debut {ns['debut'][pos[u]]:.2f}"
            elif (u in female) != want_f: why = 'of the wrong sex for ' + col
            elif u in inedge: why = 'already in an edge'
            if why:
                fails.append((dict(oracle='eligible-only', network=cls), f'{cls}.add_pairs paired agent {u} who is {why}'))
                return fails
    return fails


def oracle_random_degree(ev, cls, cfg):
    fails = []
    ps = ev['people']
    au = [int(u) for u in ps['auids']]; alive = set(int(u) for u in ps['alive'])
    born = [u for u, a in zip(au, ps['age']) if u in alive and a > 0]
    p1 = np.asarray(ev['new']['p1']).astype(int).tolist(); p2 = np.asarray(ev['new']['p2']).astype(int).tolist()
    c1 = {}; c2 = {}
    for u in p1: c1[u] = c1.get(u, 0) + 1
    for u in p2: c2[u] = c2.get(u, 0) + 1
    if c1 != c2:
        u = next(u for u in set(c1) | set(c2) if c1.get(u, 0) != c2.get(u, 0))
        fails.append((dict(oracle='random-degree', network=cls), f'{cls}.add_pairs: agent {u} has {c1.get(u, 0)} outgoing and {c2.get(u, 0)} incoming half-edges'))
    extra = sorted(set(c1) - set(born))
    if extra:
        fails.append((dict(oracle='random-degree-eligible', network=cls, _agents=extra), f'{cls}.add_pairs: agent(s) {extra[:5]} are not eligible (alive, age > 0) but received edges'))
    nc = [n for n in cfg['networks'] if n['type'] == 'random']
    if nc and isinstance(nc[0]['n_contacts'], int):
        lo, hi = nc[0]['n_contacts'] // 2, -(-nc[0]['n_contacts'] // 2)
        wrong = [u for u in born if not (lo <= c1.get(u, 0) <= hi)]
        if wrong:
            fails.append((dict(oracle='random-degree-count', network=cls, _agents=wrong),
                          f"{cls}.add_pairs: eligible agent {wrong[0]} has {c1.get(wrong[0], 0)} half-edges, requested {nc[0]['n_contacts']}/2 (rounded)"))
    return fails


def oracle_lifetimes(events, snaps, cfg, alt=False):
    """ Track every edge of a duration-carrying network from its append to its disappearance, in the recorded order of
        events: an edge of stated duration d (in the NETWORK's time unit) that has been through k end_pairs() calls of a
        network whose own timestep is dt_net is present iff k == 0 or k * dt_net < d (both endpoints still active).
        (`alt`: the durations of a time-parameter configuration read as what the known defect makes of them, D / dt counted down
        by dt — used only to decide whether a failure is exactly that defect.) """
    fails = []
    for netname in set(ev['net'] for ev in events):
        evs = [ev for ev in events if ev['net'] == netname]
        cls = evs[0]['cls']; kind = KINDS.get(cls)
        if kind not in ('random', 'erdos', 'mf', 'msm', 'embedding'): continue
        nend = 0; tracked = []; dt_net = None
        for ev in evs:
            if ev['op'] == 'end':
                nend += 1; dt_net = ev['dt']
            elif ev['op'] == 'append' and not ev['err'] and 'dur' in ev['new']:
                durs = np.asarray(ev['new']['dur'], dtype=float)
                if ev.get('stated_col') is not None and len(ev['stated_col']) == len(durs):
                    durs = np.asarray(ev['stated_col'], dtype=float)   # the STATED duration, not what the class wrote into the column
                    if alt and ev.get('stated_timepar') and ev.get('dt'): durs = durs / ev['dt']
                for a, b, d in zip(np.asarray(ev['new']['p1']).astype(int).tolist(), np.asarray(ev['new']['p2']).astype(int).tolist(),
                                   durs.tolist()):
                    tracked.append((nend, a, b, d))
            elif ev['op'] == 'snap':
                if dt_net is None: continue
                au = set(int(u) for u in ev['people']['auids'])
                got = {}
                for a, b in zip(ev['table']['p1'].astype(int).tolist(), ev['table']['p2'].astype(int).tolist()):
                    if a in au and b in au: got[(a, b)] = got.get((a, b), 0) + 1
                exp = {}; amb = set()
                for (s0, a, b, d) in tracked:
                    k = nend - s0
                    if a not in au or b not in au: continue
                    if k > 0 and abs(k * dt_net - d) < 1e-6: amb.add((a, b)); continue
                    if k == 0 or k * dt_net < d: exp[(a, b)] = exp.get((a, b), 0) + 1
                for key in set(got) | set(exp):
                    if key in amb: continue
                    if got.get(key, 0) != exp.get(key, 0):
                        sig = dict(oracle='edge-lifetime', network=cls)
                        if not alt and any(e.get('stated_timepar') for e in evs) and not oracle_lifetimes(evs, snaps, cfg, alt=True):
                            sig['_defect'] = 'timepar-timesteps'   # fully explained by "D/dt timesteps counted down by dt"
                        fails.append((sig,
                                      f"{cls} at sim step {ev['ti']} (after {nend} network updates, network dt={dt_net}, sim dt={cfg['dt']}): edge {key} is present {got.get(key, 0)} time(s) but {exp.get(key, 0)} edge(s) between these agents have a stated duration (configuration / draws of the duration parameter) reaching this update"))
                        return fails
    return fails


_ZOO_RUNS = {}   # zoo entry -> (events, snaps) recorded by correspond() in this process, reused by search()


def run_oracle(cfg, impl_format=False, recorded=None):
    """ -> list of (signature, what) on the real code """
    if recorded is not None:
        events, snaps = recorded
    else:
        sim, events, snaps = run_recorded_impl(cfg) if impl_format else run_recorded(cfg)
    fails = []
    for s in snaps:
        fails += oracle_snapshot(s, None)
    fails += oracle_events(events, snaps, cfg)
    return tag_config(fails, cfg)


def tag_config(fails, cfg):
    """ Add the distinguishing configuration class to the signature (a known finding must match nothing else): a failure of a
        RandomNet whose n_contacts is a plain number stored on the parameter object is attributed to the filler slots only if
        the one offending agent is uid 0 (the value the unfilled source slots keep). """
    plain = any(n.get('plain') for n in cfg.get('networks', []))
    out = []
    for sig, what in fails:
        sig = dict(sig)
        agents = sig.pop('_agents', None)
        if sig.pop('_defect', None) == 'timepar-timesteps':
            sig = dict(network=sig['network'], dur='time-parameter', defect='timesteps-minus-dt', oracle=sig['oracle'])
        if plain and sig.get('network') == 'RandomNet' and agents == [0]:
            sig = dict(network='RandomNet', n_contacts='plain-number', defect='uid0-filler', oracle=sig['oracle'])
        out.append((sig, what))
    return out


def direct_scenario(spec):
    """ Direct API use: a dynamic network, some agents dead but not yet removed, then end_pairs / remove_dead.
        -> dict(events, fails) """
    import starsim as ss
    cfg = dict(n_agents=spec['n_agents'], rand_seed=spec['seed'], dt=spec['dt'], start=2000, dur=spec['dt'] * 3,
               networks=[spec['net']], demographics=[], disease='sis')
    with Recorder() as rec:
        sim = build_sim(cfg)
        sim.init()
        ppl = sim.people
        net = sim.networks[0]
        rng = np.random.default_rng(spec['seed'])
        victims = ss.uids(np.sort(rng.choice(np.asarray(ppl.auids), size=max(1, spec['n_agents'] // 5), replace=False)))
        ppl.request_death(victims)
        ppl.step_die()
        n0 = len(rec.events)
        fails = []
        if spec['what'] == 'end_pairs':
            net.end_pairs()
            left = set(int(u) for u in net.edges.p1) | set(int(u) for u in net.edges.p2)
            dead = sorted(left & set(int(u) for u in victims))
            if dead:
                fails.append((dict(oracle='end-pairs-dead', network=type(net).__name__),
                              f'{type(net).__name__}.end_pairs() with agents {dead[:5]} dead (not yet removed): their edges were kept'))
        else:
            ppl.remove_dead()
            left = set(int(u) for u in net.edges.p1) | set(int(u) for u in net.edges.p2)
            dead = sorted(left & set(int(u) for u in victims))
            if dead:
                fails.append((dict(oracle='removed-vanish', network=type(net).__name__),
                              f'after People.remove_dead() the removed agent(s) {dead[:5]} are still endpoints of {type(net).__name__}'))
            still = sorted(set(int(u) for u in ppl.auids) & set(int(u) for u in victims))
            if still:
                fails.append((dict(oracle='removed-still-active', network='People'), f'after remove_dead the dead agent(s) {still[:5]} are still in auids'))
    attach_stated(sim, cfg, rec.events)
    fails += oracle_stated(rec.events)
    return dict(events=rec.events[n0:], fails=tag_config(fails, cfg))


def maternal_direct(spec):
    """ Direct API use of MaternalNet.add_pairs: explicit start, and the default start (= the network's current step) """
    import starsim as ss
    cfg = dict(n_agents=spec['n_agents'], rand_seed=spec['seed'], dt=spec['dt'], start=2000, dur=spec['dt'] * 6,
               networks=[dict(type='maternal')], demographics=[dict(type='pregnancy', fertility_rate=100, burnin=False)], disease='sis')
    with Recorder() as rec:
        sim = build_sim(cfg)
        sim.init()
        if spec['steps']:
            sim.run(until=2000 + spec['steps'] * spec['dt'])
        net = sim.networks[0]
        n0 = len(rec.events)
        rng = np.random.default_rng(spec['seed'])
        au = np.asarray(sim.people.auids)
        pick = rng.choice(au, size=2 * spec['k'], replace=False)
        durs = np.round(rng.uniform(0.5, 6, size=spec['k']), 3)
        starts = None if spec['default_start'] else np.full(spec['k'], float(int(net.ti)) + spec['offset'])
        net.add_pairs(ss.uids(pick[:spec['k']]), ss.uids(pick[spec['k']:]), dur=durs, start=starts)
        net.step()
    fails = oracle_stated(rec.events[n0:])
    return dict(events=rec.events[n0:], fails=tag_config(fails, cfg))


def gen_direct(rng):
    dt = rng.choice([1.0, 0.5, 0.25])
    net = rng.choice([dict(type='random', n_contacts=4, dur=3 * dt), dict(type='mf', duration=5 * dt, debut=16, participation=0.9),
                      dict(type='erdos', p=0.08, dur=2.5 * dt), dict(type='msm', duration=5 * dt, debut=16, participation=0.9),
                      dict(type='embedding', duration=5 * dt, debut=16, participation=0.9)])
    return dict(n_agents=rng.choice([30, 60]), seed=rng.randint(0, 9999), dt=dt, net=net, what=rng.choice(['end_pairs', 'end_pairs', 'remove_dead']))


def gen_direct_mat(rng, i):
    return dict(n_agents=30, seed=rng.randint(0, 9999), dt=rng.choice([1.0, 0.5, 0.25]), steps=rng.choice([0, 2, 3]), k=rng.choice([1, 3, 5]),
                default_start=(i % 2 == 0), offset=rng.choice([0.0, 1.0, -2.0]))


# ---------------------------------------------------------------------------

def variant_from_facts(ctx):
    facts = ctx.extracted.get('NetworkFacts', {}).get('facts') or {}
    def variant_of(kind):
        if kind == 'erdos': return 'asis' if facts.get('erdos_endpoints', 'positions') == 'positions' else 'spec'
        if kind == 'disk': return 'asis' if facts.get('disk_endpoints', 'positions') == 'positions' else 'spec'
        if kind == 'randomplain': return 'asis' if facts.get('random_plain_counts', 'all-active') == 'all-active' else 'spec'
        return 'spec'
    return variant_of


def correspond(ctx):
    variant_of = variant_from_facts(ctx)
    ctx.notes['variant_matched'] = dict(erdos=variant_of('erdos'), disk=variant_of('disk'))
    nsims = ctx.budget(14, 90)
    pool = ['random', 'mf', 'msm', 'embedding', 'erdos', 'disk', 'static', 'null', 'maternal', 'prepost']
    lines = []; checks = []
    max_lines = ctx.budget(2400, 9000)
    covered = {}
    fam = fixed_families(ctx.rng)
    cfgs = [c for _, c in fam]
    ctx.notes['fixed_families'] = [nm for nm, _ in fam]
    for i in range(nsims):
        cfgs.append(gen_cfg(ctx.rng, force_net=pool[i % len(pool)] if i < len(pool) else None, thorough=ctx.thorough))
    for cfg in cfgs:
        try:
            sim, events, snaps = run_recorded(cfg)
        except Exception as e:
            ctx.broke('correspondence', 'C14.run', f'generated sim raised {type(e).__name__}: {e}', data=dict(kind='sim', cfg=cfg))
            continue
        for ev in events:
            covered[ev['cls'] + '.' + ev['op']] = covered.get(ev['cls'] + '.' + ev['op'], 0) + 1
        # sample events so that the driver input stays bounded: all events of the first steps, then every third
        items = []
        for j, ev in enumerate(events):
            if ev['op'] == 'snap': continue
            size = len(ev['pre']['p1']) if 'p1' in ev.get('pre', {}) else 0
            if size > 1500: continue
            if j < 40 or j % 3 == 0:
                try:
                    for line, chk in event_lines(ev, variant_of):
                        items.append((line, chk, dict(kind='sim', cfg=cfg, op=ev['op'], net=ev['cls'])))
                except ValueError as e:
                    ctx.broke('correspondence', 'C14.encode', f"{ev['cls']}.{ev['op']}: {e}", data=dict(kind='sim', cfg=cfg))
        for s in snaps:
            if 'table' not in s or len(s['table']['p1']) > 1500: continue
            ln = snap_line(s)
            if ln: items.append((ln, ('snap', s['cls'], bool(s.get('plain'))), dict(kind='sim', cfg=cfg, op='check', net=s['cls'], ti=s['ti'])))
        for it in items:
            if len(lines) >= max_lines: break
            lines.append(it[0]); checks.append(it[1:])
    # the shared scenario zoo: the recorded operations of every entry through the model (a sample per entry, spread evenly over the run)
    from harness import zoo
    zoo_lines = 0; zoo_cap = ctx.budget(700, 5000); per_entry = ctx.budget(14, 100)
    for name, cfg in zoo.configs():
        try:
            sim, events, snaps = run_recorded_impl(cfg)
            _ZOO_RUNS[name] = (events, snaps)
            items = []
            for j, ev in enumerate(events):
                if ev['op'] == 'snap': continue
                covered[ev['cls'] + '.' + ev['op']] = covered.get(ev['cls'] + '.' + ev['op'], 0) + 1
                size = len(ev['pre']['p1']) if 'p1' in ev.get('pre', {}) else 0
                if size > 1500 or not (j < 12 or j % 4 == 0): continue
                for line, chk in event_lines(ev, variant_of):
                    items.append((line, chk, dict(kind='zoo', zoo=name, cfg=cfg, op=ev['op'], net=ev['cls'])))
            for i, sn in enumerate(snaps):
                if 'table' not in sn or len(sn['table']['p1']) > 1500 or i % 3: continue
                ln = snap_line(sn)
                if ln: items.append((ln, ('snap', sn['cls'], False), dict(kind='zoo', zoo=name, cfg=cfg, op='check', net=sn['cls'], ti=sn['ti'])))
        except Exception as e:
            ctx.count('zoo_exceptions'); ctx.notes['last_zoo_exception'] = f'{name}: {type(e).__name__}: {e}'; continue
        ctx.count('zoo_runs')
        if len(items) > per_entry:   # an even spread over the run, so that late operations (after deaths / births) are included
            items = [items[(i * len(items)) // per_entry] for i in range(per_entry)]
        for it in items:
            if zoo_lines >= zoo_cap: break
            lines.append(it[0]); checks.append(it[1:]); zoo_lines += 1
    # direct API scenarios
    for k in range(ctx.budget(10, 60)):
        spec = gen_direct(ctx.rng)
        try:
            res = direct_scenario(spec)
        except Exception as e:
            ctx.broke('correspondence', 'C14.direct', f'direct scenario raised {type(e).__name__}: {e}', data=dict(kind='direct', spec=spec))
            continue
        for ev in res['events']:
            for line, chk in event_lines(ev, variant_of):
                lines.append(line); checks.append((chk, dict(kind='direct', spec=spec, op=ev['op'], net=ev['cls'])))
    for k in range(ctx.budget(4, 20)):
        spec = gen_direct_mat(ctx.rng, k)
        try:
            res = maternal_direct(spec)
        except Exception as e:
            ctx.broke('correspondence', 'C14.direct', f'direct maternal scenario raised {type(e).__name__}: {e}', data=dict(kind='direct-mat', spec=spec))
            continue
        for ev in res['events']:
            for line, chk in event_lines(ev, variant_of):
                lines.append(line); checks.append((chk, dict(kind='direct-mat', spec=spec, op=ev['op'], net=ev['cls'])))
    # append with a missing key on a real network object
    lines.append('append kind=random p1=1 p2=2 beta=1 dur=3 n_p1=5 n_p2=6 n_beta=1'); checks.append(('missing', None))
    out = ctx.drive(DRIVER, lines)
    if len(out) != len(lines):
        ctx.broke('correspondence', 'driver', f'driver returned {len(out)} lines for {len(lines)} operations')
        return
    import starsim as ss
    for line, ml, (chk, data) in zip(lines, out, checks):
        opname = line.split(' ', 1)[0]
        ctx.count('op_' + opname)
        nontrivial = ' p1=-' not in line
        if chk == 'dontcare':
            ctx.count('dont_care'); continue
        ctx.case(line, nontrivial, sample=dict(op=line[:160], model=ml[:160]))
        if ml == 'bad-op':
            ctx.broke('correspondence', 'C14.' + opname, 'model rejected the operation line', data=dict(line=line[:2000], **(data or {})))
            continue
        if chk == 'missing':
            net = ss.RandomNet()
            try:
                net.append(p1=np.array([5]), p2=np.array([6]), beta=np.array([1.0])); got = 'ok'
            except KeyError: got = 'E:KeyMissing'
            except Exception as e: got = type(e).__name__
            if got != ml:
                ctx.broke('correspondence', 'C14.append', f'append without the required key dur: code {got}, model {ml}')
            continue
        if isinstance(chk, tuple) and chk[0] == 'snap':
            cls = chk[1]; kind = KINDS[cls]
            bits = dict(p.split('=') for p in ml.split()[1:])
            exp_active = '1'
            if (kind in ('erdos', 'disk') and variant_of(kind) == 'asis') or (chk[2] and variant_of('randomplain') == 'asis'):
                exp_active = None   # positions: may or may not be active (known finding; judged by the oracle)
            bad = []
            if bits.get('wf') != '1': bad.append('columns of unequal length')
            if exp_active and bits.get('active') != '1': bad.append('an endpoint is not an active agent')
            if exp_active and bits.get('alive') != '1': bad.append('an endpoint is not alive')
            if kind in PARTNERSHIP and bits.get('mono') != '1': bad.append('an agent is in two concurrent edges')
            if bad:
                ctx.broke('correspondence', 'C14.invariant', (f"[zoo:{data['zoo']}] " if data.get('zoo') else '') + f"{cls} at ti={data.get('ti')}: the model's invariant check fails on the observed table: {'; '.join(bad)}", data=data)
            continue
        d = chk(ml)
        if d:
            ctx.broke('correspondence', 'C14.' + opname, (f"[zoo:{data['zoo']}] " if data.get('zoo') else '') + f"{data.get('net')}.{data.get('op')}: {d}", data=dict(line=line[:3000], **data))
    ctx.notes['operations_covered'] = covered
    # cross-check the extracted variant flags dynamically: with no deaths spec and asis agree, so compare on a run with deaths
    return


def search(ctx):
    n = ctx.budget(16, 100)
    pool = ['erdos', 'disk', 'mf', 'random', 'embedding', 'msm', 'static', 'prepost', 'maternal', 'null']
    cfgs = [c for _, c in fixed_families(ctx.rng)]
    for i in range(n):
        cfg = gen_cfg(ctx.rng, force_net=pool[i % len(pool)] if i < 2 * len(pool) else None, thorough=ctx.thorough)
        if i < 2:   # deaths on for the position-sensitive classes
            cfg['demographics'] = [dict(type='deaths', death_rate=200)]
        cfgs.append(cfg)
    for cfg in cfgs:
        try:
            fails = run_oracle(cfg)
        except Exception as e:
            ctx.fail(dict(oracle='sim-raises', error=type(e).__name__), f'generated sim raised {type(e).__name__}: {e}', dict(kind='sim', cfg=cfg))
            continue
        ctx.count('oracle_sims')
        seen = set()
        for sig, what in fails:
            key = tuple(sorted(sig.items()))
            if key in seen: continue
            seen.add(key)
            ctx.fail(sig, what, dict(kind='sim', cfg=cfg))
    search_zoo(ctx)
    for k in range(ctx.budget(12, 60)):
        spec = gen_direct(ctx.rng)
        try:
            res = direct_scenario(spec)
        except Exception as e:
            ctx.fail(dict(oracle='direct-raises', error=type(e).__name__), f'direct scenario raised {type(e).__name__}: {e}', dict(kind='direct', spec=spec))
            continue
        ctx.count('oracle_direct')
        for sig, what in res['fails']:
            ctx.fail(sig, what, dict(kind='direct', spec=spec))
    for k in range(ctx.budget(4, 20)):
        spec = gen_direct_mat(ctx.rng, k)
        try:
            res = maternal_direct(spec)
        except Exception as e:
            ctx.fail(dict(oracle='direct-raises', error=type(e).__name__), f'direct maternal scenario raised {type(e).__name__}: {e}', dict(kind='direct-mat', spec=spec))
            continue
        ctx.count('oracle_direct_mat')
        for sig, what in res['fails']:
            ctx.fail(sig, what, dict(kind='direct-mat', spec=spec))
    # stored witnesses of the known findings
    for k in ctx.known:
        if k.get('replay'):
            try:
                for sig, what in replay_fails(k['replay']):
                    ctx.fail(sig, what, k['replay'])
            except Exception:
                pass


def search_zoo(ctx):
    """ every oracle of this property over every entry of the shared scenario zoo (harness/zoo.py), on every run """
    from harness import zoo
    for name, cfg in zoo.configs():
        try:
            fails = run_oracle(cfg, impl_format=True, recorded=_ZOO_RUNS.pop(name, None))
        except Exception as e:
            ctx.count('zoo_exceptions'); ctx.notes['last_zoo_exception'] = f'{name}: {type(e).__name__}: {e}'; continue
        ctx.count('zoo_runs')
        seen = set()
        for sig, what in fails:
            key = tuple(sorted(sig.items()))
            if key in seen: continue
            seen.add(key)
            ctx.fail(sig, f'[zoo:{name}] ' + what, dict(kind='zoo', cfg=cfg))


def replay_fails(data):
    if data.get('kind') == 'sim':
        return run_oracle(data['cfg'])
    if data.get('kind') == 'direct':
        return direct_scenario(data['spec'])['fails']
    if data.get('kind') == 'direct-mat':
        return maternal_direct(data['spec'])['fails']
    if data.get('kind') == 'zoo':
        return run_oracle(data['cfg'], impl_format=True)
    return []


def replay(ctx, data):
    fails = replay_fails(data)
    for sig, what in fails[:5]:
        print('  ', sig, what)
    return bool(fails)
