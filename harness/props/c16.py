"""
C16 — Per-step hazards and durations are independent of the timestep.

correspond(): the REAL hazard functions called directly on generated (sim unit, dt) x (module unit, dt) x rate forms
              and compared with Model/Hazard.lean (Drivers/C16.lean, exact rationals):
   Births.get_births (probability handed to the binomial; TimePar and plain-number rates),
   Deaths.make_death_prob_fn (TimePar, plain number, year x sex x age table: per-agent probabilities, age bin and nearest year),
   Pregnancy.make_fertility_prob_fn (number form, per agent: age window, fecundity),
   People.update_post (age increment per sim step), RoutineDelivery.init_pre (annual -> per-step probability).
search():     on the real code only, against exact Fraction / decimal references: per-step probability = rate x step length
              in years (births, deaths, fertility), coverage conversion, ageing over a year, sexual-network per-act compounding,
              and (statistical, labelled) event counts per year across dt.
"""
import sys, math, decimal
from fractions import Fraction as Fr
import numpy as np
from harness.props import c06
from harness.props.c06 import fr, tok_num, tok_opt, tok_unit, tok_val, close, U, observe

PROP = 'C16'
GENERATED = ['TimeUnits', 'TimeParConsts', 'HazardExprs', 'TimeDecls', 'StepClocks', 'ParsUpdate', 'TableIndex']
DRIVER = 'Drivers/C16.lean'
DRIVER_MODULES = ['StarsimModel.Model.Hazard', 'StarsimModel.Model.TimePar', 'StarsimModel.Model.Proto']
RULE = ('seeded (sim unit, dt) x (module unit, dt) x rate form (TimePar of any unit / plain number / year-sex-age table) x agents; '
        'every probability the real hazard function returns is compared with the model; distinct = distinct canonical model line; '
        'non-trivial = step length != 1 year or a table / eligibility branch')
TRUSTED = ['np.digitize / sc.findnearest / pandas .loc semantics as used by the table lookups (compared, not proved)',
           'float32 storage of ages (age increments compared within float32 rounding)',
           'ParsUpdate extractor: AST of Pars.update / Pars._update_timepar / atomic_classes (closed vocabulary, fails closed)']
ASSUMPTIONS = ['probabilities are compared within 16 ulp of the exact rational model (float32 table values within 2^-22 relative)',
               'statistical oracle (events per year across dt) is a 6-sigma test on 20000 agents, labelled statistical']

Dm = decimal.Decimal
SIMS = [('year', 1.0, 3), ('year', 0.5, 3), ('year', 0.2, 2), ('year', 0.25, 2), ('year', 2.0, 6), ('day', 1, 400), ('day', 7, 420), ('week', 1, 60),
        ('week', 2, 60), ('month', 1, 30), ('month', 3, 30)]
MODS = [dict(), dict(unit='year', dt=1.0), dict(unit='year', dt=0.5), dict(unit='year', dt=0.1), dict(unit='month', dt=1), dict(unit='week', dt=1),
        dict(unit='day', dt=1), dict(unit='day', dt=7), dict(unit='month', dt=2), dict(unit='week', dt=4)]


def drive(ctx, lines):
    return c06.drive(ctx, lines, DRIVER, DRIVER_MODULES)


def tp_tokens(o):
    return (f"{o['kind']} {tok_unit(o['unit'])} {tok_unit(o['punit'])} {tok_opt(o['pdt'])} {tok_opt(o['sdt'])} {tok_opt(o['factor'])} "
            f"{int(o['init'])} {tok_val(o['v'])} {tok_val(o['values'])}")


def gen_rate_tp(rng):
    import starsim as ss
    r = rng.random()
    if r < 0.3: return None   # the module default, ss.peryear(20)
    v = rng.choice([20, 5, 12.5, 40, 0.02, 100, 3])
    return ('rate', v, rng.choice(['year', 'year', 'month', 'week', 'day', None]))


def mk_rate(spec):
    import starsim as ss
    if spec is None: return None
    return ss.rate(spec[1], unit=spec[2])


def build(kind, su, sdt, dur, mkw, rate=None, extra=None, n_agents=60, start=None):
    """ build and initialise a real sim with one demographics module; returns (sim, module) or raises """
    import starsim as ss
    kw = dict(mkw)
    if extra: kw.update(extra)
    if kind == 'births':
        if rate is not None: kw['birth_rate'] = rate
        mod = ss.Births(**kw)
    elif kind == 'deaths':
        if rate is not None: kw['death_rate'] = rate
        mod = ss.Deaths(**kw)
    else:
        kw['fertility_rate'] = rate
        mod = ss.Pregnancy(**kw)
    skw = {} if start is None else dict(start=start)     # sim = [unit, dt, dur, start]: numeric or calendar time axis
    sim = ss.Sim(n_agents=n_agents, unit=su, dt=sdt, dur=dur, demographics=mod, verbose=0, **skw)
    sim.init()
    return sim, sim.demographics[0]


def births_prob(b):
    """ the probability Births.get_births hands to the binomial """
    cap = []
    orig = np.random.binomial
    np.random.binomial = lambda n, p, *a, **k: (cap.append(p), 0)[1]
    try:
        b.get_births()
    finally:
        np.random.binomial = orig
    return cap[-1]


def model_prob(line_out):
    """ 'ok p/q' | 'ok s:p/q' | 'E:..' -> Fraction or str """
    if not line_out.startswith('ok '): return line_out
    t = line_out[3:]
    if t.startswith('s:'): t = t[2:]
    if t.startswith('a:'): return [Fr(x) for x in t[2:].split(',')]
    return Fr(t)


def cmp_prob(m, i, rel=16 * U):
    if isinstance(m, str): return False
    return close(m, fr(i), rel, 1e-300)


def death_table(rng):
    import pandas as pd
    years = sorted(rng.sample([1990, 1998, 2000, 2001, 2003, 2010, 2030], rng.choice([1, 2, 3])))
    ages = sorted(rng.sample([0, 1, 5, 10, 15, 25, 40, 50, 65, 80], rng.choice([2, 4, 6])))
    rows = []
    for y in years:
        for s in ('Female', 'Male'):
            for a in ages:
                rows.append(dict(Time=y, Sex=s, AgeGrpStart=a, mx=round(rng.uniform(0.0, 0.3), 4)))
    return pd.DataFrame(rows)


def correspond_round1(ctx):
    import starsim as ss
    rng = ctx.rng
    facts = (ctx.extracted.get('HazardExprs') or {}).get('facts') or {}
    table_checks.clear()
    lines = []; checks = []   # checks: (line index, impl value, description, data, nontrivial)

    def add(line, impl, desc, data, nontrivial=True, rel=16 * U):
        checks.append((len(lines), impl, desc, data, nontrivial, rel)); lines.append(line)

    n_cfg = ctx.budget(14, 60)
    done = 0; tries = 0
    while done < n_cfg and tries < 6 * n_cfg:
        tries += 1
        su, sdt, dur = rng.choice(SIMS); mkw = rng.choice(MODS)
        ru = rng.choice([1e-3, 1e-3, 1, 0.01]); rel = rng.choice([1, 1, 0.5, 2])
        spec = gen_rate_tp(rng)
        cfg = dict(sim=[su, sdt, dur], mod=mkw, ru=ru, rel=rel, rate=spec)
        # --- births
        try:
            sim, b = build('births', su, sdt, dur, mkw, mk_rate(spec), dict(rate_units=ru, rel_birth=rel))
        except Exception as e:
            ctx.count('cfg_rejected_' + type(e).__name__); continue
        done += 1
        tu, tdt = b.t.unit, b.t.dt
        p = births_prob(b)
        add(f"timepar births {tok_unit(tu)} {tok_opt(tdt)} {tok_unit(sim.t.unit)} {tok_opt(sim.t.dt)} {tok_num(ru)} {tok_num(rel)} {tp_tokens(observe(b.pars.birth_rate))}", p,
            'Births.get_births (TimePar rate)', dict(kind='births', form='timepar', **cfg), nontrivial=True)
        x = rng.choice([25.0, 10, 0.5, 1200, 33.3])
        b.pars.birth_rate = x
        add(f"number births {tok_unit(tu)} {tok_opt(tdt)} {tok_unit(sim.t.unit)} {tok_opt(sim.t.dt)} {tok_num(x)} {tok_num(ru)} {tok_num(rel)}", births_prob(b),
            'Births.get_births (number rate)', dict(kind='births', form='number', x=x, **cfg))
        # --- deaths
        try:
            sim, d = build('deaths', su, sdt, dur, mkw, mk_rate(spec), dict(rate_units=ru, rel_death=rel))
        except Exception as e:
            ctx.count('cfg_rejected_' + type(e).__name__); continue
        tu, tdt = d.t.unit, d.t.dt
        p = ss.Deaths.make_death_prob_fn(d, sim, sim.people.auids)
        add(f"timepar deaths {tok_unit(tu)} {tok_opt(tdt)} {tok_unit(sim.t.unit)} {tok_opt(sim.t.dt)} {tok_num(ru)} {tok_num(rel)} {tp_tokens(observe(d.death_rate_data))}", p,
            'Deaths.make_death_prob_fn (TimePar rate)', dict(kind='deaths', form='timepar', **cfg))
        d.death_rate_data = x
        add(f"number deaths {tok_unit(tu)} {tok_opt(tdt)} {tok_unit(sim.t.unit)} {tok_opt(sim.t.dt)} {tok_num(x)} {tok_num(ru)} {tok_num(rel)}", ss.Deaths.make_death_prob_fn(d, sim, sim.people.auids),
            'Deaths.make_death_prob_fn (number rate)', dict(kind='deaths', form='number', x=x, **cfg))
        # --- deaths, table form
        try:
            df = death_table(rng)
            sim, d = build('deaths', su, sdt, dur, mkw, df, dict(rate_units=ru, rel_death=rel))
            ppl = sim.people
            probs = ss.Deaths.make_death_prob_fn(d, sim, ppl.auids)
            drd = d.death_rate_data
            years = [float(y) for y in drd.index.get_level_values('year')]
            now = float(sim.t.now('year'))
            cols = [float(c) for c in drd.columns]
            assert cols[0] == -np.inf
            bins = cols[1:]
            ages = np.array(ppl.age[ppl.auids]); fem = np.array(ppl.female[ppl.auids])
            pick = rng.sample(range(len(ages)), min(8, len(ages)))
            li = len(lines); lines.append(f"nearest {','.join(tok_num(y) for y in years)} {tok_num(now)}")
            table_checks.append(dict(li=li, years=years, drd=drd, agents=[], tu=tu, tdt=tdt, su=sim.t.unit, sdt=sim.t.dt, ru=ru, rel=rel, cfg=cfg, df=df.to_dict(orient='list')))
            for k in pick:
                la = len(lines); lines.append(f"agebin {','.join(tok_num(b_) for b_ in bins)} {tok_num(ages[k])}")
                table_checks[-1]['agents'].append(dict(la=la, age=float(ages[k]), sex='f' if fem[k] else 'm', p=float(probs[k])))
        except Exception as e:
            ctx.count('table_rejected_' + type(e).__name__)
        # --- fertility, number form
        try:
            fr_ = rng.choice([80, 150, 20.5, 999])
            sim, pg = build('preg', su, sdt, dur, mkw, fr_, dict(rate_units=ru, rel_fertility=rel), n_agents=80)
            ppl = sim.people
            uids = ppl.female.uids
            if rng.random() < 0.5 and len(uids) > 4:
                pg.fecund[uids[:3]] = False
            pr = ss.Pregnancy.make_fertility_prob_fn(pg, sim, uids)
            ages = np.array(ppl.age[uids]); fec = np.array(pg.fecund[uids])
            for k in rng.sample(range(len(uids)), min(6, len(uids))):
                add(f"fert {tok_unit(pg.t.unit)} {tok_opt(pg.t.dt)} {tok_unit(sim.t.unit)} {tok_opt(sim.t.dt)} {tok_num(fr_)} {tok_num(ru)} {tok_num(rel)} {tok_num(ages[k])} "
                    f"{tok_num(pg.pars.min_age)} {tok_num(pg.pars.max_age)} {int(fec[k])}", pr[k],
                    'Pregnancy.make_fertility_prob_fn (number rate)', dict(kind='fertility', age=float(ages[k]), fecund=bool(fec[k]), x=fr_, **cfg), rel=2.0 ** -21)
        except Exception as e:
            ctx.count('fertility_rejected_' + type(e).__name__)
        # --- ageing
        ppl = sim.people
        a0 = np.array(ppl.age[ppl.auids], dtype=np.float64)
        ppl.update_post()
        a1 = np.array(ppl.age[ppl.auids], dtype=np.float64)
        add(f"ageinc {tok_unit(sim.t.unit)} {tok_opt(sim.t.dt)}", ('age', a0, a1), 'People.update_post age increment', dict(kind='ageing', **cfg))
        # --- routine delivery
        try:
            P = rng.choice([0.3, 0.05, 0.9, 0.5])
            prob = delivery_prob(su, sdt, dur, P)
            add(f"delivexp {tok_unit(su)} {tok_opt(sdt)}", ('cov', P, prob), 'RoutineDelivery.init_pre probability', dict(kind='delivery', P=P, **cfg))
        except Exception as e:
            ctx.count('delivery_rejected_' + type(e).__name__)
    if done == 0:
        ctx.broke('correspondence', 'C16', 'no generated configuration could be initialised')
        return
    out = drive(ctx, lines)
    for li, impl, desc, data, nontrivial, rel in checks:
        ml = out[li]
        m = model_prob(ml)
        ctx.case(('hz', lines[li]), nontrivial, sample=dict(kind=desc, line=lines[li], model=ml, impl=repr(impl)[:80]))
        ctx.count('cmp_' + data['kind'])
        bad = None
        if ml == 'bad-op': bad = 'the model does not understand the line'
        elif isinstance(impl, tuple) and impl[0] == 'age':
            _, a0, a1 = impl
            if isinstance(m, str): bad = f'model {m}'
            else:
                inc = float(m)
                err = np.abs((a1 - a0) - inc); tol = 2.0 ** -22 * (np.abs(a1) + 1)
                if (err > tol).any(): bad = f'age increment {float((a1 - a0)[0])!r} but model dt_year = {inc!r}'
        elif isinstance(impl, tuple) and impl[0] == 'cov':
            _, P, prob = impl
            if isinstance(m, str): bad = f'model {m}'
            else:
                ref = 1 - (1 - c06.D(P)) ** c06.D(m)
                if abs(c06.D(prob) - ref) > Dm(1e-14): bad = f'per-step probability {prob!r} but model 1-(1-{P})^{float(m)!r} = {float(ref)!r}'
        else:
            vals = np.atleast_1d(np.asarray(impl, dtype=float))
            if isinstance(m, str): bad = f'model {m}, implementation returned {impl!r}'
            elif any(not cmp_prob(m, v, rel) for v in vals): bad = f'implementation {vals[:3]!r} but model {float(m)!r}'
        if bad:
            ctx.broke('correspondence', 'C16.' + data['kind'], f"{desc} diverges from Model/Hazard.lean: {bad} [{lines[li]}]", data=dict(data, line=lines[li], model=ml))
            return
    # table lookups: the model chooses year and age bin; the rate at that cell through the model's number form
    lines2 = []; idx = []
    for tc in table_checks:
        yi = int(out[tc['li']].split(' ')[1])
        year = tc['years'][yi]
        for ag in tc['agents']:
            bi = int(out[ag['la']].split(' ')[1])
            row = tc['drd'].loc[year, ag['sex']]
            rate = float(np.asarray(row.values).ravel()[bi])
            idx.append((len(lines2), tc, ag, year, bi, rate))
            lines2.append(f"number deaths {tok_unit(tc['tu'])} {tok_opt(tc['tdt'])} {tok_unit(tc['su'])} {tok_opt(tc['sdt'])} {tok_num(rate)} {tok_num(tc['ru'])} {tok_num(tc['rel'])}")
    out2 = drive(ctx, lines2) if lines2 else []
    for li, tc, ag, year, bi, rate in idx:
        m = model_prob(out2[li])
        ctx.case(('tbl', lines2[li], ag['age'], ag['sex']), True, sample=dict(kind='Deaths table lookup', age=ag['age'], sex=ag['sex'], year=year, bin=bi, model=out2[li]))
        ctx.count('cmp_deaths_table')
        if isinstance(m, str) or not close(m, fr(ag['p']), 2.0 ** -21, 1e-300):
            ctx.broke('correspondence', 'C16.deaths_table', f"Deaths table form: agent age {ag['age']} sex {ag['sex']} got probability {ag['p']!r}; model: year {year}, "
                      f"age bin {bi}, rate {rate} -> {out2[li]}", data=dict(cfg=tc['cfg'], table=tc['df'], agent=ag))
            return


table_checks = []


def correspond(ctx):
    correspond_round1(ctx)
    from harness.props import c16_round2 as r2
    r2.correspond(ctx, sys.modules[__name__])
    from harness.props import c16_round3 as r3
    r3.correspond(ctx, sys.modules[__name__])
    from harness.props import c16_round4 as r4
    r4.correspond(ctx, sys.modules[__name__])
    from harness.props import c16_round5 as r5
    r5.correspond(ctx, sys.modules[__name__])
    from harness.props import c16_round6 as r6
    r6.correspond(ctx, sys.modules[__name__])


def delivery_prob(su, sdt, dur, P):
    import starsim as ss
    class C16RD(ss.RoutineDelivery):
        def step(self): pass
    kw = dict(prob=P)
    if su != 'year': kw.update(start_year=2000, end_year=2001)
    sim = ss.Sim(n_agents=20, unit=su, dt=sdt, dur=max(dur, {'day': 400, 'week': 60, 'month': 14}.get(su, 2)), interventions=C16RD(**kw), verbose=0)
    sim.init()
    return float(sim.interventions[0].prob[0])


# ---------------------------------------------------------------------------
# oracle on the real code

def dt_year_exact(unit, dt):
    L = c06.live_units()
    return fr(dt) * L[unit] / L['year']


def F(sig, what):
    return dict(signature=sig, what=what)


def o_hazard(a):
    """ per-step probability = rate (per year, per rate_units) x step length in years """
    import starsim as ss
    su, sdt, dur = a['sim'][:3]; start = a['sim'][3] if len(a['sim']) > 3 else None; kind = a['kind']; form = a['form']
    ru = a.get('ru', 1e-3); rel = a.get('rel', 1)
    extra = {'births': dict(rate_units=ru, rel_birth=rel), 'deaths': dict(rate_units=ru, rel_death=rel)}[kind]
    rate = ss.rate(a['v'], unit=a.get('runit', 'year')) if form == 'timepar' and a.get('v') is not None else None
    sim, m = build(kind, su, sdt, dur, a['mod'], rate, extra, start=start)
    if form == 'number':
        if kind == 'births': m.pars.birth_rate = a['v']
        else: m.death_rate_data = a['v']
    p = births_prob(m) if kind == 'births' else ss.Deaths.make_death_prob_fn(m, sim, sim.people.auids)
    p = float(np.atleast_1d(np.asarray(p, dtype=float))[0])
    v = 20 if a.get('v') is None else a['v']
    L = c06.live_units()
    per_year = fr(v) * (L['year'] / L[a.get('runit', 'year')]) if form == 'timepar' else fr(v)
    step = dt_year_exact(m.t.unit, m.t.dt)
    raw = per_year * fr(ru) * fr(rel) * step
    want = min(max(raw, 0), 1)
    if close(want, fr(p), 32 * U): return []
    law = 'dt-squared' if close(min(max(raw * fr(m.t.dt), 0), 1), fr(p), 32 * U) else 'other'
    return [F(dict(oracle='per-step-hazard', process=kind, form=form, law=law),
              f"{kind} with a {form} rate {v}/{a.get('runit', 'year')} (x{ru} x{rel}) in a module stepping {m.t.dt} {m.t.unit}: per-step probability {p!r}, "
              f"but rate x step length = {float(want)!r}" + (' (the step length was applied twice)' if law == 'dt-squared' else ''))]


def o_fertility(a):
    import starsim as ss
    su, sdt, dur = a['sim'][:3]
    sim, pg = build('preg', su, sdt, dur, a['mod'], a['v'], dict(rate_units=a.get('ru', 1e-3)), n_agents=80, start=a['sim'][3] if len(a['sim']) > 3 else None)
    ppl = sim.people; uids = ppl.female.uids
    pr = ss.Pregnancy.make_fertility_prob_fn(pg, sim, uids)
    ages = np.array(ppl.age[uids])
    step = dt_year_exact(pg.t.unit, pg.t.dt)
    out = []
    for k in range(len(uids)):
        elig = pg.pars.min_age <= ages[k] <= pg.pars.max_age
        want = min(max(fr(a['v']) * fr(a.get('ru', 1e-3)) * step, 0), 1) if elig else Fr(0)
        if not close(want, fr(pr[k]), 2.0 ** -21, 1e-300):
            out.append(F(dict(oracle='per-step-hazard', process='fertility', form='number', law='other'),
                         f"fertility rate {a['v']} in a module stepping {pg.t.dt} {pg.t.unit}: woman aged {ages[k]:.2f} has conception probability {pr[k]!r}, expected {float(want)!r}"))
            break
    return out


def o_table(a):
    """ table-driven death rates: the entry of the agent's age bin (last start <= age), sex and nearest year, x step length in years """
    import starsim as ss, pandas as pd
    su, sdt, dur = a['sim']; ru = a.get('ru', 1e-3); rel = a.get('rel', 1)
    df = pd.DataFrame(a['table'])
    sim, d = build('deaths', su, sdt, dur, a['mod'], df, dict(rate_units=ru, rel_death=rel))
    ppl = sim.people
    if a.get('ti') is not None:
        if a['ti'] >= d.t.npts: return []
        from harness.props import c16_round2 as r2
        r2.set_ti(sim, d, a['ti'])
    probs = np.asarray(ss.Deaths.make_death_prob_fn(d, sim, ppl.auids), dtype=float)
    ages = np.array(ppl.age[ppl.auids], dtype=float); fem = np.array(ppl.female[ppl.auids])
    now = float(sim.t.now('year'))
    years = sorted(set(a['table']['Time']))
    year = min(years, key=lambda y: (abs(y - now), years.index(y)))
    step = dt_year_exact(d.t.unit, d.t.dt)
    cell = {(y, s_, g): v for y, s_, g, v in zip(a['table']['Time'], a['table']['Sex'], a['table']['AgeGrpStart'], a['table']['mx'])}
    starts = sorted(set(a['table']['AgeGrpStart']))
    for k in range(len(ages)):
        below = [g for g in starts if g <= ages[k]]
        rate = cell[(year, 'Female' if fem[k] else 'Male', below[-1])] if below else 0.0
        want = min(max(fr(np.float32(rate)) * fr(ru) * fr(rel) * step, 0), 1)
        if not close(want, fr(probs[k]), 2.0 ** -20, 1e-300):
            return [F(dict(oracle='table-lookup', process='deaths', sex='f' if fem[k] else 'm'),
                      f"death-rate table (years {years}, age starts {starts}): agent aged {ages[k]:.3f}, {'female' if fem[k] else 'male'}, at {now:.2f} gets per-step probability "
                      f"{probs[k]!r}; the entry for year {year}, age bin {below[-1] if below else '-inf'} is {rate} -> expected {float(want)!r}")]
    return []


def o_coverage(a):
    su, sdt, dur = a['sim']; P = a['P']
    prob = delivery_prob(su, sdt, dur, P)
    e = dt_year_exact(su, sdt)
    ref = 1 - (1 - c06.D(P)) ** c06.D(e)
    if abs(c06.D(prob) - ref) <= Dm(1e-13): return []
    raw = 1 - (1 - c06.D(P)) ** c06.D(sdt)
    law = 'raw-dt-exponent' if abs(c06.D(prob) - raw) <= Dm(1e-13) else 'other'
    return [F(dict(oracle='coverage-conversion', sim_unit_is_year=su == 'year', law=law),
              f"RoutineDelivery(prob={P}, annual) in a sim stepping {sdt} {su}: per-step probability {prob!r}, but 1-(1-P)^(step in years) = {float(ref)!r}")]


def o_ageing(a):
    import starsim as ss
    su, sdt, dur = a['sim']
    sim = ss.Sim(n_agents=30, unit=su, dt=sdt, dur=dur, use_aging=True, verbose=0); sim.init()
    ppl = sim.people
    a0 = np.array(ppl.age[ppl.auids], dtype=np.float64)
    n = a['steps']
    for _ in range(n): ppl.update_post()
    a1 = np.array(ppl.age[ppl.auids], dtype=np.float64)
    want = float(n * dt_year_exact(su, sdt))
    err = np.abs((a1 - a0) - want)
    if (err > 2.0 ** -20 * n * (np.abs(a1) + 1)).any():
        return [F(dict(oracle='ageing'), f"{n} sim steps of {sdt} {su} aged the agents by {float((a1 - a0)[0])!r} years instead of {want!r}")]
    return []


def o_net_beta(a):
    import starsim as ss
    su, sdt, dur = a['sim']
    sim = ss.Sim(n_agents=60, unit=su, dt=sdt, dur=dur, networks=ss.MFNet(), diseases=ss.SIS(), verbose=0); sim.init()
    net = sim.networks[0]
    if not len(net.edges.p1): net.step()
    if not len(net.edges.p1): return []
    b = a['beta']
    got = np.asarray(net.net_beta(disease_beta=b), dtype=float)
    acts = np.asarray(net.edges.acts, dtype=float); eb = np.asarray(net.edges.beta, dtype=float)
    want = eb * (1 - (1 - b) ** (acts * float(net.t.dt)))
    if np.abs(got - want).max() > 1e-6:
        return [F(dict(oracle='net-beta'), f"MFNet.net_beta({b}) with dt={net.t.dt}: {got[:3]} but beta*(1-(1-b)^(acts*dt)) = {want[:3]}")]
    return []


def o_events(a):
    """ statistical (6 sigma): events in one year do not depend on dt """
    import starsim as ss
    kind = a['kind']; n = a.get('n', 20000); out = []
    np.random.seed(a.get('seed', 1))
    for dt in a['dts']:
        mod = ss.Deaths() if kind == 'deaths' else ss.Births()
        sim = ss.Sim(n_agents=n, unit='year', dt=dt, dur=1, demographics=mod, rand_seed=a.get('seed', 1), use_aging=False, verbose=0)
        sim.run()
        m = sim.demographics[0]
        steps = int(round(1 / dt))
        got = float(np.sum(m.results['new'][:steps]))
        want = n * 0.02
        if abs(got - want) > 6 * math.sqrt(want) + 0.02 * want:
            law = 'dt-squared' if abs(got - want * dt) <= 6 * math.sqrt(want * dt) + 0.02 * want else 'other'
            out.append(F(dict(oracle='events-per-year', process=kind, form='timepar', law=law),
                         f"[statistical] {kind} (default rate 20/1000/year, {n} agents, one year) with dt={dt}: {got:.0f} events, expected {want:.0f} +- {6 * math.sqrt(want):.0f}"))
            break
    return out


ORACLES = dict(hazard=o_hazard, table=o_table, fertility=o_fertility, coverage=o_coverage, ageing=o_ageing, net_beta=o_net_beta, events=o_events)


def _r2(name):
    def f(a):
        from harness.props import c16_round2 as r2
        return r2.ORACLES[name](a, sys.modules[__name__])
    return f


ORACLES.update({k: _r2(k) for k in ('births_series', 'deaths_times', 'fert_table', 'coverage_years', 'disease_pars', 'disease_durations', 'edges')})


def _r3(name):
    def f(a):
        from harness.props import c16_round3 as r3
        return r3.ORACLES[name](a, sys.modules[__name__])
    return f


ORACLES.update({k: _r3(k) for k in ('declared', 'builtin', 'pool', 'infect')})


def _zoo(a):
    from harness.props import c16_zoo
    return c16_zoo.o_zoo(a, sys.modules[__name__])


ORACLES['zoo'] = _zoo


def _r4(name):
    def f(a):
        from harness.props import c16_round4 as r4
        return r4.ORACLES[name](a, sys.modules[__name__])
    return f


ORACLES.update({k: _r4(k) for k in ('realised', 'axis_ageing', 'axis_run_ageing')})


def _r5(name):
    def f(a):
        from harness.props import c16_round5 as r5
        return r5.ORACLES[name](a, sys.modules[__name__])
    return f


ORACLES.update({k: _r5(k) for k in ('override', 'waning', 'kernel', 'dt_pair')})


def _r6(name):
    def f(a):
        from harness.props import c16_round6 as r6
        return r6.ORACLES[name](a, sys.modules[__name__])
    return f


ORACLES.update({k: _r6(k) for k in ('frac_table', 'frac_births', 'frac_fert', 'table_run')})


def run_oracle(ctx, name, args):
    try:
        fails = ORACLES[name](args)
    except Exception as e:
        ctx.count('oracle_rejected_' + name + '_' + type(e).__name__)
        return []
    ctx.count('oracle_' + name)
    for f in fails:
        ctx.fail(f['signature'], f['what'], dict(oracle=name, args=args))
    return fails


def search(ctx):
    rng = ctx.rng
    n = ctx.budget(10, 40)
    for k in range(n):
        su, sdt, dur = rng.choice(SIMS) if k >= 4 else SIMS[k]
        mkw = rng.choice(MODS) if k >= 4 else {}
        for kind in ('births', 'deaths'):
            run_oracle(ctx, 'hazard', dict(kind=kind, form='timepar', sim=[su, sdt, dur], mod=mkw, v=None))
            run_oracle(ctx, 'hazard', dict(kind=kind, form='timepar', sim=[su, sdt, dur], mod=mkw, v=rng.choice([5, 12.5, 40]), runit=rng.choice(['year', 'month', 'day']),
                                           ru=rng.choice([1e-3, 1]) if kind == 'births' else 1e-3, rel=rng.choice([1, 0.5])))
            run_oracle(ctx, 'hazard', dict(kind=kind, form='number', sim=[su, sdt, dur], mod=mkw, v=rng.choice([25.0, 10, 1200]), rel=rng.choice([1, 2])))
        run_oracle(ctx, 'table', dict(sim=[su, sdt, dur], mod=mkw, table=death_table(rng).to_dict(orient='list'), ru=rng.choice([1e-3, 1]), rel=rng.choice([1, 0.5])))
        run_oracle(ctx, 'fertility', dict(sim=[su, sdt, dur], mod=mkw, v=rng.choice([80, 150, 20.5])))
        run_oracle(ctx, 'coverage', dict(sim=[su, sdt, dur], P=rng.choice([0.3, 0.05, 0.9])))
        L = c06.live_units()
        steps = max(1, int(L['year'] / (fr(sdt) * L[su])))
        run_oracle(ctx, 'ageing', dict(sim=[su, sdt, dur], steps=min(steps, 400)))
    for su, sdt, dur in [('year', 1.0, 3), ('year', 0.5, 3), ('year', 0.1, 2)] + ([('day', 1, 100), ('week', 1, 30)] if ctx.thorough or ctx.broken else []):
        run_oracle(ctx, 'net_beta', dict(sim=[su, sdt, dur], beta=rng.choice([0.1, 0.05, 0.5])))
    from harness.props import c16_round2 as r2
    r2.search(ctx, sys.modules[__name__], run_oracle)
    from harness.props import c16_round3 as r3
    r3.search(ctx, sys.modules[__name__], run_oracle)
    from harness.props import c16_round4 as r4
    r4.search(ctx, sys.modules[__name__], run_oracle)
    from harness.props import c16_round5 as r5
    r5.search(ctx, sys.modules[__name__], run_oracle)
    from harness.props import c16_round6 as r6
    r6.search(ctx, sys.modules[__name__], run_oracle)
    from harness.props import c16_zoo
    c16_zoo.search(ctx, sys.modules[__name__])
    run_oracle(ctx, 'events', dict(kind='births', dts=[1.0, 0.5, 0.2], seed=rng.randint(1, 10 ** 6)))
    run_oracle(ctx, 'events', dict(kind='deaths', dts=[0.5], seed=rng.randint(1, 10 ** 6)))
    for k in ctx.known:
        r = k.get('replay')
        if r and r.get('oracle') in ORACLES:
            run_oracle(ctx, r['oracle'], r['args'])


def replay(ctx, data):
    name = data.get('oracle')
    if name in ORACLES:
        try:
            return bool(ORACLES[name](data['args']))
        except Exception:
            return True
    return False
