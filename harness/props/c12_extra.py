"""
C12 helper module (round 2): boundary inputs for the real transmission kernel and Bernoulli filter, the fixed
"always exercised" scenario families, and the float32 subprocess runner.  Imported by harness/props/c12.py.
"""
import json, os, subprocess, sys
import numpy as np


# ---------------------------------------------------------------------------
# boundary inputs: r == p exactly, one ulp either side, and p == 0 with r == 0

def boundary_edges():
    """ Edge arrays for a direct call of Infection.compute_transmission.  All products are exact in float32/float64
        (dyadic values), so `p` below is the number the code computes, bit for bit. """
    rt = np.array([0.0, 1.0, 0.5, 2.0, 0.75, 1.0], dtype=np.float32)   # indexed by uid
    rs = np.array([1.0, 0.0, 0.5, 0.25, 1.0, 1.0], dtype=np.float32)
    src = []; trg = []; b = []; r = []
    for s in range(len(rt)):
        for t in range(len(rs)):
            if s == t: continue
            for beta in (0.0, 0.125, 0.5, 1.0):
                p = float(rt[s]) * float(rs[t]) * beta
                cand = [p, 0.0, float(np.nextafter(p, 2.0))]
                if p > 0: cand.append(float(np.nextafter(p, -1.0)))
                for x in cand:
                    if 0.0 <= x <= 1.0:
                        src.append(s); trg.append(t); b.append(beta); r.append(x)
    return dict(rt=rt, rs=rs, src=np.array(src), trg=np.array(trg), b=np.array(b, dtype=np.float64), r=np.array(r, dtype=np.float64))


def oracle_boundary():
    """ The real kernel and the real Bernoulli acceptance on boundary inputs: transmission iff r < p strictly; in
        particular an edge with probability exactly 0 never transmits, whatever the random number. """
    import starsim as ss, sciris as sc
    fails = []
    e = boundary_edges()
    t_out, s_out = ss.Infection.compute_transmission(ss.uids(e['src']), ss.uids(e['trg']), e['rt'], e['rs'], e['b'], e['r'])
    p = e['rt'][e['src']].astype(np.float64) * e['rs'][e['trg']].astype(np.float64) * e['b']
    want = e['r'] < p
    got_pairs = list(zip(np.asarray(t_out).tolist(), np.asarray(s_out).tolist()))
    want_pairs = list(zip(e['trg'][want].tolist(), e['src'][want].tolist()))
    if got_pairs != want_pairs:
        # describe the first differing edge
        got_mask = np.zeros(len(p), bool)
        # recover the code's mask by matching counts per (t, s, position): simplest is to recompute with both strictnesses
        ge = e['r'] <= p
        what = 'compute_transmission on boundary inputs: '
        zero = (p == 0) & (e['r'] == 0)
        if got_pairs == list(zip(e['trg'][ge].tolist(), e['src'][ge].tolist())):
            j = int(np.nonzero(zero)[0][0]) if zero.any() else int(np.nonzero(ge & ~want)[0][0])
            what += (f'edge {int(e["src"][j])}->{int(e["trg"][j])} with rel_trans {float(e["rt"][e["src"][j]])}, rel_sus {float(e["rs"][e["trg"][j]])}, '
                     f'beta_per_dt {float(e["b"][j])} (probability {p[j]!r}) transmits at random number {e["r"][j]!r}: a zero-probability / tied edge must not transmit')
        else:
            what += f'{len(got_pairs)} transmissions, expected {len(want_pairs)} (r < p strictly)'
        fails.append(dict(signature=dict(oracle='kernel-boundary'), what=what))
    # Bernoulli acceptance used by MixingPool.step (ppf on supplied uniforms)
    pp = np.array([0.0, 0.0, 0.25, 0.25, 0.25, 1.0, 1.0], dtype=np.float64)
    rr = np.array([0.0, 0.5, 0.25, float(np.nextafter(0.25, 0)), float(np.nextafter(0.25, 1)), 0.0, float(np.nextafter(1.0, 0))])
    fake = sc.objdict(_pars=sc.objdict(p=pp))
    acc = np.asarray(ss.bernoulli.ppf(fake, rr)).astype(bool)
    if not np.array_equal(acc, rr < pp):
        j = int(np.nonzero(acc != (rr < pp))[0][0])
        fails.append(dict(signature=dict(oracle='bernoulli-boundary'),
                          what=f'bernoulli.ppf accepts={bool(acc[j])} for uniform {rr[j]!r} at probability {pp[j]!r} (expected r < p strictly: probability 0 never accepts)'))
    return fails


# ---------------------------------------------------------------------------
# fixed scenario families (every quick run exercises each of them once in correspond() and once in search())

def _b(v, tp=False):
    return dict(v=float(v), tp=bool(tp))


def fixed_scenarios(seed):
    s = int(seed)
    out = []
    # 1. prenatal / postnatal networks with pregnancy, congenital split, aliased dict keys in non-network order, logging
    out.append(dict(family='prepost', n_agents=150, rand_seed=2000 + s, dt=0.25, npts=9,
                    networks=[dict(type='random', n_contacts=2, dur=0), dict(type='prenatal'), dict(type='postnatal')],
                    demographics=[dict(type='pregnancy', fertility_rate=350, burnin=True), dict(type='deaths', death_rate=15)],
                    diseases=[dict(type=['hiv', 'syphilis', 'sis'][s % 3], init_prev=0.5, log=True,
                                   beta=dict(kind='dict', entries={'PostnatalNet': [_b(0.9), _b(0)], 'random': [_b(0.05), _b(0.02)],
                                                                   'PRENATAL': [_b(0.95, s % 2 == 0), _b(0)]})),
                              dict(type='sir', init_prev=0.3, log=True,
                                   beta=dict(kind='dict', entries={'prenatalnet': [_b(0), _b(0.8)], 'postnatal': _b(0.6), 'RandomNet': _b(0.0)}))],
                    rel=dict(seed=31 + s, p_zero=0.15, edge_beta=False)))
    # 2. MixingPools (plural, age groups) + a MixingPool shared by two diseases (one p_acquire dist), deaths, logging
    out.append(dict(family='pools2', n_agents=110, rand_seed=2100 + s, dt=1.0, npts=6,
                    networks=[dict(type='pools', beta=0.6, contacts=[[2.4, 0.5], [0.9, 0.2]], split=30),
                              dict(type='pool', src='uids_lo', dst='all', beta=0.5, timepar=True, contacts=2, n_agents=110)],
                    demographics=[dict(type='deaths', death_rate=40)],
                    diseases=[dict(type='sis', init_prev=0.3, log=True, beta=dict(kind='scalar', v=0.0, tp=False)),
                              dict(type='sir', init_prev=0.2, log=True, beta=dict(kind='scalar', v=0.0, tp=False))],
                    rel=dict(seed=41 + s, p_zero=0.3, edge_beta=False)))
    # 3. everybody who is infectious has rel_trans 0 (suppressive therapy) on pool + network routes: nothing may cross
    out.append(dict(family='suppressed', n_agents=100, rand_seed=2200 + s, dt=1.0, npts=5,
                    networks=[dict(type='pool', src='all', dst='all', beta=1.0, timepar=False, contacts=3, n_agents=100),
                              dict(type='random', n_contacts=4, dur=0)],
                    demographics=[],
                    diseases=[dict(type='sis', init_prev=0.4, log=True, beta=dict(kind='scalar', v=0.9, tp=False))],
                    rel=dict(seed=51 + s, p_zero=0.0, edge_beta=False, suppress='infectious')))
    # 4. a disease and a network on their own (coarser) timelines, TimePar betas
    out.append(dict(family='owndt', n_agents=90, rand_seed=2300 + s, dt=0.25, npts=8,
                    networks=[dict(type='random', n_contacts=3, dur=0), dict(type='mf', duration=2, dt=0.5)],
                    demographics=[dict(type='deaths', death_rate=20)],
                    diseases=[dict(type='sis', init_prev=0.3, dt=0.5, beta=dict(kind='dict', entries={'mf': [_b(0.4, True), _b(0.2, True)], 'random': _b(0.3, True)})),
                              dict(type='sir', init_prev=0.2, beta=dict(kind='scalar', v=0.2, tp=True))],
                    rel=None))
    # 5. ErdosRenyi / Disk networks with births and deaths (edges by uid since the C14 fix), three networks, shuffled alias keys
    out.append(dict(family='erdosdisk', n_agents=100, rand_seed=2400 + s, dt=1.0, npts=6,
                    networks=[dict(type='erdosrenyi', p=0.04), dict(type='disk', r=0.15, v=0.1), dict(type='static', n_contacts=2)],
                    demographics=[dict(type='births', birth_rate=40), dict(type='deaths', death_rate=50)],
                    diseases=[dict(type='sis', init_prev=0.3, log=True,
                                   beta=dict(kind='dict', entries={'StaticNet': [_b(0), _b(0.5)], 'DISK': [_b(0.4), _b(0)], 'erdosrenyinet': _b(0.2)}))],
                    rel=dict(seed=61 + s, p_zero=0.2, edge_beta=True)))
    # 6. diseases whose set_prognoses does not call the base class, with logging on (recorded findings: nothing is logged)
    out.append(dict(family='nolog', n_agents=80, rand_seed=2500 + s, dt=1.0, npts=3,
                    networks=[dict(type='random', n_contacts=4, dur=0), dict(type='hub', hubs=4, n_agents=80)], demographics=[],
                    diseases=[dict(type='ebola', init_prev=0.3, log=True, beta=dict(kind='scalar', v=0.5, tp=False)),
                              dict(type='syphilis', init_prev=0.3, log=True, beta=dict(kind='dict', entries={'STATIC': [_b(0), _b(0.9)], 'random': _b(0.3)}))],
                    rel=None))
    # 8. sexual networks with low-frequency acts: partnerships without any act (acts == 0) and with fewer than one act per step
    #    (Poisson(1) acts a year at dt 1 and 0.25; default 80 acts a year at daily steps), high betas, weights with zeros
    out.append(dict(family='lowacts', n_agents=140, rand_seed=2700 + s, dt=[1.0, 0.25][s % 2], npts=6,
                    networks=[dict(type='mf', duration=4, acts=[1.0, 2.0][s % 2]), dict(type='msm', duration=3, acts=[0.5, 3.0][(s // 2) % 2])],
                    demographics=[],
                    diseases=[dict(type=['sis', 'hiv', 'gonorrhea'][s % 3], init_prev=0.4,
                                   beta=dict(kind='dict', entries={'mf': [_b(0.95), _b(0.8, True)], 'MSM': _b(0.9)}))],
                    rel=dict(seed=81 + s, p_zero=0.1, edge_beta=True)))
    out.append(dict(family='lowacts', n_agents=140, rand_seed=2750 + s, dt=[1 / 365, 1 / 52][s % 2], npts=6,
                    networks=[dict(type=['mf', 'embedding'][s % 2], duration=4, acts=[None, 12.0][(s // 2) % 2])],
                    demographics=[],
                    diseases=[dict(type='sis', init_prev=0.5, beta=dict(kind='scalar', v=1.0, tp=False))],
                    rel=None))
    # 7. age-band pools (AgeGroup objects of every cache setting, separate and shared) over births, deaths and fast ageing
    from harness.props import c12_groups
    out.append(c12_groups.ageband_cfg(s, 0))
    # 9. (round 5) the plural container over EVERY kind of group selector a single pool accepts — explicit uid lists, callables,
    #    None, AgeGroup objects — under heavy mortality, with a disease that keeps its flags on death (SIS) and one that clears
    #    them (SIR): each sub-pool's groups must be the groups its parameters denote on the population of the step
    out.append(poolsmix_cfg(s, 0))
    # 10. (round 5) transmissibilities given as exactly 0 by a plain number on every kind of route (networks, a pool, the plural
    #     container) next to positive ones, and changed DURING the run through the public handles (`*=`, `/=`, `.set`, `pars.update`)
    #     incl. to exactly 0: the beta in force must be the one the user's configuration and actions denote
    out.append(betazero_cfg(s, 0))
    out.append(betasched_cfg(s, 0))
    # 11. (round 6) explicit uid groups listed in ANY order (descending, shuffled, interleaved) with very heterogeneous acquisition
    #     inside the destination group (rel_sus 0 for 40%, infected / recovered members): every quantity computed per member
    #     of a group must stay attached to THAT member through the Bernoulli filter
    out.append(poolorder_cfg(s, 0))
    # 12. (round 6) groups given by callables returning a BoolArr (the documented style), incl. groups that have no member at
    #     all or run empty during the run (infants without births): no infectious source member -> no infection
    out.append(poolbool_cfg(s, 0))
    return out


def poolorder_cfg(seed, variant=0):
    s = int(seed) + int(variant)
    n = 100
    o = ['desc', 'shuf', 'ilv']
    nets = [dict(type='pool', name='ordpool', src='uids_lo_' + o[s % 3], dst='uids_hi_' + o[(s + 1) % 3], beta=0.9, timepar=bool(s % 2), contacts=3, n_agents=n),
            dict(type='pool', name='ordpool2', src='all', dst='uids_mid_' + o[(s + 2) % 3], beta=0.7, timepar=False, contacts=2, n_agents=n),
            dict(type='pools', beta=0.8, n_agents=n, contacts=[[2.0, 1.0], [0.5, 1.5]],
                 src_groups=[['a', 'uids_lo_' + o[(s + 1) % 3]], ['b', 'female']], dst_groups=[['c', 'uids_hi_' + o[s % 3]], ['d', 'uids_mid_' + o[(s + 1) % 3]]])]
    if variant % 2:
        nets = nets[::-1]
    return dict(family='poolorder', n_agents=n, rand_seed=3100 + s, dt=1.0, npts=6, networks=nets,
                demographics=[] if s % 3 else [dict(type='deaths', death_rate=30)],     # a removal re-sorts an explicit list (uids.remove): both regimes
                diseases=[dict(type='sis', init_prev=0.4, log=True, beta=dict(kind='scalar', v=0.0, tp=False)),
                          dict(type='sir', init_prev=0.3, beta=dict(kind='scalar', v=0.0, tp=False))],
                rel=dict(seed=111 + s, p_zero=0.4, edge_beta=False))


def poolbool_cfg(seed, variant=0):
    s = int(seed) + int(variant)
    n = 100
    nets = [dict(type='pool', name='bpool', src='b_female', dst='b_male', beta=0.8, timepar=bool(s % 2), contacts=2, n_agents=n),
            dict(type='pool', name='emptysrc', src=['b_nobody', 'nobody'][s % 2], dst=['all', 'b_under30'][s % 2], beta=1.0, timepar=False, contacts=3, n_agents=n),
            dict(type='pool', name='infants', src='b_infants', dst=['b_over30', 'all'][s % 2], beta=1.0, timepar=False, contacts=3, n_agents=n),
            dict(type='pools', beta=0.9, n_agents=n, contacts=[[2.0, 1.0], [1.0, 2.0]],
                 src_groups=[['w', 'b_female'], ['none', 'b_nobody']], dst_groups=[['young', 'b_under30'], ['old', 'b_over30']])]
    if variant % 2:
        nets = nets[::-1]
    return dict(family='poolbool', n_agents=n, rand_seed=3200 + s, dt=1.0, npts=5, networks=nets,
                demographics=[dict(type='deaths', death_rate=20)] if s % 2 else [],
                diseases=[dict(type='sis', init_prev=0.4, log=True, beta=dict(kind='scalar', v=0.0, tp=False)),
                          dict(type='sir', init_prev=0.3, beta=dict(kind='scalar', v=0.0, tp=False))],
                rel=dict(seed=121 + s, p_zero=0.3, edge_beta=False))


def poolsmix_cfg(seed, variant=0):
    s = int(seed) + int(variant)
    n = 120
    src = [['lo', 'uids_lo'], ['women', 'female'], ['kids', dict(age=[0, 15], do_cache=[None, True, False][s % 3])], ['mid', 'uids_mid']]
    dst = [['hi', 'uids_hi'], ['everybody', 'all'], ['mid', 'uids_mid'], ['adults', dict(age=[15, None], do_cache=[False, None, True][s % 3])]]
    if variant % 2:
        src, dst = dst[:3], src[:3]
    contacts = [[[2.0, 1.0, 1.5, 0.5][(i + j + s) % 4] for j in range(len(dst))] for i in range(len(src))]
    return dict(family='poolsmix', n_agents=n, rand_seed=2800 + s, dt=1.0, npts=8,
                networks=[dict(type='pools', beta=[0.9, 0.6][s % 2], contacts=contacts, src_groups=src, dst_groups=dst, n_agents=n)],
                demographics=[dict(type='deaths', death_rate=[250, 180][s % 2])] + ([dict(type='births', birth_rate=40)] if s % 3 == 0 else []),
                diseases=[dict(type='sis', init_prev=0.5, log=True, beta=dict(kind='scalar', v=0.0, tp=False)),
                          dict(type='sir', init_prev=0.3, beta=dict(kind='scalar', v=0.0, tp=False))],
                rel=None if s % 2 else dict(seed=91 + s, p_zero=0.1, edge_beta=False))


def betazero_cfg(seed, variant=0):
    s = int(seed) + int(variant)
    n = 110
    z = s % 3      # which of the routes carry a positive transmissibility besides the zeros
    nets = [dict(type='random', n_contacts=4, dur=0), dict(type='static', n_contacts=3), dict(type='mf', duration=3),
            dict(type='pool', src='all', dst='all', beta=0.0 if z != 0 else 0.7, timepar=False, contacts=3, n_agents=n, name='zpool'),
            dict(type='pools', beta=0.0 if z != 1 else 0.8, contacts=[[2.0, 1.0], [1.0, 2.0]], split=30)]
    return dict(family='betazero', n_agents=n, rand_seed=2900 + s, dt=[1.0, 0.5, 0.25][s % 3], npts=5, networks=nets,
                demographics=[dict(type='deaths', death_rate=20)] if s % 2 else [],
                diseases=[dict(type=['sis', 'sir', 'hiv', 'gonorrhea'][s % 4], init_prev=0.4, log=True, beta=dict(kind='scalar', v=0.0, tp=False)),
                          dict(type=['measles', 'cholera', 'ebola', 'syphilis'][s % 4], init_prev=0.3,
                               beta=dict(kind='scalar', v=[0.0, 0.3, 1.0][z], tp=False))],
                rel=dict(seed=101 + s, p_zero=0.0, edge_beta=False))


def betasched_cfg(seed, variant=0):
    s = int(seed) + int(variant)
    n = 110
    ops = ['imul', 'set', 'update', 'mul', 'idiv']
    sched = [dict(ti=1, disease=0, op=ops[s % 5] if ops[s % 5] != 'idiv' else 'imul', x=0.5),
             dict(ti=2, disease=1, op=['imul', 'set', 'update', 'mul'][(s + 1) % 4], x=0.0),
             dict(ti=3, disease=0, op=['set', 'imul', 'mul', 'update'][s % 4], x=0.0),
             dict(ti=3, route=2, op=['imul', 'set'][s % 2], x=0.0),
             dict(ti=4, disease=1, op='set', x=0.8),
             dict(ti=5, disease=0, op=['update', 'set'][s % 2], x=0.25),
             dict(ti=5, route=2, op='set', x=0.5)]
    d1beta = (dict(kind='scalar', v=0.7, tp=True) if s % 2 else
              dict(kind='dict', entries={'random': [dict(v=0.5, tp=True), dict(v=0.9, tp=True)], 'STATIC': dict(v=0.6, tp=True), 'mixingpool': dict(v=0.0, tp=False)}))
    return dict(family='betasched', n_agents=n, rand_seed=3000 + s, dt=[0.5, 1.0][s % 2], npts=8,
                networks=[dict(type='random', n_contacts=4, dur=0), dict(type='static', n_contacts=3),
                          dict(type='pool', src='all', dst='all', beta=0.6, timepar=bool(s % 2), contacts=2, n_agents=n)],
                demographics=[],
                diseases=[dict(type='sis', init_prev=0.3, beta=dict(kind='scalar', v=0.8, tp=bool((s // 2) % 2))),
                          dict(type='sir', init_prev=0.2, beta=d1beta)],
                rel=None, beta_sched=sched)


# ---------------------------------------------------------------------------
# precision switch: the same oracle in a fresh interpreter with the other arithmetic precision

def run_precision(cfgs, precision, timeout=900):
    """ oracle_run over cfgs in a subprocess with STARSIM_PRECISION / ss.options(precision=...) set.
        Returns ([dict(fails, events, dtype)], None) or (None, error text) """
    env = dict(os.environ, STARSIM_PRECISION=str(precision))
    code = ('import sys, json\n'
            'import starsim as ss\n'
            f'ss.options(precision={int(precision)})\n'
            'from harness.props import c12\n'
            'cfgs = json.load(sys.stdin); out = []\n'
            'for cfg in cfgs:\n'
            '    fails, R = c12.oracle_run(cfg)\n'
            '    dt = str(R.infects[0]["calls"][0]["rt"].dtype) if R.infects and R.infects[0]["calls"] else str(ss.dtypes.float)\n'
            '    out.append(dict(fails=fails, events=sum(len(r["out"][0]) for r in R.infects), dtype=dt))\n'
            'print("@@" + json.dumps(out, default=str))\n')
    p = subprocess.run([sys.executable, '-W', 'ignore', '-c', code], input=json.dumps(cfgs), capture_output=True, text=True, env=env, timeout=timeout)
    for line in p.stdout.split('\n'):
        if line.startswith('@@'):
            return json.loads(line[2:]), None
    return None, (p.stderr or p.stdout)[-800:]
