"""
C20 — Interventions reach only eligible agents, on schedule, within capacity.

correspond(): generated intervention cases (routine/campaign x vaccination/screening/triage, treat_num with and without a
              screening stage) are run on the REAL starsim with a probing subclass that snapshots the delivery records
              before and after every `step`; the same schedule parameters, per-step eligibility, active uids and the
              reference uniform variates (taken from NumPy directly) are piped through Model/Intervention.lean, which
              predicts time points, per-step probabilities, recipients, records, queue, outcomes and state changes.
search():     the property itself on the real code only (no model): recipients within eligible and active agents, delivery only
              inside the configured window / at the campaign points, acceptance = reference draw below the configured
              per-step coverage, treated <= capacity and from the head of the queue, non-recipients untouched, product
              effects as the table says, no infection of fully protected recipients.
Round 3:      every run (both stages) includes I.fixed_cases_r3() and random cases from I.gen_case_r3(): eligibility rules whose
              answer changes from step to step while agents wait in a capacity-limited queue; the recipients of a step are
              compared with the rule evaluated independently ON THAT STEP (probe snapshot before the step).
"""
import math, json, numpy as np
from fractions import Fraction
from harness.props import c20_impl as I
from harness.props.c20_impl import frac, fr_s, lst, STATES, all_states, state_code, flag_key, diseases_of

PROP = 'C20'
GENERATED = ['DeliveryConsts']
DRIVER = 'Drivers/C20.lean'
DRIVER_MODULES = ['StarsimModel.Model.Intervention', 'StarsimModel.Model.Proto']
RULE = ('cases = (kind in vx/screen/triage/treat) x (routine/campaign) x sim (dt in 0.1..2, 40-90 agents, SIR/SIS, optional deaths) x '
        'window / years / coverage vector (valid and rejected) x eligibility rule (None, BoolArr, uids; state- and STEP-dependent: closing enrolment, '
        'alternate steps, rotating / shrinking cohorts, this step\'s screened agents, with a capacity backlog) x product (leaky / all-or-nothing / inert vaccine, '
        'Dx and Tx tables, capacity); every step of the run is one compared operation. distinct = distinct canonical protocol lines of the case; '
        'non-trivial = at least one step delivered to at least one agent or the schedule was rejected')
TRUSTED = ['NumPy Generator.random is prefix-stable and a copied PCG64 state reproduces the stream (used to predict which eligible agents accept)',
           'np.interp / np.arange / np.argmin / sc.findinds(isclose) as used by RoutineDelivery/CampaignDelivery (modelled exactly over Rat; isclose modelled as equality, valid for dt > 0.03)']
ASSUMPTIONS = ['the simulation year grid is start + i*dt (C07); eligibility rules are pure functions of the sim state',
               'the IEEE pow of the driver (C library) and NumPy agree to 1e-12 on 1-(1-p)**dt; acceptance decisions closer than that to the threshold are counted as dont_care']

TOL = 1e-9


def facts_of(ctx):
    f = (ctx.extracted.get('DeliveryConsts') or {}).get('facts') or {}
    return dict(thr=f.get('adj_threshold', '1'), fine=f.get('adj_fine_sub', 1), coarse=f.get('adj_coarse', 0), vpt=f.get('vec_per_timepoint', True),
                g_screen=f.get('gate_screening_kind', 'simTi'), g_triage=f.get('gate_triage_kind', 'timeObj'),
                g_vx=f.get('gate_vaccination_kind', 'simTi'), hioff=f.get('cap_slice_offset', 0))


# ---------------------------------------------------------------------------
# protocol lines for one case

def sched_line(case, facts):
    simc = case['sim']; s = case['sched']
    g = I.grid(simc)
    if case['delivery'] == 'routine':
        ys = s.get('years')
        return ' '.join(['routine', str(facts['thr']), str(facts['fine']), str(facts['coarse']), str(int(facts['vpt'])), lst(g, fr_s), fr_s(simc['start']),
                         fr_s(Fraction(simc['start']) + Fraction(simc['dur'])),
                         'none' if ys is None else lst([frac(y) for y in ys], fr_s),
                         'none' if 'start_year' not in s else fr_s(frac(s['start_year'])),
                         'none' if 'end_year' not in s else fr_s(frac(s['end_year'])),
                         lst([frac(p) for p in s['prob']], fr_s), str(int(s.get('annual_prob', True))), fr_s(frac(simc['dt']))])
    return ' '.join(['campaign', lst(g, fr_s), lst([frac(y) for y in s['years']], fr_s), lst([frac(p) for p in s['prob']], fr_s)])


def draws_s(d, uids):
    return lst([(u, d[u]) for u in uids if u in d], lambda p: f'{p[0]}:{p[1]}')


GATE_TOKEN = dict(simTi='ti', ownTi='own', timeObj='t')


def case_lines(case, res, facts):
    """ -> (lines, expect) where expect[i] describes what to compare line i's answer with """
    kind = case['kind']; simc = case['sim']
    lines = ['reset']; exp = [('ok',)]
    gate = dict(vx=facts['g_vx'], screen=facts['g_screen'], triage=facts['g_triage']).get(kind, 'simTi')
    lines.append('gate ' + GATE_TOKEN[gate]); exp.append(('ok',))
    lines.append(f"hioff {facts['hioff']}"); exp.append(('ok',))
    lines.append(f"hascov {int(case.get('delivery') != 'campaign')}"); exp.append(('ok',))
    lines.append(f"reslen {res['own_npts'] if kind == 'screen' and res.get('own_npts') is not None else 'none'}"); exp.append(('ok',))
    if kind != 'treat':
        lines.append(sched_line(case, facts)); exp.append(('sched',))
        if res['init_err']:
            return lines, exp
    if kind in ('screen', 'triage'):
        dx = case['dx']
        lines.append(f"dx {len(dx['hierarchy'])} {lst([state_code(simc, d, st) for d, st, _ in dx['rows']])}"); exp.append(('ok',))
    if kind == 'treat':
        lines.append('clear ' + (str(state_code(simc, 'syphilis', 'infected')) if case.get('syph') else 'none')); exp.append(('ok',))
        tx = case['tx']
        lines.append('tx ' + lst(tx['rows'], lambda r: f"{state_code(simc, r[0], r[1])}:{fr_s(frac(r[2]))}:{state_code(simc, r[0], r[3])}")); exp.append(('ok',))
    prev_rs = None
    for k, e in enumerate(res['log']):
        pre = e['pre']
        for d, st in all_states(simc):
            lines.append(f"flags {state_code(simc, d, st)} {lst(pre['flags'][flag_key(d, st)])}"); exp.append(('ok',))
        ek, el = pre['elig']
        active = pre['active']
        us = sorted(set(active) | set(el if ek == 'uids' else []))
        clock = f"{pre['ti']} {pre['own_ti']}"
        if kind == 'vx':
            base = np.ones(len(pre['rs']))
            if prev_rs is not None:
                m = min(len(prev_rs), len(base)); base[:m] = prev_rs[:m]
            ch = [u for u in range(len(pre['rs'])) if abs(pre['rs'][u] - base[u]) > 1e-7]
            if ch:
                lines.append('setrs ' + lst(ch, lambda u: f"{u}:{fr_s(Fraction(float(pre['rs'][u])))}")); exp.append(('ok',))
            v = case['vaccine']
            fails = []
            if v['kind'] == 'aon' and 0 < v['efficacy'] < 1:
                # reference variates of np.random.binomial(1, 1-eff, len(accepted)) from the saved global state, by position
                ref = I.ref_binomial(pre['np_state'], 1 - v['efficacy'], len(us))
                fails = [i for i, x in enumerate(ref) if x == 1]
            lines.append(' '.join(['vx', v['kind'], fr_s(frac(v['efficacy'])), lst(fails), clock, lst(active), ek, lst(el), draws_s(pre['draws'], us)]))
            exp.append(('vx', k))
            if 'post' in e: prev_rs = e['post']['rs']
        elif kind in ('screen', 'triage'):
            picks = []
            if 'post' in e:
                hier = case['dx']['hierarchy']
                obs = {}
                for ri, name in enumerate(hier):
                    for u in e['post']['out'].get(name, []): obs[u] = ri
                aset = set(active)
                for bi, (d, st, probs) in enumerate(case['dx']['rows']):
                    inst = set(pre['flags'][flag_key(d, st)])
                    det = [i for i, p in enumerate(probs) if p == 1.0]
                    for u in (e['ret'] or []):
                        if u in inst and u in aset:
                            picks.append((bi, u, det[0] if det else obs.get(u, len(hier) - 1)))
            lines.append(' '.join([kind, clock, lst(active), ek, lst(el), draws_s(pre['draws'], us), lst(picks, lambda p: f'{p[0]}:{p[1]}:{p[2]}')]))
            exp.append((kind, k))
        else:
            nb = len(case['tx']['rows'])
            ed = I.eff_draws(pre['eff_seed'], pre['eff_ind'], nb, pre['slots'], active)
            cap = case['capacity']
            lines.append(' '.join(['treat', 'none' if cap is None else str(cap), fr_s(frac(case['treat_prob'])), lst(active), ek, lst(el),
                                   draws_s(pre['draws'], us), lst(sorted(ed.items()), lambda kv: f'{kv[0][0]}:{kv[0][1]}:{kv[1]}')]))
            exp.append(('treat', k))
    return lines, exp


def parse_kv(line):
    parts = line.split()
    out = dict(res=parts[0])
    for p in parts[1:]:
        k, v = p.split('=', 1)
        out[k] = v
    return out


def plist(s, f=int):
    return [] if s == '-' else [f(x) for x in s.split(',')]


def ppairs(s, f=int):
    return {} if s == '-' else {int(a): f(b) for a, b in (x.split(':') for x in s.split(','))}


ERRMAP = dict(ValueError='E:Value', IndexError='E:Index', TypeError='E:Type', AttributeError='E:Attr')


def near_threshold(pre, p, uids, p2=None):
    """ acceptance decisions that are within the stated tolerance of the threshold (or between the model's and the
        implementation's threshold when these agree only in the annual domain) """
    lo, hi = (p, p) if p2 is None else (min(p, p2), max(p, p2))
    return [u for u in uids if u in pre['draws'] and lo - 1e-9 < pre['draws'][u] / 2 ** 53 < hi + 1e-9]


def compare_case(ctx, case, res, lines, exp, out):
    """ first divergence between the model's answers and the observations, or None """
    kind = case['kind']; simc = case['sim']
    code2key = {state_code(simc, d, st): flag_key(d, st) for d, st in all_states(simc)}
    step_p = None; tps = None
    for i, (ln, ex, ml) in enumerate(zip(lines, exp, out)):
        def div(why, **kw):
            return dict(at=i, line=ln[:300], model=ml[:600], why=why, **kw)
        if ml == 'bad-op':
            return div('the model rejected the operation line')
        if ex[0] == 'ok':
            if ml != 'ok': return div('unexpected answer')
            continue
        if ex[0] == 'sched':
            if res['init_err']:
                if ml != ERRMAP.get(res['init_err']):
                    return div(f"init_pre raised {res['init_err']} ({res.get('init_msg')}) but the model says {ml[:80]}")
                ctx.count('sched_rejected')
                continue
            if not ml.startswith('ok'):
                return div(f'the model rejects the schedule ({ml}) but init_pre accepted it')
            m = parse_kv(ml)
            tps = plist(m['tp'])
            if tps != res['timepoints']:
                return div(f"timepoints: impl={res['timepoints']} model={tps}")
            step_p = [float(Fraction(x)) for x in plist(m['step'], str)]
            if len(step_p) != len(res['prob']):
                return div(f"len(prob): impl={len(res['prob'])} model={len(step_p)}")
            conv = m['conv'] == '1'; dt = case['sim']['dt']
            for a, b in zip(step_p, res['prob']):
                if abs(a - b) > 1e-10:
                    # the conversion 1-(1-p)**dt is ill-conditioned near p = 1 (rounding of the interpolation abscissa
                    # np.arange(...) is amplified): compare in the annual domain, where both are well-conditioned
                    if conv and abs((1 - a) ** (1 / dt) - (1 - b) ** (1 / dt)) <= 1e-10:
                        ctx.count('ill_conditioned_conversions')
                    else:
                        return div(f"per-step probabilities: impl={res['prob']} model={step_p}")
                if a != b: ctx.count('tolerance_uses')
            continue
        e = res['log'][ex[1]]
        pre = e['pre']
        if 'err' in e:
            if ml != ERRMAP.get(e['err'], 'E:?'):
                return div(f"step at ti={pre['ti']} raised {e['err']} ({e.get('msg')}) but the model says {ml[:80]}")
            ctx.count('step_error_' + e['err'])
            continue
        if not ml.startswith('ok'):
            return div(f"the model predicts {ml} at ti={pre['ti']} but the real step completed")
        m = parse_kv(ml); post = e['post']
        n = pre['n']
        if ex[0] in ('vx', 'screen', 'triage'):
            acc = sorted(plist(m['acc']))
            if acc != e['ret']:
                diff = sorted(set(acc) ^ set(e['ret'] or []))
                p = None
                if tps is not None and pre['ti'] in tps and tps.index(pre['ti']) < len(res['prob']):
                    p = res['prob'][tps.index(pre['ti'])]
                if p is not None and diff and len(near_threshold(pre, p, diff, step_p[tps.index(pre['ti'])])) == len(diff):
                    ctx.count('dont_cares'); return 'dontcare'
                return div(f"recipients at ti={pre['ti']}: impl={e['ret']} model={acc}")
        if ex[0] == 'vx':
            recs = sorted(u for u in range(n) if post['doses'][u] != pre['doses'][u])
            if recs != e['ret']:
                return div(f"ti={pre['ti']}: agents whose dose count changed {recs} differ from the returned recipients {e['ret']}")
            if sorted(plist(m['vacc'])) != post['vacc']:
                return div(f"vaccinated after ti={pre['ti']}: impl={post['vacc']} model={m['vacc']}")
            md = ppairs(m['doses'])
            od = {u: int(post['doses'][u]) for u in range(n) if post['doses'][u] != 0}
            if md != od: return div(f"n_doses after ti={pre['ti']}: impl={od} model={md}")
            mt = ppairs(m['tiv'])
            ot = {u: int(post['tiv'][u]) for u in range(n) if not math.isnan(post['tiv'][u])}
            if mt != ot: return div(f"ti_vaccinated after ti={pre['ti']}: impl={ot} model={mt}")
            mr = ppairs(m['rs'], lambda x: float(Fraction(x)))
            for u in range(n):
                a = mr.get(u, 1.0); b = float(post['rs'][u])
                if abs(a - b) > 1e-5 * max(1.0, abs(b)):
                    return div(f"rel_sus[{u}] after ti={pre['ti']}: impl={b} model={a}")
                if a != b: ctx.count('tolerance_uses')
        elif ex[0] == 'screen':
            if sorted(plist(m['screened'])) != post['screened']:
                return div(f"screened after ti={pre['ti']}: impl={post['screened']} model={m['screened']}")
            ms = ppairs(m['screens']); os_ = {u: int(post['screens'][u]) for u in range(n) if post['screens'][u] != 0}
            if ms != os_: return div(f"screens after ti={pre['ti']}: impl={os_} model={ms}")
            mt = ppairs(m['tis']); ot = {u: int(post['tis'][u]) for u in range(n) if not math.isnan(post['tis'][u])}
            if mt != ot: return div(f"ti_screened after ti={pre['ti']}: impl={ot} model={mt}")
        if ex[0] in ('screen', 'triage'):
            hier = case['dx']['hierarchy']
            mo = [sorted(plist(x)) for x in m['out'].split('|')] if m['out'] != '-' else [[] for _ in hier]
            oo = [sorted(post['out'].get(h, [])) for h in hier]
            if mo != oo:
                return div(f"outcomes after ti={pre['ti']}: impl={oo} model={mo}")
        if ex[0] == 'treat':
            treated = plist(m['treated'])
            if treated != e['ret']:
                diff = sorted(set(treated) ^ set(e['ret'] or []))
                if diff and len(near_threshold(pre, case['treat_prob'], diff)) == len(diff):
                    ctx.count('dont_cares'); return 'dontcare'
                return div(f"treated at ti={pre['ti']}: impl={e['ret']} model={treated}")
            if plist(m['queue']) != post['queue']:
                return div(f"queue after ti={pre['ti']}: impl={post['queue']} model={plist(m['queue'])}")
            if sorted(plist(m['succ'])) != post['out']['successful'] or sorted(plist(m['unsucc'])) != post['out']['unsuccessful']:
                return div(f"outcomes after ti={pre['ti']}: impl={post['out']} model succ={m['succ']} unsucc={m['unsucc']}")
            mf = {int(a): sorted(plist(b)) for a, b in (x.split('=') for x in m['flags'].split('|'))} if m.get('flags') else {}
            for si, us in mf.items():
                st = code2key[si]
                if us != post['flags'][st]:
                    return div(f"{st} after the treatment step at ti={pre['ti']}: impl={post['flags'][st]} model={us}")
    return None


def nontrivial(case, res):
    if res['init_err']: return True
    return any(e.get('ret') for e in res['log']) or bool(res['run_err'])


def runtime_crosscheck(ctx, facts):
    """ extracted constants vs the imported module """
    import starsim as ss
    class Q: pass
    q = Q(); q.queue = list(range(10)); q.max_capacity = 3
    try:
        c = ss.treat_num.get_candidates(q)
        if len(c) != 3 + facts['hioff']:
            ctx.broke('extract', 'DeliveryConsts', f"capacity slice offset extracted {facts['hioff']} but get_candidates returns {len(c)} of 10 for capacity 3")
    except Exception as e:
        ctx.broke('extract', 'DeliveryConsts', f'get_candidates on a plain object raised {type(e).__name__}: {e}')


def zoo_cases_for_model(ctx):
    """ zoo base simulations the model can follow step by step: year-unit entries on a plain numeric grid (the protocol's year grid is
        start + i*dt) whose diseases have at most 9 Boolean states (state arrays are numbered 10*disease + state) """
    from harness import zoo
    from harness.props import c20_zoo as Z
    out = []
    for k, (name, cfg) in enumerate(zoo.configs()):
        if not (cfg.get('unit', 'year') == 'year' and isinstance(cfg.get('start'), (int, float)) and float(cfg['dur'] / cfg['dt']).is_integer()):
            continue
        try:
            c = Z.probe_for(k, name, cfg)
        except Exception as e:
            ctx.count('zoo_exceptions'); ctx.notes['last_zoo_exception'] = f'{name}: {type(e).__name__}: {e}'; continue
        if isinstance(c, tuple): continue
        per = {}
        for d, st in c['sim']['zoo_states']: per[d] = per.get(d, 0) + 1
        if any(v > 9 for v in per.values()): continue
        out.append(c); ctx.count('zoo_model_runs')
    return out


def correspond(ctx):
    facts = facts_of(ctx)
    runtime_crosscheck(ctx, facts)
    ncases = ctx.budget(48, 400)
    kinds = ['vx', 'vx', 'screen', 'triage', 'treat', 'vx', 'screen', 'treat']
    all_lines = []; per = []
    cases = I.fixed_cases() + I.fixed_cases_r3() + [I.gen_case_r3(ctx.rng, kinds[k % len(kinds)]) for k in range(ncases)]
    cases += zoo_cases_for_model(ctx)
    for case in cases:
        try:
            if 'cfg' in case:
                from harness.props import c20_zoo
                res = c20_zoo.run_zoo_case(case)
            else:
                res = I.run_case(case)
        except Exception as e:
            if 'cfg' in case:
                ctx.count('zoo_exceptions'); ctx.notes['last_zoo_exception'] = f"{case.get('zoo')}: {type(e).__name__}: {e}"; continue
            ctx.broke('correspondence', 'C20.harness', f'running a generated case raised {type(e).__name__}: {e}', data=dict(case=case))
            continue
        res.pop('sim', None)
        lines, exp = case_lines(case, res, facts)
        per.append((case, res, lines, exp, len(all_lines)))
        all_lines += lines
    out = ctx.drive(DRIVER, all_lines)
    branches = {}
    for case, res, lines, exp, off in per:
        ml = out[off:off + len(lines)]
        d = compare_case(ctx, case, res, lines, exp, ml)
        key = f"{case['kind']}/{case.get('delivery')}"
        branches[key] = branches.get(key, 0) + 1
        ctx.count('steps', len(res['log'])); ctx.count('delivery_steps', sum(1 for e in res['log'] if e.get('ret')))
        ctx.case(('case', tuple(lines)), nontrivial(case, res),
                 sample=dict(case={k: v for k, v in case.items()}, steps=len(res['log']),
                             deliveries=sum(1 for e in res['log'] if e.get('ret')), init_err=res['init_err'], run_err=res['run_err']))
        if d == 'dontcare' or d is None:
            # a run that stopped with an exception must have been predicted (the error step is the last compared line)
            if res['run_err'] and not any('err' in e for e in res['log']):
                ctx.broke('correspondence', 'C20.run', f"the run raised {res['run_err']} ({res.get('run_msg')}) outside the probed step", data=dict(case=case))
            continue
        ctx.broke('correspondence', 'C20.' + case['kind'], f"{case['kind']}/{case.get('delivery')} diverges from Model/Intervention.lean: {d['why']}",
                  data=dict(case=case, divergence=d))
        if len([b for b in ctx.broken if b['kind'] == 'correspondence']) >= 4:
            break
    ctx.notes['cases_by_kind'] = branches


# ---------------------------------------------------------------------------
# oracle on the real code

def expected_step_prob(case, res, ti, dt=None):
    """ The configured per-step coverage at step ti, computed from the CASE (not from the intervention's vectors).
        None = outside the configured schedule. """
    s = case['sched']; simc = case['sim']; yv = res['yearvec']
    dt = simc['dt'] * case.get('own_dt', 1) if dt is None else dt      # the intervention's own step
    if case['delivery'] == 'campaign':
        pts = [int(np.argmin(np.abs(np.array(yv) - y))) for y in s['years']]
        if ti not in pts: return None
        probs = s['prob'] if len(s['prob']) > 1 else s['prob'] * len(pts)
        return probs[pts.index(ti)]
    sy = s['years'][0] if 'years' in s else s.get('start_year', simc['start'])
    ey = s['years'][-1] if 'years' in s else s.get('end_year', simc['start'] + simc['dur'])
    y = yv[ti]
    if not (sy - 1e-9 <= y < ey + 1 - 1e-9): return None
    probs = s['prob']
    cv = (lambda p: 1 - (1 - p) ** dt) if s.get('annual_prob', True) else (lambda p: p)
    if len(probs) == 1: return cv(probs[0])
    # interpolated coverage: the abscissa carries rounding error of order 1e-12 which the conversion can amplify near p = 1;
    # return the band of values for abscissae within 1e-9
    ps = [cv(min(1.0, max(0.0, float(np.interp(y + d, np.arange(sy, sy + len(probs)), probs))))) for d in (-1e-9, 0.0, 1e-9)]
    return (min(ps), max(ps))


def window_excess(case, res, ti):
    """ (side, steps_past) if step ti lies outside the configured window / campaign points, else None """
    s = case['sched']; simc = case['sim']; yv = res['yearvec']
    if case['delivery'] == 'campaign':
        pts = [int(np.argmin(np.abs(np.array(yv) - y))) for y in s['years']]
        return None if ti in pts else ('off-campaign', 1 if min(abs(ti - p) for p in pts) <= 1 else '2+')
    sy = s['years'][0] if 'years' in s else s.get('start_year', simc['start'])
    ey = s['years'][-1] if 'years' in s else s.get('end_year', simc['start'] + simc['dur'])
    inside = [i for i, y in enumerate(yv) if sy - 1e-9 <= y < ey + 1 - 1e-9]
    if ti in inside: return None
    if not inside: return ('empty-window', 0)
    k = inside[0] - ti if ti < inside[0] else ti - inside[-1]
    return ('before-start' if ti < inside[0] else 'after-end', k if k <= 1 else '2+')


def oracle_case(case, res=None):
    """ Evaluate C20 on one real run.  -> list of dict(signature, what, ti) """
    fails = []
    if res is None:
        if 'cfg' in case:                       # a zoo base simulation with a probed delivery (c20_zoo.py)
            from harness.props import c20_zoo
            res = c20_zoo.run_zoo_case(case)
        else:
            res = I.run_case(case)
    if res['init_err']:
        return fails
    kind = case['kind']; simc = case['sim']; dt = simc['dt']
    deliv = case.get('delivery')
    base = dict(kind=kind, delivery=deliv)
    # (derived states such as Syphilis.naive / sus_not_naive are functions of the stored ones: not separately checked)
    keys = [flag_key(d, st) for d, st in all_states(simc) if flag_key(d, st) not in ('syphilis.naive', 'syphilis.sus_not_naive')]
    own = case.get('own_dt', 1) != 1

    def fail(sig, what, ti):
        s = dict(base); s.update(sig)
        if len(fails) < 12: fails.append(dict(signature=s, what=what, ti=ti))

    protected = {}    # uid -> ti of full protection
    for e in res['log']:
        pre = e['pre']; ti = pre['ti']; active = set(pre['active'])
        ek, el = pre['elig']
        elig = set(I.elig_set(ek, el, pre['active']))
        # infections among fully protected recipients (checked at every snapshot)
        if protected:
            inf = set(pre['flags']['sir.infected'])
            bad = sorted(u for u in protected if u in inf)
            if bad:
                fail(dict(oracle='protected-infected'), f"agent(s) {bad[:5]} received a fully effective vaccine at ti={protected[bad[0]]} while susceptible and are infected at ti={ti}", ti)
                for u in bad: protected.pop(u)
        if 'err' in e:
            w = window_excess(case, res, ti) if kind != 'treat' else None
            sig = dict(oracle='crash', exc=e['err'], own_dt=own)
            if w: sig.update(side=w[0], steps_past=w[1], dt_ge_1=bool(dt >= 1))
            else: sig.update(scheduled=True)
            fail(sig, f"{kind}/{deliv} step at ti={ti} (year {res['yearvec'][ti]}) raised {e['err']}: {e.get('msg')}", ti)
            continue
        post = e['post']; rec = set(e['ret'] or [])
        n = pre['n']
        # records agree with the returned recipients
        if kind == 'vx':
            changed = {u for u in range(n) if post['doses'][u] != pre['doses'][u] or (u in post['vacc']) != (u in pre['vacc'])}
            if changed != rec:
                fail(dict(oracle='records'), f"ti={ti}: vaccination records changed for {sorted(changed ^ rec)[:6]} inconsistently with the recipients", ti)
            rec |= changed
        elif kind == 'screen':
            changed = {u for u in range(n) if post['screens'][u] != pre['screens'][u]}
            if changed != rec:
                fail(dict(oracle='records'), f"ti={ti}: screening records changed for {sorted(changed ^ rec)[:6]} inconsistently with the recipients", ti)
            rec |= changed
        if kind in ('screen', 'triage') and rec:
            listed = set(u for v in post['out'].values() for u in v)
            if listed != rec:
                fail(dict(oracle='outcomes'), f"ti={ti}: test outcomes list {sorted(listed ^ rec)[:6]} differently from the tested agents", ti)
        # recipients within eligible and active
        if rec - elig:
            fail(dict(oracle='eligible'), f"ti={ti}: {kind} delivered to {sorted(rec - elig)[:6]} who are not returned by the eligibility rule `{case['elig']}`", ti)
        if rec - active:
            dead = sorted(rec - active)
            fail(dict(oracle='active', rule_type=ek), f"ti={ti}: {kind} delivered to {dead[:6]} who are not active agents (eligibility rule `{case['elig']}`)", ti)
        # schedule and coverage
        if kind != 'treat':
            if rec:
                w = window_excess(case, res, ti)
                if w:
                    sy0 = case['sched'].get('start_year', (case['sched'].get('years') or [simc['start']])[0]) if deliv == 'routine' else None
                    near = bool(sy0 is not None and w[0] == 'before-start' and abs(res['yearvec'][ti] - sy0) <= 1e-6 + 1e-5 * abs(sy0))
                    fail(dict(oracle='window', side=w[0], steps_past=w[1], dt_ge_1=bool(dt >= 1), isclose_start=near),
                         f"{deliv} {kind}: {len(rec)} agent(s) received the product at ti={ti} (year {res['yearvec'][ti]}), {w[1]} step(s) {w[0]} of the configured schedule {case['sched']} with dt={dt}", ti)
            p = expected_step_prob(case, res, ti)
            if p is not None:
                lo, hi = p if isinstance(p, tuple) else (p, p)
                p = lo
                want = {u for u in elig if u in pre['draws'] and pre['draws'][u] / 2 ** 53 < p}
                near = {u for u in elig if u in pre['draws'] and lo - 1e-9 < pre['draws'][u] / 2 ** 53 < hi + 1e-9}
                tail = deliv == 'routine' and not rec and res['yearvec'][ti] > res['end_year'] + 1e-9
                # (the steps after end_year but inside the end year may deliver or not: the property bounds delivery from above only)
                if pre['draws'] and (want ^ rec) - near and not (rec - elig) and not tail:
                    sig = dict(oracle='coverage', delivered_none=not rec, own_dt=own)
                    if own:
                        # does the observed acceptance equal the coverage converted with the SIM's step instead of the intervention's own?
                        ps = expected_step_prob(case, res, ti, dt=dt)
                        ps = ps[0] if isinstance(ps, tuple) else ps
                        sig['matches_sim_dt'] = bool(ps is not None and rec == {u for u in elig if u in pre['draws'] and pre['draws'][u] / 2 ** 53 < ps})
                    fail(sig, f"ti={ti}: configured per-step coverage {p:.6g} (sim dt={dt}, own step {dt * case.get('own_dt', 1)}) accepts {len(want)} of {len(elig)} eligible agents on the reference draws, but {len(rec)} received the product", ti)
        # effects
        if kind == 'vx':
            v = case['vaccine']
            for u in range(n):
                a, b = float(pre['rs'][u]), float(post['rs'][u])
                if u not in rec:
                    if a != b:
                        fail(dict(oracle='confined', field='rel_sus'), f"ti={ti}: rel_sus of non-recipient {u} changed {a} -> {b}", ti); break
                else:
                    if v['kind'] == 'leaky': want = [a * (1 - v['efficacy'])]
                    elif v['kind'] == 'inert': want = [a]
                    elif v['efficacy'] >= 1: want = [0.0]
                    elif v['efficacy'] <= 0: want = [a]
                    else:
                        srec = sorted(rec)
                        ref = I.ref_binomial(pre['np_state'], 1 - v['efficacy'], len(srec))
                        want = [a * ref[srec.index(u)]]
                    if not any(abs(b - w) <= 1e-5 * max(1, abs(w)) for w in want):
                        fail(dict(oracle='effect', field='rel_sus'), f"ti={ti}: rel_sus of recipient {u} is {b}, expected one of {want}", ti); break
            if v['kind'] in ('leaky', 'aon') and v['efficacy'] >= 1:
                sus = set(pre['flags']['sir.susceptible'])
                for u in rec:
                    if u in sus and u in active: protected.setdefault(u, ti)
            for st in keys:
                if pre['flags'][st] != post['flags'][st]:
                    fail(dict(oracle='confined', field=st), f"ti={ti}: vaccination changed the disease state `{st}`", ti)
        elif kind in ('screen', 'triage'):
            for st in keys:
                if pre['flags'][st] != post['flags'][st]:
                    fail(dict(oracle='confined', field=st), f"ti={ti}: a diagnostic changed the disease state `{st}`", ti)
            if np.any(pre['rs'] != post['rs']):
                fail(dict(oracle='confined', field='rel_sus'), f"ti={ti}: a diagnostic changed rel_sus", ti)
        else:
            cap = case['capacity']
            if cap is not None and len(rec) > cap:
                fail(dict(oracle='capacity'), f"ti={ti}: {len(rec)} agents treated with max_capacity={cap}", ti)
            q0 = pre['queue']
            if cap is not None and len(q0) >= cap and not rec <= set(q0[:cap]):
                fail(dict(oracle='fifo'), f"ti={ti}: treated {sorted(rec)[:6]} are not from the first {cap} of the queue {q0[:cap + 3]}", ti)
            if not rec <= (set(q0) | elig):
                fail(dict(oracle='eligible'), f"ti={ti}: treated {sorted(rec - set(q0) - elig)[:6]} were neither queued nor eligible", ti)
            if set(post['queue']) & rec:
                fail(dict(oracle='queue'), f"ti={ti}: treated agents {sorted(set(post['queue']) & rec)[:6]} are still queued", ti)
            if not set(post['queue']) <= (set(q0) | elig):
                fail(dict(oracle='queue'), f"ti={ti}: {sorted(set(post['queue']) - set(q0) - elig)[:6]} joined the queue without being eligible", ti)
            if rec and set(post['out']['successful']) | set(post['out']['unsuccessful']) != rec:
                fail(dict(oracle='outcomes'), f"ti={ti}: treatment outcomes do not list exactly the treated agents", ti)
            # state changes only on recipients, as the table says
            rows = [(flag_key(d, st), eff, flag_key(d, post)) for d, st, eff, post in case['tx']['rows']]
            for st in keys:
                a, b = set(pre['flags'][st]), set(post['flags'][st])
                ch = a ^ b
                if ch - rec:
                    fail(dict(oracle='confined', field=st), f"ti={ti}: state `{st}` of non-treated agent(s) {sorted(ch - rec)[:6]} changed during the treatment step", ti)
            succ = set(post['out']['successful']) if rec else set()
            cleared = 'syphilis.infected' if case.get('syph') else None     # syph_treatment: infected[treated] = False
            if cleared and rec & set(post['flags'][cleared]):
                fail(dict(oracle='effect', field=cleared), f"ti={ti}: treated agent(s) {sorted(rec & set(post['flags'][cleared]))[:6]} are still `infected` after syph_treatment", ti)
            for u in rec:
                was = [st for st in keys if u in set(pre['flags'][st]) and st != cleared]
                now = [st for st in keys if u in set(post['flags'][st]) and st != cleared]
                # blocks are applied in table order (disease by disease), each to the agents in its state at that moment
                poss = {(frozenset(was), False)}
                for r in rows:
                    nxt = set()
                    for cur, ok in poss:
                        if r[0] in cur and u in active:
                            if r[1] > 0: nxt.add((frozenset((cur - {r[0]}) | {r[2]}), True))
                            if r[1] < 1: nxt.add((cur, ok))
                        else: nxt.add((cur, ok))
                    poss = nxt
                if (frozenset(now), u in succ) not in poss:
                    fail(dict(oracle='effect', field='state'), f"ti={ti}: treated agent {u} ({'successful' if u in succ else 'unsuccessful'}) went {was} -> {now}, not what the product table {case['tx']['rows']} allows", ti)
    if res['run_err'] and not any('err' in e for e in res['log']):
        fail(dict(oracle='crash', exc=res['run_err'], where='outside-step'), f"the run raised {res['run_err']}: {res.get('run_msg')}", None)
    return fails


def minimal_window_case():
    """ the stored witness of the known finding: window 2005-2010, dt = 1 -> delivery in 2011 """
    return dict(kind='vx', delivery='routine', own_dt=1, elig='none', vaccine=dict(kind='leaky', efficacy=1.0),
                sim=dict(n_agents=40, start=2000, dur=15, dt=1.0, rand_seed=1, disease='sir', beta=0.2, init_prev=0.05, deaths=None),
                sched=dict(start_year=2005, end_year=2010, prob=[0.5], annual_prob=True))


def search(ctx):
    n = ctx.budget(32, 320)
    cases = [minimal_window_case(),
             dict(minimal_window_case(), sched=dict(years=[2005, 2006, 2007, 2008], prob=[0.1, 0.2, 0.4, 0.8], annual_prob=True))]
    cases += I.fixed_cases() + I.fixed_cases_r3()
    for kf in ctx.known:            # stored witnesses of the known findings are re-run on every run
        rp = kf.get('replay') or {}
        if isinstance(rp.get('case'), dict) and rp['case'] not in cases:
            cases.append(rp['case'])
    kinds = ['vx', 'screen', 'treat', 'vx', 'triage', 'treat', 'vx', 'screen']
    for k in range(n):
        c = I.gen_case_r3(ctx.rng, kinds[k % len(kinds)])
        # the oracle is about valid configurations with real delivery: bias towards high coverage and transmission
        if c['kind'] == 'vx' and c['vaccine']['kind'] != 'inert' and ctx.rng.random() < 0.5:
            c['vaccine'] = dict(kind=ctx.rng.choice(['leaky', 'aon']), efficacy=1.0); c['sim']['beta'] = 1.5; c['elig'] = ctx.rng.choice(['susceptible', 'none', 'age_gt_30'])
        cases.append(c)
    # cases on which the correspondence diverged are examined first
    for b in ctx.broken:
        if b['kind'] == 'correspondence' and isinstance(b.get('data'), dict) and 'case' in b['data']:
            cases.insert(0, b['data']['case'])
    search_zoo(ctx)
    for c in cases:
        try:
            res = I.run_case(c)
        except Exception as e:
            ctx.broke('search', 'C20.oracle', f'oracle run raised {type(e).__name__}: {e}', data=dict(case=c))
            continue
        res.pop('sim', None)
        fails = oracle_case(c, res)
        ctx.count('oracle_runs'); ctx.count('oracle_steps', len(res['log']))
        for f in fails:
            ctx.fail(f['signature'], f['what'], dict(case=c, ti=f['ti'], signature=f['signature']))


def search_zoo(ctx):
    """ every entry of the shared zoo as the base simulation of one probed delivery, evaluated by the same oracle """
    from harness import zoo
    from harness.props import c20_zoo as Z
    skipped = {}
    for k, (name, cfg) in enumerate(zoo.configs()):
        try:
            c = Z.probe_for(k, name, cfg)
            if isinstance(c, tuple):
                skipped[name] = c[1]; ctx.count('zoo_skipped'); continue
            res = Z.run_zoo_case(c)
            fails = oracle_case(c, res)
        except Exception as e:
            ctx.count('zoo_exceptions'); ctx.notes['last_zoo_exception'] = f'{name}: {type(e).__name__}: {e}'; continue
        ctx.count('zoo_runs'); ctx.count('oracle_steps', len(res['log']))
        ctx.count('zoo_delivery_steps', sum(1 for e in res['log'] if e.get('ret')))
        if res['init_err']:
            ctx.count('zoo_init_rejected'); ctx.notes.setdefault('zoo_init_rejected', {})[name] = f"{res['init_err']}: {res.get('init_msg')}"
        for f in fails:
            ctx.fail(f['signature'], f'[zoo:{name}] ' + f['what'], dict(case=c, ti=f['ti'], signature=f['signature']))
    if skipped: ctx.notes['zoo_skipped'] = skipped


def replay(ctx, data):
    fails = oracle_case(data['case'])
    sig = data.get('signature')
    for f in fails:
        print('  ', f['what'])
    if sig:
        return any(all(f['signature'].get(k) == v for k, v in sig.items()) for f in fails)
    return bool(fails)
