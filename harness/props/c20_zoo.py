"""
C20 over the shared scenario zoo (harness/zoo.py): every zoo entry is the BASE simulation (impl.build_sim) and gets one probed
delivery intervention; the run is evaluated by the ordinary C20 oracle (c20.oracle_case): recipients vs the eligibility rule /
window / coverage / capacity evaluated independently in the probe, product effects confined to recipients.

  * an entry that already has a routine vaccination (`sir_vx`) gets that very intervention, probed (same product, coverage, window,
    own dt) instead of the unprobed one;
  * the `killer` entries keep their killer (deaths requested by an intervention) and get a probe next to it;
  * every other entry gets one probe, rotating over capacity-limited treatment / routine screening / routine vaccination as far as
    the entry allows (see `probe_for`).

A zoo case is an ordinary C20 case (JSON-able, replayable) plus `cfg` (the zoo configuration) and `sim.zoo*` keys.
"""
import copy, numpy as np
from harness.props import c20_impl as I

INFECTIOUS = ('sir', 'sis', 'hiv', 'gonorrhea', 'cholera', 'ebola', 'measles')


def _dry(cfg):
    """ initialise the entry once without a probe: its year vector and the Boolean states of its diseases """
    import starsim as ss
    from harness import impl
    sim = impl.build_sim(cfg); sim.init()
    states = []
    for d in sim.diseases():
        for st in d.states:
            if isinstance(st, ss.BoolArr) and isinstance(getattr(d, st.name, None), ss.BoolArr):
                states.append((d.name, st.name))
    return [float(y) for y in sim.t.yearvec], states, [d.name for d in sim.diseases()]


def probe_for(k, name, cfg):
    """ -> case, or (None, reason) """
    cfg = copy.deepcopy(cfg)
    yv, states, names = _dry(cfg)
    year_unit = cfg.get('unit', 'year') == 'year' and isinstance(cfg.get('start'), (int, float))
    dt = float(cfg['dt'])
    # Routine windows are matched to the grid with np.isclose (rtol 1e-5 ~ +-0.02 years): on grids finer than 0.03 years (day / week
    # units) the match is ambiguous — the recorded finding C20-small-dt-isclose-start, witnessed by its own fixed family — and the
    # annual->step conversion has no defined meaning for `sim.pars.dt` counted in days.  Such entries get the schedule-free probe.
    sched_ok = year_unit and dt >= 0.03 and len(yv) >= 5
    simc = dict(zoo=name, dt=dt if year_unit else None, start=cfg.get('start'), dur=cfg.get('dur'), n_agents=cfg['n_agents'],
                disease=names[0] if names else None, zoo_diseases=names, zoo_states=[list(x) for x in states])
    # the first disease must be the one the state-based eligibility rules and the product tables refer to
    d0 = names[0] if names else None
    inf_ok = d0 is not None and (d0, 'infected') in states and (d0, 'susceptible') in states
    case = dict(zoo=name, sim=simc, own_dt=1)
    vx_in = [i for i in cfg.get('interventions', []) if i.get('type') == 'sir_vx']
    if vx_in:
        i = vx_in[0]
        cfg['interventions'] = [j for j in cfg['interventions'] if j is not i]
        own = i.get('dt')
        case.update(kind='vx', delivery='routine', elig='none', vaccine=dict(kind='leaky' if i.get('leaky', True) else 'aon', efficacy=i.get('efficacy', 0.9)),
                    sched=dict(start_year=i['start_year'], end_year=i['end_year'], prob=[i.get('prob', 0.5)], annual_prob=True),
                    own_dt=(int(round(own / dt)) if own else 1))
        case['cfg'] = cfg
        return case
    case['cfg'] = cfg
    # whole grid years for a window strictly inside the run
    whole = [y for y in yv if abs(y - round(y)) < 1e-9]
    win = dict(start_year=int(whole[1]), end_year=int(whole[min(3, len(whole) - 2)])) if sched_ok and len(whole) >= 4 else None
    # every second scheduled probe configures a coverage VECTOR over `years` (interpolated, annual) instead of a scalar over a window
    def sched(k, scalar, annual):
        ny = win['end_year'] - win['start_year'] + 1
        if k % 2 == 0 and ny >= 2 and dt <= 1 and not (0.5 < dt < 1):
            return dict(years=list(range(win['start_year'], win['end_year'] + 1)), prob=[[0.2, 0.6, 0.4][(k + j) % 3] for j in range(ny)], annual_prob=True)
        return dict(win, prob=[scalar], annual_prob=annual)
    kinds = ['treat', 'screen', 'vx']
    kind = kinds[k % 3]
    if kind == 'vx' and not ('sir' in names and win): kind = 'treat'
    if kind == 'screen' and not (inf_ok and win): kind = 'treat'
    if kind == 'treat' and not inf_ok:
        kind = 'inert' if win else None
    if kind is None:
        return None, 'no disease with infected/susceptible states and no year grid for a window'
    if kind == 'treat':
        post = 'recovered' if (d0, 'recovered') in states and k % 2 else 'susceptible'
        rows = [(d0, 'infected', [1.0, 0.7][(k // 2) % 2], post)]
        # a second disease sharing the state name `infected` gets its own, different row (one product for two diseases)
        if len(names) > 1: rows = [(d0, 'infected', 1.0, post)]      # (deterministic rows, so that a mixed-up row shows on every treated agent)
        rows += [(d, 'infected', 0.0, 'susceptible') for d in names[1:2] if (d, 'infected') in states and (d, 'susceptible') in states]
        case.update(kind='treat', delivery='none', capacity=[2, 3, 5, 0, 1][(k // 3) % 5], treat_prob=[1.0, 0.8][k % 2],
                    elig=['infected', 't_alt_infected', 'uids_infected', 't_enrol_early', 'adults'][k % 5], tx=dict(rows=rows))
    elif kind == 'screen':
        case.update(kind='screen', delivery='routine', elig=['female', 't_rotating', 'uids_infected', 'none'][k % 4],
                    dx=dict(hierarchy=['positive', 'negative'], rows=[(d0, 'susceptible', [0.0, 1.0]), (d0, 'infected', [1.0, 0.0])]),
                    sched=sched(k // 3, [0.8, 0.3][k % 2], bool(k % 2)))
    elif kind == 'vx':
        case.update(kind='vx', delivery='routine', elig=['none', 'susceptible', 't_alt_steps', 'uids_young'][k % 4], vaccine=dict(kind='leaky', efficacy=1.0),
                    sched=sched(k // 3, [0.5, 0.3][k % 2], bool(k % 2)))
    else:
        # no infectious disease (killer-only, NCD): the inert ss.Vx product — recipients / records / window / coverage still apply
        case.update(kind='vx', delivery='routine', elig=['female', 'adults', 't_alt_steps'][k % 3], vaccine=dict(kind='inert', efficacy=0.0),
                    sched=dict(win, prob=[0.5], annual_prob=False))
    return case


def build_zoo(case):
    import starsim as ss
    from harness import impl
    rules = I._elig_rules(); snap = I.make_snap(case); elig = rules[case['elig']]
    kind = case['kind']
    own = dict(dt=case['sim']['dt'] * case['own_dt']) if case.get('own_dt', 1) != 1 else {}
    if kind == 'vx':
        v = case['vaccine']
        prod = ss.Vx(diseases=[]) if v['kind'] == 'inert' else ss.sir_vaccine(efficacy=v['efficacy'], leaky=(v['kind'] == 'leaky'))
        tgt = I.probed(ss.routine_vx, snap)(name='target', product=prod, eligibility=elig, **dict(case['sched']), **own)
    elif kind == 'screen':
        prod = ss.Dx(I._dx_df(case['dx']), hierarchy=case['dx']['hierarchy'])
        tgt = I.probed(I._screening_class(ss.routine_screening), snap)(name='target', product=prod, eligibility=elig, **dict(case['sched']), **own)
    else:
        tgt = I.probed(ss.treat_num, snap)(name='target', product=ss.Tx(I._tx_df(case['tx'])), prob=case['treat_prob'],
                                           max_capacity=case['capacity'], eligibility=elig, **own)
    sim = impl.build_sim(case['cfg'], extra_interventions=[tgt])
    sim.init()
    return sim


def run_zoo_case(case):
    """ same result format as c20_impl.run_case """
    res = dict(init_err=None, run_err=None, log=[])
    try:
        sim = build_zoo(case)
    except (ValueError, IndexError, TypeError) as e:
        res['init_err'] = type(e).__name__; res['init_msg'] = str(e)[:200]
        return res
    iv = sim.interventions['target']
    res['yearvec'] = [float(y) for y in sim.t.yearvec]; res['npts'] = int(sim.t.npts)
    if case['kind'] != 'treat':
        res['timepoints'] = [int(t) for t in np.asarray(iv.timepoints)]
        res['prob'] = [float(p) for p in np.asarray(iv.prob)]
        res['start_year'] = float(iv.start_year); res['end_year'] = float(iv.end_year)
    res['own_dt'] = float(iv.t.dt); res['own_npts'] = int(iv.t.npts)
    try:
        sim.run()
    except Exception as e:
        res['run_err'] = type(e).__name__; res['run_msg'] = str(e)[:200]
    res['log'] = iv.__dict__.get('_c20_log', [])
    return res
