"""
C08 — Each module steps exactly once per own time point, in phase order.

correspond(): generated module sets (probe modules of every container kind, interventions with products, real
              SIS/RandomNet/Deaths) with per-module unit/dt/start/stop against the sim's; the plan's function column is
              wrapped to record (time, func_order, owner, owner.ti) of the executed schedule, which is compared with the
              plan and clocks of Model/Loop.lean built from the modules' abstvec (in units of time_eps), the
              function list with `collect Gen.collectFuncs mods`, and the final clocks with `afterRun`.
search():     the property on the real code only: an independent reference (module timelines + the documented phase
              order written down here) against the executed schedule: multiplicity, time order, phase order within an
              instant, clock = scheduled index at every invocation, final clocks; own-instant: the instant denoted by the
              caller's own clock READING (date / year / own-unit number), converted to the sim's axis by this module's own
              leap-aware arithmetic (never abstvec, never starsim's or sciris' conversions), is the scheduled time.
"""
import math, warnings
import numpy as np

PROP = 'C08'
GENERATED = ['PhaseOrder', 'LoopFacts']
DRIVER = 'Drivers/C08.lean'
DRIVER_MODULES = ['StarsimModel.Model.Loop', 'StarsimModel.Model.LoopInstant', 'StarsimModel.Model.Proto']
RULE = ('module sets: 0-2 probe modules per container kind (demographics, networks, diseases, connectors, interventions '
        '(optionally with a product), analyzers) plus optionally real SIS/RandomNet/Deaths; sim unit in year/day/week/month/'
        'unitless with numeric or date start; every module draws its own unit/dt/start/stop (same unit with dt ratio and '
        'start/stop offsets, or a different unit). distinct = distinct (module kinds, time vectors); non-trivial = at '
        'least one module whose time vector differs from the sim\'s')
TRUSTED = ['the abstvec of each module is taken from the code (C07 ties it) — except date-based day/week/month owners of year sims, whose '
           'vector is compared with Model/LoopInstant.lean applied to the dates their clock shows; the oracle re-derives every scheduled '
           'instant from the caller\'s own clock reading with datetime arithmetic of its own; times are converted to integer multiples of '
           'time_eps after checking they are within 1e-3 eps of one']
ASSUMPTIONS = ['people.* functions are modelled as functions of the sim owner (abs_tvecs["people"] is sim.t.abstvec: checked on every case)']

EPS_DEN = 10**6

# ---------------------------------------------------------------------------
# probe modules (module level so that they can be pickled)

_probe_classes = {}


def probes():
    """ Probe module classes of every container kind, created lazily (needs starsim imported) """
    if _probe_classes:
        return _probe_classes
    import starsim as ss

    class PDem(ss.Demographics):
        def step(self): pass

    class PDis(ss.Disease):
        def step_state(self): pass
        def step(self): pass
        def step_die(self, uids): pass

    class PCon(ss.Connector):
        def step(self): pass

    class PNet(ss.Network):
        def step(self): pass

    class PInt(ss.Intervention):
        def step(self): pass

    class PAna(ss.Analyzer):
        def step(self): pass

    class PProd(ss.Product):
        def administer(self, *a, **k): pass

    class PIntP(ss.Intervention):
        def __init__(self, product=None, **kw):
            super().__init__(**kw)
            self.product = product
        def step(self): pass

    for c in (PDem, PDis, PCon, PNet, PInt, PAna, PProd, PIntP):
        c.__module__ = __name__
        c.__qualname__ = c.__name__
        globals()[c.__name__] = c
        _probe_classes[c.__name__] = c
    return _probe_classes


KIND_OF_CLASS = dict(PDem='demographics', PDis='diseases', PCon='connectors', PNet='networks', PInt='interventions',
                     PIntP='interventions', PAna='analyzers', SIS='diseases', SIR='diseases', RandomNet='networks', Deaths='demographics')
CONTAINERS = ['demographics', 'networks', 'diseases', 'connectors', 'interventions', 'analyzers']

# the documented phase order (property statement), written down independently of loop.py
PHASES = ['start of step', 'demographics', 'disease state updates', 'connectors', 'networks', 'interventions',
          'transmission', 'death resolution', 'result recording', 'analyzers', 'end of step']


def phase_of(owner_kind, method):
    """ Documented phase of a call, from the kind of its owner and the method name (reference, independent of loop.py) """
    if method == 'start_step': return 0
    if method == 'finish_step': return 10
    if method == 'update_results': return 8
    if method == 'step_die' and owner_kind == 'people': return 7
    if method == 'step_state' and owner_kind == 'diseases': return 2
    if method == 'step':
        return dict(demographics=1, connectors=3, networks=4, interventions=5, diseases=6, analyzers=9).get(owner_kind)
    return None


# ---------------------------------------------------------------------------
# case generation

def _time_of_module(rng, simt):
    """ Time parameters of one module relative to the sim's (dict with some of unit/dt/start/stop) """
    r = rng.random()
    unit = simt['unit']
    if r < 0.25:
        return {}
    out = {}
    numeric = not isinstance(simt['start'], str)
    if r < 0.70 or unit == 'unitless':
        # same unit: dt ratio and offsets
        ratio = rng.choice([1, 1, 0.5, 2, 3, 0.25, 1.5, 0.7, 0.3, 1 / 3, 2.3, 1 / 7])
        dt = simt['dt'] * ratio
        if unit in ('day', 'week', 'month') and not numeric:
            dt = max(1, int(round(dt))) if rng.random() < 0.8 else dt
        out['dt'] = dt
        out['unit'] = unit
        if numeric:
            q = rng.random()
            if q < 0.35:
                out['start'] = simt['start'] + rng.choice([1, 2, 0.5, 1.5]) * simt['dt']
            elif q < 0.42:
                out['start'] = simt['start'] - simt['dt']
            elif q < 0.47:
                out['start'] = simt['start'] + rng.choice([2e-6, 5e-6, 1e-5])     # the excluded point of Separated
            elif q < 0.52:
                out['start'] = simt['start'] + simt['dur'] + rng.choice([0, 1, 2.5]) * simt['dt']   # at / after the sim's last point
                out['stop'] = out['start'] + rng.choice([1, 2, 3.5]) * simt['dt']
            if 'stop' not in out and rng.random() < 0.3:
                out['stop'] = simt['start'] + simt['dur'] - rng.choice([0, 1, 2, 0.5]) * simt['dt']
                if rng.random() < 0.15:
                    out['stop'] = simt['start'] + simt['dur'] + simt['dt']
            if 'start' in out: out['start'] = float(out['start'])
            if 'stop' in out: out['stop'] = float(out['stop'])
        else:
            if rng.random() < 0.4:
                out['start'] = _date_add(simt['start'], rng.choice([1, 3, 7, 14, 31]))
            if rng.random() < 0.25:
                out['stop'] = _date_add(simt['start'], rng.choice([20, 40, 59, 400]))
    else:
        others = [u for u in ('year', 'month', 'week', 'day') if u != unit]
        out['unit'] = rng.choice(others)
        out['dt'] = rng.choice(dict(year=[0.1, 0.25, 1 / 12, 0.5, 1.0], month=[1, 1, 2, 0.5], week=[1, 2, 4, 0.5], day=[1, 2, 7, 10, 30, 3.5])[out['unit']])
        # keep the module's number of points moderate (fixed wall time): coarsen dt by an integer factor
        days = dict(year=365.25, month=30.4375, week=7.0, day=1.0)
        if unit in days:
            npts = simt['dur'] * days[unit] / (out['dt'] * days[out['unit']])
            if npts > 100:
                out['dt'] = out['dt'] * math.ceil(npts / 100)
        if not numeric and rng.random() < 0.4:
            out['start'] = _date_add(simt['start'], rng.choice([2, 7, 14, 31, 45]))
        if not numeric and rng.random() < 0.2:
            out['stop'] = _date_add(simt['start'], rng.choice([50, 90, 200]))
    return out


def _date_add(d, days):
    import datetime as dt
    return (dt.date.fromisoformat(d) + dt.timedelta(days=days)).isoformat()


def gen_case(rng, force_real=None):
    r = rng.random()
    if r < 0.45:
        unit = 'year'; dt = rng.choice([1.0, 0.5, 0.25, 0.2, 1 / 12, 0.1])
        start = rng.choice([2000, 1995, 2010.5, 2000.25, 2003, 2099.5]); npts = rng.randint(2, 8)
        simt = dict(unit=unit, dt=dt, start=start, dur=round(dt * npts, 6))
    elif r < 0.60:
        unit = 'year'; dt = rng.choice([0.25, 0.5, 1 / 12, 0.1])
        simt = dict(unit=unit, dt=dt, start=rng.choice(['2000-01-01', '2001-03-01', '2003-07-01', '2023-12-30']), dur=round(dt * rng.randint(2, 8), 6))
    elif r < 0.85:
        unit = rng.choice(['day', 'day', 'week', 'month'])
        dt = rng.choice(dict(day=[1, 2, 7, 5], week=[1, 2], month=[1, 1, 2])[unit])
        simt = dict(unit=unit, dt=dt, start=rng.choice(['2000-01-01', '2020-02-15', '2021-12-20']), dur=dt * rng.randint(2, 9))
    elif r < 0.93:
        unit = rng.choice(['day', 'week'])
        dt = rng.choice([1.0, 2.0, 0.5])
        simt = dict(unit=unit, dt=dt, start=float(rng.choice([0, 10, 100])), dur=float(dt * rng.randint(2, 8)))
    else:
        simt = dict(unit='unitless', dt=rng.choice([1.0, 0.5, 2.0]), start=float(rng.choice([0, 5])), dur=float(rng.randint(3, 8)))
        simt['dur'] = simt['dur'] * simt['dt']
    mods = []
    real = force_real if force_real is not None else (rng.random() < 0.25)
    counter = [0]

    def add(cls, **extra):
        counter[0] += 1
        m = dict(cls=cls, name=f'{cls.lower()}{counter[0]}', time=_time_of_module(rng, simt))
        m.update(extra)
        mods.append(m)

    for cls, weights in (('PDem', [0, 1, 1, 2]), ('PNet', [0, 1, 1, 2]), ('PDis', [0, 1, 1, 2]), ('PCon', [0, 0, 1, 2]),
                         ('PInt', [0, 1, 1, 2]), ('PAna', [0, 0, 1, 2])):
        for _ in range(rng.choice(weights)):
            add(cls)
    if rng.random() < 0.3:
        add('PIntP', product=dict(cls='PProd', name=f'pprod{counter[0]}', time=_time_of_module(rng, simt) if rng.random() < 0.5 else {}))
    if real and simt['unit'] != 'unitless':     # the real modules' default rates carry units: not valid in a unitless sim
        add('SIS'); add('RandomNet')
        if rng.random() < 0.5: add('Deaths')
    rng.shuffle(mods)
    if len(mods) >= 2 and rng.random() < 0.04:
        # two modules of different containers under one name (the same container refuses duplicates)
        a, b = mods[0], mods[1]
        if KIND_OF_CLASS[a['cls']] != KIND_OF_CLASS[b['cls']] and not has_real(dict(mods=[a, b])):
            b['name'] = a['name']
    return dict(sim=simt, mods=mods, n_agents=rng.choice([20, 40]), rand_seed=rng.randint(0, 999))


def scenarios():
    """ Fixed configuration families exercised on EVERY run (next to the random ones) """
    Y = dict(unit='year', dt=1.0, start=2000, dur=3.0)
    D = dict(unit='day', dt=2, start='2000-01-01', dur=40)
    W = dict(unit='week', dt=1, start='2020-02-15', dur=8)
    M = dict(unit='month', dt=1, start='2000-01-01', dur=5)
    YD = dict(unit='year', dt=0.25, start='2001-03-01', dur=1.5)
    U = dict(unit='unitless', dt=1.0, start=5.0, dur=6.0)
    def m(cls, name, **t): return dict(cls=cls, name=name, time=t)
    out = [
        # time points beyond the sim's last point, starting at / after it, before its first point
        dict(sim=Y, mods=[m('PInt', 'late', unit='year', dt=1.0, stop=2005.0), m('PAna', 'after', unit='year', dt=0.5, start=2004.0, stop=2006.0),
                          m('PDem', 'early', unit='year', dt=1.0, start=1998.0), m('PDis', 'atend', unit='year', dt=1.0, start=2003.0, stop=2005.0)]),
        # incommensurate timesteps
        dict(sim=dict(unit='year', dt=0.3, start=2000, dur=2.1), mods=[m('PDis', 'd7', unit='year', dt=0.7), m('PInt', 'i7', unit='year', dt=1 / 7),
                                                                       m('PNet', 'n11', unit='year', dt=0.11), m('PCon', 'c', unit='year', dt=0.45, start=2000.2)]),
        dict(sim=dict(unit='year', dt=1 / 12, start=2000, dur=1.0), mods=[m('PDis', 'wk', unit='week', dt=1), m('PInt', 'dy', unit='day', dt=10), m('PAna', 'mo', unit='month', dt=1)]),
        # date-based day / week / month sims with modules of other units AND own start / stop
        dict(sim=D, mods=[m('PInt', 'wk', unit='week', dt=1, start='2000-01-15'), m('PAna', 'mo', unit='month', dt=1, start='2000-01-10', stop='2000-03-20'),
                          m('PDis', 'dd', unit='day', dt=3, start='2000-01-05', stop='2000-02-01'), m('PDem', 'yr', unit='year', dt=0.05)]),
        dict(sim=W, mods=[m('PInt', 'dy', unit='day', dt=3, start='2020-03-01'), m('PAna', 'w2', unit='week', dt=2, start='2020-02-29'), m('PNet', 'mo', unit='month', dt=1, start='2020-03-15')]),
        dict(sim=M, mods=[m('PInt', 'wk', unit='week', dt=2, start='2000-02-01'), m('PDis', 'dy', unit='day', dt=10, start='2000-01-20', stop='2000-04-15'), m('PCon', 'm2', unit='month', dt=2, start='2000-03-01')]),
        dict(sim=YD, mods=[m('PInt', 'dy', unit='day', dt=30, start='2001-06-01'), m('PAna', 'mo', unit='month', dt=1, start='2001-04-15', stop='2002-03-01'), m('PDis', 'yr', unit='year', dt=0.1)]),
        # two instances of one class; a product on its own timeline
        dict(sim=Y, mods=[m('PInt', 'a', unit='year', dt=0.5), m('PInt', 'b', unit='year', dt=1.0, start=2001.0), m('PDis', 'x', unit='year', dt=0.25), m('PDis', 'y'),
                          dict(cls='PIntP', name='ip', time={}, product=dict(cls='PProd', name='prod', time=dict(unit='year', dt=0.5)))]),
        # unitless
        dict(sim=U, mods=[m('PDis', 'h', dt=0.5, unit='unitless'), m('PInt', 'o', dt=2.0, unit='unitless', start=6.5), m('PAna', 'z', dt=1.0, unit='unitless', stop=13.0)]),
        # one name in two containers; a module named like the `people` entry (known finding C08-name-collision)
        dict(sim=Y, mods=[m('PInt', 'x', unit='year', dt=0.5), m('PAna', 'x', unit='year', dt=1.0)]),
        dict(sim=Y, mods=[m('PDis', 'a', unit='year', dt=0.25), m('PInt', 'a'), m('PInt', 'b', unit='year', dt=0.5)]),
        dict(sim=Y, mods=[m('PInt', 'people', unit='year', dt=0.5)]),
        # month-unit sim with a daily module (known finding C08-month-sim-mean-month-length)
        dict(sim=dict(unit='month', dt=1, start='2020-02-15', dur=3), mods=[m('PInt', 'daily', unit='day', dt=1, start='2020-02-22')]),
        # year sims whose day / week / month modules run through years of DIFFERENT length (ordinary -> leap -> ordinary, leap
        # first, the non-leap century year), daily modules across 31 December / 1 January, sim instants that fall on a
        # module's date away from 1 January (2004.5 = 2004-07-02)
        dict(sim=dict(unit='year', dt=0.5, start='2003-01-01', dur=3.0), mods=[m('PInt', 'dy', unit='day', dt=1), m('PDis', 'wk', unit='week', dt=1),
                                                                                m('PAna', 'mo', unit='month', dt=1), m('PCon', 'd73', unit='day', dt=73), m('PNet', 'net')]),
        dict(sim=dict(unit='year', dt=0.25, start=2000, dur=2.0), mods=[m('PCon', 'dy', unit='day', dt=1), m('PDem', 'w2', unit='week', dt=2), m('PDis', 'dis'),
                                                                         m('PInt', 'late', unit='day', dt=5, start='2000-12-27', stop='2001-01-11')]),
        dict(sim=dict(unit='year', dt=0.5, start='2099-07-01', dur=2.0), mods=[m('PInt', 'd10', unit='day', dt=10), m('PAna', 'mo', unit='month', dt=1),
                                                                                  m('PDis', 'dy', unit='day', dt=1, start='2100-12-20', stop='2101-01-10')]),
    ]
    for i, c in enumerate(out):
        c.setdefault('n_agents', 20); c.setdefault('rand_seed', i)
    return out


def has_real(case):
    return 'zoo' in case or any(m['cls'] in ('SIS', 'RandomNet', 'Deaths') for m in case['mods'])


def zoo_cases():
    """ Every entry of the shared scenario zoo (harness/zoo.py, impl.build_sim format) as a case of this module: the schedule
        oracles and the correspondence only look at the built sim (its modules, their clocks, Loop.plan), so they apply to any
        configuration. `sim` / `mods` are filled so that the bookkeeping of correspond() works unchanged. """
    from harness import zoo
    out = []
    for name, cfg in zoo.configs():
        out.append(dict(zoo=name, cfg=cfg, sim=dict(unit=cfg.get('unit'), dt=cfg.get('dt'), start=cfg.get('start'), dur=cfg.get('dur')), mods=[],
                        n_agents=cfg.get('n_agents'), rand_seed=cfg.get('rand_seed')))
    return out


def build(case):
    """ Build (not init) the real sim of a case """
    import starsim as ss
    if 'zoo' in case:
        from harness import impl
        return impl.build_sim(case['cfg'])
    P = probes()
    by = {k: [] for k in CONTAINERS}
    for m in case['mods']:
        kw = dict(m['time'])
        cls = m['cls']
        if cls in P:
            if cls == 'PIntP':
                pm = m['product']
                prod = P['PProd'](name=pm['name'], **pm['time'])
                obj = P['PIntP'](product=prod, name=m['name'], **kw)
            else:
                obj = P[cls](name=m['name'], **kw)
        elif cls == 'SIS':
            obj = ss.SIS(name=m['name'], beta=0.05, init_prev=0.2, **kw)
        elif cls == 'RandomNet':
            obj = ss.RandomNet(name=m['name'], n_contacts=4, **kw)
        elif cls == 'Deaths':
            obj = ss.Deaths(name=m['name'], death_rate=20, **kw)
        else:
            raise ValueError(cls)
        by[KIND_OF_CLASS[cls]].append(obj)
    st = case['sim']
    pars = dict(n_agents=case['n_agents'], rand_seed=case['rand_seed'], verbose=0, unit=st['unit'], dt=st['dt'], start=st['start'], dur=st['dur'])
    for k, v in by.items():
        if v: pars[k] = v
    return ss.Sim(**pars)


# ---------------------------------------------------------------------------
# observing the real run

def to_eps(t, eps):
    x = float(t) / eps
    k = int(round(x))
    return k, abs(x - k)


def describe(sim):
    """ Owners (sim.modules order), their kinds, and abstvecs in eps units """
    import starsim as ss
    eps = ss.options.time_eps
    mods = list(sim.modules)
    kinds = []
    prods = [id(i.product) for i in sim.interventions() if getattr(i, 'product', None) is not None]
    for m in mods:
        kind = None
        for c in CONTAINERS:
            if any(m is x for x in getattr(sim, c)()):
                kind = c
        if kind is None and id(m) in prods:
            kind = 'products'
        kinds.append(kind)
    owners = [sim] + mods
    tvecs = []; worst = 0.0
    for o in owners:
        ks = []
        for t in o.t.abstvec:
            k, err = to_eps(t, eps)
            worst = max(worst, err); ks.append(k)
        tvecs.append(ks)
    tvecs.append(list(tvecs[0]))            # the `people` entry of abs_tvecs: the sim's time vector (owner len(mods)+1)
    # names: 0 = "sim", 1 = "people", others by first appearance
    ids = {'sim': 0, 'people': 1}
    name_ids = []
    for m in mods:
        if m.name not in ids: ids[m.name] = len(ids)
        name_ids.append(ids[m.name])
    collide = len(set(name_ids)) != len(name_ids) or any(n < 2 for n in name_ids)
    return dict(mods=mods, kinds=kinds, is_disease=[isinstance(m, ss.Disease) for m in mods], tvecs=tvecs, worst=worst, eps=eps,
                name_ids=name_ids, collide=collide)


def sched_owner_index(sim, mods, key):
    """ Which owner's OWN time vector object is stored under abs_tvecs[key] (identity, not equality) """
    arr = sim.loop.abs_tvecs[key]
    for i, m in enumerate(mods):
        if arr is m.t.abstvec:
            return i + 1
    if arr is sim.t.abstvec:
        return len(mods) + 1 if key == 'people' else 0
    return None


def owner_index(sim, mods, obj):
    import starsim as ss
    if obj is sim or obj is sim.people:
        return 0
    for i, m in enumerate(mods):
        if m is obj:
            return i + 1
    return None


def run_recorded(sim, desc):
    """ Wrap every plan function; run; return the executed schedule """
    mods = desc['mods']
    plan = sim.loop.plan
    rec = []
    funcs = list(plan['func']); times = list(plan['time']); orders = list(plan['func_order']); names = list(plan['func_name'])

    def wrap(f, t, o, nm):
        owner = f.__self__
        oi = owner_index(sim, mods, owner)
        clock_owner = sim if oi == 0 else owner
        def w():
            ti = clock_owner.t.ti
            vec = clock_owner.t.abstvec
            sched = float(vec[ti]) if 0 <= ti < len(vec) else None
            cal[0].append(calendar_of(sim, clock_owner, ti))
            inst[0].append(instant_of(sim, clock_owner, ti, desc.get('sim_start')))
            rec.append((float(t), int(o), oi, int(ti), sched, nm, 'people' if owner is sim.people else None))
            return f()
        return w
    cal = [[]]; inst = [[]]
    desc['rec'] = rec; desc['calendar'] = cal[0]; desc['instant'] = inst[0]     # grow during the run: a run that raises leaves its prefix
    plan['func'] = [wrap(f, t, o, nm) for f, t, o, nm in zip(funcs, times, orders, names)]
    sim.run()
    final = [int(o.t.ti) for o in [sim] + mods]
    desc['calendar'] = cal[0]
    desc['instant'] = inst[0]
    return rec, final


def calendar_of(sim, owner, ti):
    """ The instant the owner's OWN clock denotes, on a scale shared by all owners of the sim (None if there is none):
        date ordinal for date-based sims, calendar year for numeric year sims """
    t = owner.t
    if not (0 <= ti < t.npts):
        return None
    try:
        if not sim.t.is_numeric:
            d = t.datevec[ti]
            return ('date', d.toordinal()) if hasattr(d, 'toordinal') else None
        if sim.t.unit == 'year' and t.unit == 'year':
            return ('year', float(t.yearvec[ti]))
    except Exception:
        return None
    return None


# ---------------------------------------------------------------------------
# the instant a clock reading denotes on the sim's time axis, by the harness's OWN arithmetic (datetime + fractions):
# never reads abstvec / Loop.plan, never calls starsim's or sciris' date conversions

MEAN_DAYS = dict(day=1.0, week=7.0, month=30.4375, year=365.25)


def _is_leap(y):
    return y % 4 == 0 and (y % 100 != 0 or y % 400 == 0)


def _pydate(d):
    """ (datetime.date, exact?) of a date-like clock reading; None if it is no calendar date """
    import datetime as dt
    try:
        exact = not (getattr(d, 'hour', 0) or getattr(d, 'minute', 0) or getattr(d, 'second', 0))
        return dt.date(int(d.year), int(d.month), int(d.day)), exact
    except Exception:
        return None


def year_of_date(d):
    """ Calendar date -> calendar year number: year + (days since 1 January) / (length of THAT year) """
    import datetime as dt
    n = 366 if _is_leap(d.year) else 365
    return d.year + (d - dt.date(d.year, 1, 1)).days / n


def reading_of(owner, ti):
    """ What the owner's own clock reads at index ti, in the owner's own terms:
        ('num', x) numeric owners (their own unit), ('year', y) date-based year-unit owners (the year vector is their
        ground truth), ('date', datetime.date) date-based day/week/month owners """
    t = owner.t
    if not (0 <= ti < t.npts):
        return None
    try:
        if t.is_unitless or t.is_numeric:
            return ('num', float(t.timevec[ti]))
        if t.unit == 'year':
            return ('year', float(t.yearvec[ti]))
        pd_ = _pydate(t.datevec[ti])
        if pd_ is None or not pd_[1]:
            return None
        return ('date', pd_[0])
    except Exception:
        return None


def instant_of(sim, owner, ti, sim_start):
    """ (instant on the sim's axis in sim units since the sim's start, tolerance, reading shown, month-sim?) denoted by
        the owner's own clock at index ti — or None where owner and sim share no scale this harness can convert
        (recorded by the caller as `instant_unchecked`). sim_start = the sim's `start` as the USER gave it. """
    import datetime as dt
    r = reading_of(owner, ti)
    if r is None or sim_start is None:
        return None
    eps = 1e-6
    su = sim.t.unit
    kind, v = r
    sim_numeric = not isinstance(sim_start, str)
    try:
        if kind == 'num':
            if not sim_numeric or owner.t.unit != su:
                return None
            return (v - float(sim_start), 1.5 * eps, f'{v:.6f}', False)
        if su == 'year':
            if sim_numeric:
                if float(sim_start) == 0: return None          # numeric 0 stands for a default calendar start
                y0 = float(sim_start)
            else:
                y0 = year_of_date(dt.date.fromisoformat(sim_start))
            y = v if kind == 'year' else year_of_date(v)
            return (y - y0, 1.5 * eps, f'{v:.6f}' if kind == 'year' else v.isoformat(), False)
        if su in ('day', 'week', 'month'):
            if sim_numeric:
                return None
            d0 = dt.date.fromisoformat(sim_start)
            if kind == 'year':
                # a year reading has no exact day: nearest day, tolerance one day
                yy = int(math.floor(v)); n = 366 if _is_leap(yy) else 365
                d = dt.date(yy, 1, 1) + dt.timedelta(days=int(round((v - yy) * n)))
                tol = 1.0 / MEAN_DAYS[su] + eps
            else:
                d = v; tol = 1.5 * eps
            days = (d - d0).days
            if su == 'month':
                return (month_axis(sim, d0, d), tol, f'{v:.6f}' if kind == 'year' else v.isoformat(), True)
            return (days / MEAN_DAYS[su], tol, f'{v:.6f}' if kind == 'year' else v.isoformat(), False)
    except Exception:
        return None
    return None


def month_axis(sim, d0, d):
    """ Month-unit sims: the sim dates its own k-th point `start + k*dt calendar months`; the instant of a date is read
        on THAT axis (linear within a calendar step, mean-length months outside the sim's span) """
    pts = [_pydate(x)[0] for x in sim.t.datevec]
    dtm = float(sim.t.dt)
    if d <= pts[0]:
        return (d - pts[0]).days / MEAN_DAYS['month']
    for k in range(len(pts) - 1):
        if pts[k] <= d < pts[k + 1]:
            return (k + (d - pts[k]).days / (pts[k + 1] - pts[k]).days) * dtm
    return (len(pts) - 1) * dtm + (d - pts[-1]).days / MEAN_DAYS['month']


def rerun_after_completion(sim, mods):
    """ Redundant run() / run_one_step() on the completed sim: clocks must keep reading their final index """
    out = []
    for name, call in (('run', lambda: sim.run()), ('run_one_step', lambda: sim.run_one_step()), ('run(until)', lambda: sim.run(until=sim.t.timevec[0]))):
        try:
            call()
        except Exception:
            pass
        out.append((name, [int(o.t.ti) for o in [sim] + mods]))
    return out


def instant_lines(sim, desc, case):
    """ `inst` driver lines for the date-based day/week/month owners of a year-unit sim: (line, case, owner name, code's abstvec in eps) """
    import datetime as dt
    out = []
    if sim.t.unit != 'year':
        return out
    y0, err = to_eps(sim.t.yearvec[0], desc['eps'])
    if err > 1e-3:
        return out
    for i, m in enumerate(desc['mods']):
        t = m.t
        if t.is_numeric or t.is_unitless or t.unit not in ('day', 'week', 'month') or t.npts == 0:
            continue
        rs = []
        for d in t.datevec:
            pd_ = _pydate(d)
            if pd_ is None or not pd_[1]:
                rs = None; break
            rs.append(f'{pd_[0].year}:{(pd_[0] - dt.date(pd_[0].year, 1, 1)).days}')
        if rs:
            out.append((f'inst {y0} ' + ','.join(rs), case, m.name, list(desc['tvecs'][i + 1])))
    return out


def model_line(desc):
    ms = ','.join(f"{k}:{int(d)}:{n}" for k, d, n in zip(desc['kinds'], desc['is_disease'], desc['name_ids'])) or '-'
    ts = ';'.join(','.join(str(k) for k in tv) if tv else '-' for tv in desc['tvecs'])
    return f'plan {ms} {ts}'


def parse_model(line):
    parts = line.split(' ')
    out = dict(res=parts[0])
    for p in parts[1:]:
        k, v = p.split('=', 1)
        out[k] = v
    def lst(s): return [] if s == '-' else s.split(',')
    out['funcs'] = [tuple(int(x) for x in f.split(':')) for f in lst(out.get('funcs', '-'))]
    out['plan'] = [tuple(int(x) for x in e.split(':')) for e in lst(out.get('plan', '-'))]
    out['final'] = [int(x) for x in lst(out.get('final', '-'))]
    return out


def prepare(case):
    """ Build + init + describe; returns (sim, desc) or raises """
    with warnings.catch_warnings():
        warnings.simplefilter('ignore')
        sim = build(case)
        sim.init()
    desc = describe(sim)
    desc['sim_start'] = case['sim'].get('start')
    return sim, desc


def separated(desc, nfuncs):
    """ Python-side evaluation of `Separated`: distinct time values of any owners differ by at least nfuncs eps """
    ts = sorted({t for tv in desc['tvecs'] for t in tv})
    return all(b - a >= nfuncs for a, b in zip(ts, ts[1:]))


# ---------------------------------------------------------------------------

def correspond(ctx):
    import starsim as ss
    facts = ctx.extracted.get('PhaseOrder', {}).get('facts') or {}
    # runtime cross-check of the extracted constants
    if facts:
        from fractions import Fraction
        if Fraction(facts['time_eps']) != Fraction(repr(ss.options.time_eps)):
            ctx.broke('extract', 'PhaseOrder', f"time_eps extracted {facts['time_eps']} but ss.options.time_eps = {ss.options.time_eps!r}")
    rows = (ctx.extracted.get('LoopFacts', {}).get('facts') or {}).get('rows') or []
    ncases = ctx.budget(90, 600)
    cases = [gen_case(ctx.rng) for _ in range(ncases)]
    corpus = load_corpus()
    try:
        zc = zoo_cases()
    except Exception as e:
        ctx.count('zoo_exceptions'); ctx.notes['last_zoo_exception'] = f'zoo_cases: {type(e).__name__}: {e}'; zc = []
    cases = corpus + scenarios() + zc + cases
    prepared = []
    lines = []
    inst_cases = []
    for case in cases:
        try:
            sim, desc = prepare(case)
        except Exception as e:
            ctx.count('rejected_' + type(e).__name__)
            if 'zoo' in case:
                ctx.count('zoo_exceptions'); ctx.notes['last_zoo_exception'] = f"{case['zoo']} (correspond, build/init): {type(e).__name__}: {e}"
            continue
        if 'zoo' in case: ctx.count('zoo_correspond')
        if None in desc['kinds']:
            ctx.broke('correspondence', 'C08.kinds', 'a module of sim.modules is in no known container', data=case)
            continue
        if desc['worst'] > 1e-3:
            ctx.broke('correspondence', 'C08.eps', f"an abstvec entry is not a multiple of time_eps (off by {desc['worst']:.3g} eps)", data=case)
            continue
        try:
            with warnings.catch_warnings():
                warnings.simplefilter('ignore')
                nplan = len(sim.loop.plan)
                funcs = [(owner_index(sim, desc['mods'], r['func'].__self__), r['func_name'], r['func'].__self__ is sim.people,
                          sched_owner_index(sim, desc['mods'], r['module'])) for r in sim.loop.funcs]
                rec, final = run_recorded(sim, desc)
        except Exception as e:
            if has_real(case):      # an exception inside a real module's own step is not a scheduling matter
                ctx.count('real_module_run_raised_' + type(e).__name__)
                if 'zoo' in case:
                    ctx.count('zoo_exceptions'); ctx.notes['last_zoo_exception'] = f"{case['zoo']} (correspond, run): {type(e).__name__}: {e}"
                continue
            ctx.broke('correspondence', 'C08.run', f'run of an accepted configuration raised {type(e).__name__}: {e}', data=case)
            continue
        prepared.append((case, desc, funcs, rec, final, nplan))
        lines.append(model_line(desc))
        inst_cases.extend(instant_lines(sim, desc, case))
    out = ctx.drive(DRIVER, lines + [x[0] for x in inst_cases]) if lines else []
    # calendar clocks in year sims: the code's time vector of every date-based day/week/month owner against
    # Model/LoopInstant.lean applied to the dates its clock shows
    for (line, case, name, impl), ml in zip(inst_cases, out[len(lines):]):
        ctx.count('instant_vectors')
        ctx.count('instant_points', len(impl))
        div = None
        if not ml.startswith('ok '):
            div = f'model answered {ml[:80]}'
        else:
            kv = dict(p_.split('=', 1) for p_ in ml.split(' ')[1:])
            mv = [int(x) for x in kv['v'].split(',')] if kv.get('v', '-') not in ('-', '') else []
            if kv.get('inc') != '1':
                div = f'the dates shown by the clock of {name} are not strictly increasing existing days'
            elif mv != impl:
                k = next((i for i, (a, b) in enumerate(zip(mv, impl)) if a != b), min(len(mv), len(impl)))
                div = (f'time vector of {name}: point {k} (clock reads {line.split(" ")[2].split(",")[k] if k < len(impl) else "-"} as year:day-of-year) '
                       f'impl={impl[k] if k < len(impl) else None} eps, model={mv[k] if k < len(mv) else None} eps')
        if div:
            ctx.broke('correspondence', 'C08.instant', f'a date-based owner\'s time vector in a year sim diverges from Model/LoopInstant.lean: {div}',
                      data=dict(case=case, model=ml[:300]))
            break
    out = out[:len(lines)]
    for (case, desc, funcs, rec, final, nplan), ml in zip(prepared, out):
        div = compare(desc, funcs, rec, final, ml, rows)
        nontrivial = any(tv != desc['tvecs'][0] for tv in desc['tvecs'][1:])
        m = parse_model(ml) if ml.startswith('ok') else {}
        sep = m.get('sep') == '1'
        ctx.count('cases_separated' if sep else 'cases_not_separated')
        ctx.count('plan_entries', len(rec))
        for k in desc['kinds']: ctx.count('kind_' + k)
        ctx.case(('c08', tuple(desc['kinds']), tuple(map(tuple, desc['tvecs']))), nontrivial,
                 sample=dict(sim=case['sim'], modules=[(m_['cls'], m_['time']) for m_ in case['mods']][:6], funcs=len(funcs), plan=len(rec), separated=sep))
        if div:
            if 'zoo' in case: div = f"[zoo:{case['zoo']}] {div}"
            ctx.broke('correspondence', 'C08.schedule', f'executed schedule diverges from Model/Loop.lean: {div}', data=dict(case=case, model=ml[:600]))
            break


def compare(desc, funcs, rec, final, ml, rows):
    if not ml.startswith('ok'):
        return f'model answered {ml[:80]}'
    m = parse_model(ml)
    # function list: owner and method (via the table row)
    if len(m['funcs']) != len(funcs):
        return f"number of collected functions: impl={len(funcs)} model={len(m['funcs'])}"
    for i, ((msched, mo, mfin, mrow), (io, iname, ipeople, isched)) in enumerate(zip(m['funcs'], funcs)):
        if mo != io:
            return f'function {i}: clock owner impl={io} model={mo}'
        if msched != isched:
            return f'function {i} ({iname} of owner {io}): scheduled on the time vector of owner impl={isched} model={msched}'
        if rows:
            cont, meth, _ = rows[mrow]
            if meth != iname:
                return f'function {i}: method impl={iname} model={meth} (row {mrow})'
            if (cont == 'sim.people') != bool(ipeople):
                return f'function {i}: people-ness differs (row {mrow} = {cont})'
    if m['mono'] != '1':
        return 'a time vector of the code is not strictly increasing'
    eps = desc['eps']
    impl = []
    for (t, o, oi, ti, sched, nm, ppl) in rec:
        k, err = to_eps(t, eps)
        impl.append((k, o, oi, ti))
    if len(impl) != len(m['plan']):
        return f"plan length: impl={len(impl)} model={len(m['plan'])}"
    if m['sep'] == '1':
        for i, (a, b) in enumerate(zip(impl, m['plan'])):
            mt, mo, msch, mow, mk, mclk = b
            if a[:3] != (mt, mo, mow):
                return f'entry {i}: impl (time,order,clock owner)={a[:3]} model={(mt, mo, mow)}'
            if a[3] != mclk:
                return f'entry {i} (time {mt} eps, func_order {mo}, owner {mow}): owner clock at invocation impl ti={a[3]} model ti={mclk}'
    else:
        # keys tie or owners interleave: compare as multisets, and the executed order must be sorted by the exact key
        if sorted(x[:3] for x in impl) != sorted((x[0], x[1], x[3]) for x in m['plan']):
            return 'executed entries are not the model\'s cross product (as multisets)'
        keys = [x[0] + x[1] for x in impl]
        if any(b < a for a, b in zip(keys, keys[1:])):
            return 'executed order is not sorted by time + eps*func_order'
    if final != m['final']:
        return f"final clocks: impl={final} model={m['final']}"
    return None


# ---------------------------------------------------------------------------
# oracle on the real code

# which symptoms each recorded defect of the unchanged tree can produce; any other symptom in such a configuration is a VIOLATION
CONSEQUENCES = {
    'timepoints-closer-than-eps-x-nfuncs': ('time-order', 'phase-order', 'clock', 'calendar-order', 'calendar-order-month'),
    'module-names-collide': ('multiplicity', 'clock', 'final-clock', 'calendar-order', 'calendar-order-month', 'time-order', 'run-raised',
                             'own-instant', 'own-instant-month'),
}
STATS = {}


def oracle_case(case, errs=None):
    """ Run the real code only; return list of failures (signature, what); None = not a case (why: appended to errs) """
    try:
        sim, desc = prepare(case)
    except Exception as e:
        if errs is not None: errs.append(f'build/init raised {type(e).__name__}: {e}')
        return None
    fails = []
    mods = desc['mods']
    owners = [sim] + mods
    kinds = ['sim'] + desc['kinds']
    nfuncs = len(sim.loop.funcs)
    near = not separated(desc, nfuncs)
    # attribution to the two recorded defects of the unchanged tree (by configuration class, not by symptom)
    cause = 'module-names-collide' if desc['collide'] else ('timepoints-closer-than-eps-x-nfuncs' if near else 'none')
    # reference cross product: every per-step method of every owner, once per point of ITS OWN time vector
    import starsim as ss
    expected = {}
    def methods_of(i, o, kind):
        if kind == 'sim': return ['start_step', 'finish_step']
        ms = ['start_step', 'update_results', 'finish_step']
        if kind in ('demographics', 'connectors', 'networks', 'interventions', 'analyzers', 'diseases'): ms.append('step')
        if kind == 'diseases' and isinstance(o, ss.Disease): ms.append('step_state')
        return ms
    for i, (o, kind) in enumerate(zip(owners, kinds)):
        for meth in methods_of(i, o, kind):
            for k in range(len(desc['tvecs'][i])):
                expected[(i, False, meth, desc['tvecs'][i][k])] = 0
    for meth in ('step_die', 'update_results', 'finish_step'):
        for t in desc['tvecs'][0]:
            expected[(0, True, meth, t)] = 0
    partial = None
    try:
        with warnings.catch_warnings():
            warnings.simplefilter('ignore')
            rec, final = run_recorded(sim, desc)
            reruns = rerun_after_completion(sim, mods)
    except Exception as e:
        if not has_real(case):
            c = cause if 'run-raised' in CONSEQUENCES.get(cause, ()) else 'none'
            sig = dict(oracle='schedule', cause=c)
            if c == 'none': sig.update(what='run-raised', exc=type(e).__name__)
            return [dict(signature=sig, what=f'run of an accepted configuration raised {type(e).__name__}: {e}')]
        # a real module's own step raised: the exception itself is not a scheduling matter, but the calls executed BEFORE it are
        # still judged (order, phase, clock, own-instant, no call twice); completeness and final clocks are not
        partial = f'{type(e).__name__}: {e}'
        rec = list(desc.get('rec') or [])
        n_ = min(len(rec), len(desc.get('calendar') or []), len(desc.get('instant') or []))
        rec = rec[:n_]; final = None; reruns = []
        if errs is not None: errs.append(f'run raised {partial}')
    eps = desc['eps']
    prev_t = None; prev_phase = None; prev_cal = None; prev_lab = None
    checked = unchecked = 0
    for idx, (t, o, oi, ti, sched, nm, ppl) in enumerate(rec):
        tk, _ = to_eps(t, eps)
        key = (oi, ppl == 'people', nm, tk)
        lab = label(oi, nm, ppl, mods)
        if key not in expected:
            fails.append(('multiplicity', f'call #{idx} {lab} at t={t} is not a (method, own time point) of the reference schedule'))
        else:
            expected[key] += 1
        kind = 'people' if ppl == 'people' else kinds[oi]
        ph = phase_of(kind, nm)
        if ph is None:
            fails.append(('phase-order', f'call #{idx} {lab} belongs to no documented phase'))
            ph = -1
        if prev_t is not None:
            if tk < prev_t:
                fails.append(('time-order', f'call #{idx} {lab} scheduled at t={t} runs after a call scheduled at t={prev_t * eps:.6f}'))
            elif tk == prev_t and ph < prev_phase:
                fails.append(('phase-order', f'at t={t}: {lab} (phase "{PHASES[ph]}") runs after phase "{PHASES[prev_phase]}"'))
        prev_t, prev_phase = tk, ph
        if sched is None or to_eps(sched, eps)[0] != tk:
            fails.append(('clock', f'call #{idx} {lab} scheduled at t={t}: owner clock ti={ti} denotes '
                                   f'{"no time point" if sched is None else sched} instead'))
        # the instant the caller's OWN clock reading denotes (re-derived here from the reading alone: a date, a year, a
        # number of own units) IS the scheduled instant
        ins = desc['instant'][idx]
        if ins is None:
            unchecked += 1
        else:
            ref, tol, shown_r, month_sim = ins
            checked += 1
            if abs(ref - t) > tol:
                kind_ = 'own-instant'
                if month_sim and abs(ref - t) <= 4 / MEAN_DAYS['month'] + tol:
                    kind_ = 'own-instant-month'         # recorded defect: calendar months (dates) vs mean-length months (abstvec)
                fails.append((kind_, f'call #{idx} {lab} is scheduled at t={t:.6f} (sim units since the sim\'s start) while its own clock '
                                     f'(ti={ti}) reads {shown_r}, which is t={ref:.6f}'))
        # the executed schedule read on the callers' OWN clocks (dates / calendar years) never goes backwards
        c = desc['calendar'][idx]
        if c is not None and prev_cal is not None and c[0] == prev_cal[0]:
            tol = 0 if c[0] == 'date' else 2.5e-6
            if c[1] < prev_cal[1] - tol:
                shown = (lambda v: __import__('datetime').date.fromordinal(v).isoformat()) if c[0] == 'date' else (lambda v: f'{v:.6f}')
                kind_ = 'calendar-order'
                if c[0] == 'date' and sim.t.unit == 'month' and prev_cal[1] - c[1] <= 4:
                    kind_ = 'calendar-order-month'      # recorded defect: calendar months (dates) vs mean-length months (abstvec)
                fails.append((kind_, f'call #{idx} {lab}, whose own clock reads {shown(c[1])}, runs after {prev_lab}, whose own clock read {shown(prev_cal[1])}'))
        if c is not None:
            prev_cal, prev_lab = c, lab
    STATS['instant_checked'] = STATS.get('instant_checked', 0) + checked
    STATS['instant_unchecked'] = STATS.get('instant_unchecked', 0) + unchecked
    bad = [k for k, n in expected.items() if (n > 1 if partial else n != 1)]
    if bad:
        k = bad[0]
        fails.append(('multiplicity', f'{label(k[0], k[2], "people" if k[1] else None, mods)} at t={k[3] * eps:.6f} executed {expected[k]} times instead of once ({len(bad)} such)'))
    for i, o in enumerate(owners):
        if final is not None and final[i] != len(desc['tvecs'][i]) - 1:
            fails.append(('final-clock', f'after the run {label(i, "ti", None, mods)} = {final[i]} but the final index is {len(desc["tvecs"][i]) - 1}'))
    for name, clocks in reruns:
        if clocks != final:
            fails.append(('final-clock-after-rerun', f'a redundant sim.{name}() on the completed sim moved the clocks from {final} to {clocks}'))
            break
    out = []
    seen = set()
    for what, msg in fails:
        if what in seen: continue
        seen.add(what)
        c = cause if what in CONSEQUENCES.get(cause, ()) else 'none'
        if what in ('calendar-order-month', 'own-instant-month') and c == 'none':
            c = 'month-sim-mean-month-length'
        sig = dict(oracle='schedule', cause=c)
        if c == 'none':
            sig['what'] = what
        note = {'timepoints-closer-than-eps-x-nfuncs': ' (two owners have time points closer than time_eps x number of functions)',
                'module-names-collide': ' (two modules share a name, or a module is named "people")', 'none': '',
                'month-sim-mean-month-length': ' (month-unit sim: its own steps follow calendar months, modules of other units or with an own start are placed with 30.4375-day months)'}[c]
        out.append(dict(signature=sig, what=f'[{what}] {msg}{note}' + (f' (the run later raised {partial[:120]} inside a module\'s step)' if partial else '')))
    if partial and not out:
        return None         # nothing wrong in the executed prefix: a module's own exception, not a scheduling matter
    return out


def label(oi, nm, ppl, mods):
    if ppl == 'people': return f'people.{nm}'
    if oi == 0: return f'sim.{nm}'
    return f'{mods[oi - 1].name}.{nm}'


WITNESS = dict(sim=dict(unit='year', dt=1.0, start=2000, dur=1.0),
               mods=[dict(cls='PInt', name='p', time=dict(unit='year', dt=1.0, start=2000.000002))], n_agents=20, rand_seed=1)


def load_corpus():
    import os, json, glob
    here = os.path.dirname(os.path.dirname(os.path.dirname(os.path.abspath(__file__))))
    out = []
    for f in sorted(glob.glob(os.path.join(here, 'corpus', 'c08', '*.json'))):
        try: out.append(json.load(open(f)))
        except Exception: pass
    return out


def search(ctx):
    # the stored witness of the known finding, then generated cases
    cases = [WITNESS] + load_corpus() + scenarios()
    # cases a broken correspondence pointed at
    for b in ctx.broken:
        d = b.get('data') or {}
        if isinstance(d, dict) and 'case' in d and d['case'] not in cases:
            cases.append(d['case'])
    n = ctx.budget(60, 500)
    cases += [gen_case(ctx.rng, force_real=(i % 5 == 0)) for i in range(n)]
    search_zoo(ctx)
    for case in cases:
        if 'zoo' in case:       # (a zoo case a broken correspondence pointed at: already run by search_zoo)
            continue
        fails = oracle_case(case)
        if fails is None:
            ctx.count('oracle_rejected'); continue
        ctx.count('oracle_runs')
        for k_ in list(STATS):
            ctx.count('oracle_' + k_, STATS.pop(k_))
        for f in fails:
            ctx.fail(f['signature'], f['what'], dict(kind='case', case=case))


def search_zoo(ctx):
    """ All schedule oracles (exactly once per own time point, time order, phase order, clock = scheduled index, own-instant, calendar
        order, final clocks also after redundant run calls) over every entry of the shared scenario zoo, on every run """
    try:
        zc = zoo_cases()
    except Exception as e:
        ctx.count('zoo_exceptions'); ctx.notes['last_zoo_exception'] = f'zoo_cases: {type(e).__name__}: {e}'; return
    for case in zc:
        errs = []
        try:
            fails = oracle_case(case, errs=errs)
        except Exception as e:
            ctx.count('zoo_exceptions'); ctx.notes['last_zoo_exception'] = f"{case['zoo']}: {type(e).__name__}: {e}"; continue
        if fails is None:       # the entry did not build / init, or a real module's own step raised: not a scheduling matter
            ctx.count('zoo_exceptions'); ctx.notes['last_zoo_exception'] = f"{case['zoo']}: {errs[0] if errs else 'rejected'}"; continue
        ctx.count('zoo_runs')
        for k_ in list(STATS):
            ctx.count('oracle_' + k_, STATS.pop(k_))
        for f in fails:
            ctx.fail(f['signature'], f"[zoo:{case['zoo']}] " + f['what'], dict(kind='case', case=case))


def replay(ctx, data):
    fails = oracle_case(data['case'])
    for f in fails or []:
        print('  ', f['what'])
    return bool(fails)
