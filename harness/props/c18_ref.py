"""
Reference runs for C18 in PRISTINE processes.

"Running that simulation alone" (the right-hand side of the property) must not be influenced by anything that ran before:
a reference computed inside the harness process shares every piece of process-level state (class attributes, module
globals, memo tables, the process-global generators) with the multi-runs under test and with the references computed
earlier, so a leak through such state shows up on BOTH sides of the comparison and cancels.  This module keeps one server
process (a fresh interpreter that imports starsim and never runs a sim itself); every reference run is executed in a child
FORKED from it for that one run only (`maxtasksperchild=1`), i.e. in a process in which no simulation has ever run.

    client:  refs = fetch([(cfg, seed, host), ...])      -> list of {key: ndarray} (or {'__error__': text})
    server:  python -m harness.props.c18_ref              (started lazily, inherits PYTHONPATH / STARSIM_REPO of the check)

Protocol: length-prefixed pickles over stdin/stdout of the server.
"""
import os, sys, pickle, struct, subprocess, atexit

_SERVER = [None]
N_PAR = 8


def _send(f, obj):
    b = pickle.dumps(obj, protocol=4)
    f.write(struct.pack('<Q', len(b))); f.write(b); f.flush()


def _recv(f):
    h = f.read(8)
    if len(h) < 8: raise EOFError('reference server closed the pipe')
    n = struct.unpack('<Q', h)[0]
    return pickle.loads(f.read(n))


def _job(args):
    """ runs in a child forked from the server for this one job """
    cfg, seed, host = args
    try:
        import io, contextlib
        from harness.props import c18
        from harness import impl
        with contextlib.redirect_stdout(io.StringIO()):
            c18.set_host_state(host)
            sim = c18.build(cfg, seed)
            sim.run()
        return impl.flat_results(sim)
    except Exception as e:
        return {'__error__': f'{type(e).__name__}: {e}'}


def _serve():
    import multiprocessing as mp
    import starsim  # noqa: imported, never run here
    from harness.props import c18  # noqa
    inp, out = sys.stdin.buffer, os.fdopen(os.dup(1), 'wb')
    os.dup2(2, 1)      # anything printed goes to stderr, the reply channel stays clean
    while True:
        try:
            jobs = _recv(inp)
        except EOFError:
            return
        if jobs is None: return
        with mp.get_context('fork').Pool(min(N_PAR, max(1, len(jobs))), maxtasksperchild=1) as pool:
            res = pool.map(_job, jobs, chunksize=1)
        _send(out, res)


def _server():
    p = _SERVER[0]
    if p is None or p.poll() is not None:
        p = subprocess.Popen([sys.executable, '-W', 'ignore', '-m', 'harness.props.c18_ref'], stdin=subprocess.PIPE, stdout=subprocess.PIPE,
                             env=dict(os.environ), cwd=os.path.dirname(os.path.dirname(os.path.dirname(os.path.abspath(__file__)))))
        _SERVER[0] = p
        atexit.register(shutdown)
    return p


def fetch(jobs):
    """ [(cfg, seed, host)] -> results, each from a process in which nothing ran before """
    if not jobs: return []
    p = _server()
    _send(p.stdin, list(jobs))
    return _recv(p.stdout)


def shutdown():
    p = _SERVER[0]
    if p is not None and p.poll() is None:
        try:
            _send(p.stdin, None); p.stdin.close(); p.wait(timeout=10)
        except Exception:
            try: p.kill()
            except Exception: pass
    _SERVER[0] = None


if __name__ == '__main__':
    _serve()
