"""
C17 round 5 — helper module of harness/props/c17.py: the FIELDS of a time parameter supplied in list / dict form.

A duration / rate parameter can be configured with a number, an `ss.dur/ss.rate/...` object, a list `[v, unit, ...]`
(`old.set(*new)`) or a dict `dict(v=..., unit=..., self_dt=...)` (`old.set(**new)`).  Earlier rounds only ever supplied the
FIRST field (`[v]`, `{'v': v}`): what happens to the unit / parent unit / self_dt of a list or dict value — valid names,
aliases, names that are no time unit at all, non-strings — was exercised nowhere, and `TimePar.set / validate_units /
__init__`, `unit_mapping` and `time_units` were outside the model and the generated facts.

correspondence (`round5_cases`): driver op `tpset` / `tpctor` / `unitlookup` (Model/ParsTime.lean interpreting the regenerated
  statement list of `TimePar.set`, the regenerated `validate_units` fields and `unit_mapping_reverse`) vs the live
  `ss.dur/ss.rate/ss.time_prob/ss.beta` objects: every name of the table + generated non-names, through `set(*list)`,
  `set(**dict)` and the constructor, uninitialised / initialised / forced.
oracle (`oracle_timepar_field`, model-free, real code, replayable): for every TimePar parameter of every class x 8 forms x
  {a unit name, a string that is no unit name, a non-string} x route (direct / constructor / `pars=` / dict spec in ss.Sim):
  the module is built or an error is raised; if built, the value, the unit and self_dt in effect are the supplied ones (unit
  names judged against the documented table frozen in THIS file, not by calling the package's mapping) and equal the
  parameter built with the explicit constructor `type(old)(v, unit=..)`; sampled cases are then initialised inside a sim whose
  unit differs and the conversion factor is re-derived from the documented unit lengths.
"""
import numpy as np


def _B():
    from harness.props import c17 as B
    return B


# The documented unit names (starsim/time.py, "Unit handling") and unit lengths in days ("Define available time units"),
# frozen here so that the oracle does not ask the code under test what a unit name means.
DOC_UNITS = {
    'unitless': ['unitless', 'none'],
    'day': ['d', 'day', 'days', 'perday'],
    'year': ['y', 'yr', 'year', 'years', 'peryear'],
    'week': ['w', 'wk', 'week', 'weeks'],
    'month': ['m', 'mo', 'month', 'months'],
}
DOC_FN_UNITS = {'days': 'day', 'perday': 'day', 'years': 'year', 'peryear': 'year'}     # ss.days etc. are accepted as unit values too
DOC_LENGTH = dict(day=1.0, week=7.0, month=30.4375, year=365.25)
DOC_CANON = {n: c for c, ns in DOC_UNITS.items() for n in ns}
NOT_UNITS = ['Day', 'DAY', 'wks', 'annual', 'fortnight', 'dy', 'hour', 'sec', '', ' day', 'day ', 'year-1', 'Years', 'mth', 'per_day', 'None', 'unit']
NON_STRINGS = [7, 2.5, True]

FORMS = ['list2', 'list3', 'dict-vu', 'dict-uv', 'dict-u', 'dict-vus', 'list-pu', 'dict-pu']
ROUTES = ['direct', 'ctor', 'ctor-pars', 'spec']


def enc_unit(u):
    """ JSON-able encoding of a unit value """
    if callable(u): return {'fn': u.__name__}
    return u


def dec_unit(u):
    import starsim as ss
    if isinstance(u, dict): return getattr(ss, u['fn'])
    return u


def doc_canon(u):
    """ canonical unit the DOCUMENTED table gives for the supplied value; 'invalid' if it is no unit name """
    if u is None: return None
    if callable(u): return DOC_FN_UNITS.get(getattr(u, '__name__', ''), 'invalid')
    if isinstance(u, str): return DOC_CANON.get(u, 'invalid')
    return 'invalid'


def gen_not_unit(rng):
    """ a string that is no documented unit name: a fixed plausible one or a perturbation of a real name """
    if rng.random() < 0.5:
        return rng.choice(NOT_UNITS)
    base = rng.choice(sorted(DOC_CANON))
    how = rng.randint(0, 4)
    if how == 0: s = base.capitalize()
    elif how == 1: s = base + rng.choice('sxz_')
    elif how == 2: s = base[:-1] if len(base) > 1 else base + base
    elif how == 3: s = base.upper()
    else: s = rng.choice('abcdefgh') + base
    return s if s not in DOC_CANON else s + '_q'


def build_value(form, v, u, sdt, pu):
    """ -> (value to supply, dict of the fields it supplies: v / unit / parent_unit / self_dt) """
    if form == 'list2': return [v, u], dict(v=v, unit=u)
    if form == 'list3': return [v, u, pu], dict(v=v, unit=u, parent_unit=pu)
    if form == 'dict-vu': return dict(v=v, unit=u), dict(v=v, unit=u)
    if form == 'dict-uv': return dict(unit=u, v=v), dict(v=v, unit=u)
    if form == 'dict-u': return dict(unit=u), dict(unit=u)
    if form == 'dict-vus': return dict(v=v, unit=u, self_dt=sdt), dict(v=v, unit=u, self_dt=sdt)
    if form == 'list-pu': return [v, pu, u], dict(v=v, unit=pu, parent_unit=u)         # `u` in the parent_unit position
    if form == 'dict-pu': return dict(v=v, parent_unit=u), dict(v=v, parent_unit=u)
    raise ValueError(form)


def snap(tp):
    import starsim as ss
    if not isinstance(tp, ss.TimePar): return dict(cls=type(tp).__name__, repr=repr(tp)[:60])
    v = tp.v
    return dict(cls=type(tp).__name__, v=float(v) if np.isscalar(v) else repr(v)[:40], unit=tp.unit, self_dt=tp.self_dt)


def timepar_targets(targets):
    """ [(cls, probe, par)] for every parameter whose default is a TimePar """
    B = _B()
    out = []
    for cls, probe in targets:
        try: m0 = cls() if probe else B.construct(cls)
        except Exception: continue
        for par in m0.pars.keys():
            if B.okind_of(m0.pars[par]) in ('timeparD', 'timeparN', 'beta'):
                out.append((cls, probe, par))
    return out


def registered_name(cls):
    import starsim as ss
    for mk, d in ss.find_modules().items():
        for name, c in d.items():
            if c is cls and mk in _B().MODKEYS: return mk, name
    return None


def sim_around(m, simunit):
    """ a small sim around module `m`, initialised; -> the module inside the sim """
    import starsim as ss
    kw = dict(n_agents=40, unit=simunit, dt=1.0, dur=3, verbose=0)
    if simunit != 'year': kw['start'] = '2000-01-01'
    if isinstance(m, ss.Disease): kw.update(diseases=m, networks=dict(type='random', n_contacts=2))
    elif isinstance(m, ss.Network): kw.update(networks=m)
    elif isinstance(m, ss.Demographics): kw.update(demographics=m)
    elif isinstance(m, ss.Intervention): kw.update(interventions=m)
    elif isinstance(m, ss.Analyzer): kw.update(analyzers=m)
    elif isinstance(m, ss.Connector): kw.update(connectors=m)
    else: raise TypeError('no slot')
    sim = ss.Sim(**kw); sim.init()
    for mk in _B().MODKEYS:
        for mm in sim[mk].values():
            if type(mm) is type(m): return mm
    raise LookupError('module not in sim')


def oracle_timepar_field(cls, par, form, tok, u, sdt, pu, route, probe=False, simunit=None):
    """ one (class, TimePar parameter, form, unit value, route): in effect as supplied, or rejected  -> None | failure dict """
    import starsim as ss
    B = _B()
    B.quiet()
    try: m0 = cls() if probe else B.construct(cls)
    except Exception: return None
    old = m0.pars[par]
    if not isinstance(old, ss.TimePar): return None
    if isinstance(old, ss.beta) and form.startswith('dict'): return None       # a dict for beta is a per-network map (round 3)
    tpcls = type(old)
    old_v, old_unit, old_sdt = old.v, old.unit, old.self_dt
    v = B.sentinel(tok)
    value, fields = build_value(form, v, u, sdt, pu)
    data = dict(kind='timepar-field', cls=cls.__name__, probe=probe, par=par, form=form, tok=tok, u=enc_unit(u), sdt=sdt, pu=pu, route=route, simunit=simunit)
    reg = registered_name(cls)
    if route == 'spec' and (probe or reg is None): route = 'ctor'
    shown = f"{cls.__name__}({par}={value!r}) [{route}]"

    def make(val):
        if route == 'direct':
            m = cls() if probe else B.construct(cls)
            m.pars.update({par: val}); return m
        if route == 'ctor': return cls(**{par: val}) if probe else B.construct(cls, **{par: val})
        if route == 'ctor-pars': return cls(pars={par: val}) if probe else B.construct(cls, pars={par: val})
        if route == 'spec':
            s = ss.Sim(**{reg[0]: dict(type=reg[1], **{par: val})}); s.pars.validate()
            return list(s.pars[reg[0]].values())[0]
        raise ValueError(route)

    # the explicit-constructor spelling of the same thing
    rkw = dict(unit=fields.get('unit') if fields.get('unit') is not None else old_unit,
               self_dt=fields.get('self_dt') if fields.get('self_dt') is not None else old_sdt)
    if fields.get('parent_unit') is not None: rkw['parent_unit'] = fields['parent_unit']
    try: ref = tpcls(fields.get('v', old_v), **rkw); ref_err = None
    except Exception as e: ref = None; ref_err = e
    try: m = make(value); err = None
    except Exception as e: m = None; err = e

    sup_unit = fields.get('unit'); sup_pu = fields.get('parent_unit')
    cu = doc_canon(sup_unit); cpu = doc_canon(sup_pu)
    if err is not None:
        if ref is not None and 'invalid' not in (cu, cpu):
            return dict(signature=dict(oracle='timepar-forms-differ', form=form),
                        what=f"{shown} raised {type(err).__name__} ({str(err)[:80]}), but the explicit spelling {tpcls.__name__}({fields.get('v', old_v)}, {rkw}) of the same value is accepted", data=data)
        return None      # rejected
    tp = m.pars[par]
    if not isinstance(tp, tpcls):
        return dict(signature=dict(oracle='timepar-field-dropped', field='class', form=form),
                    what=f"{shown} returned normally but the parameter in effect is {snap(tp)} instead of a {tpcls.__name__}", data=data)
    # (1) names that are no unit must not be accepted
    for field, sup, c, got in (('unit', sup_unit, cu, tp.unit), ('parent_unit', sup_pu, cpu, tp.parent_unit)):
        if c == 'invalid':
            refgot = getattr(ref, field, 'n/a') if ref is not None else 'n/a'
            if got in DOC_LENGTH and refgot == got: continue     # the package accepts a new alias consistently: it is in effect as a real unit
            return dict(signature=dict(oracle='invalid-unit-accepted', field=field, form=form),
                        what=(f"{shown} returned normally although {field}={sup!r} is not a time unit "
                              f"(explicit constructor: {'accepted' if ref is not None else type(ref_err).__name__}); in effect: {field}={got!r} "
                              f"- the supplied unit is neither in effect nor rejected"), data=data)
    # (2) the supplied fields are in effect
    want_v = fields.get('v', old_v)
    if not (np.isscalar(tp.v) and tp.v == want_v):
        return dict(signature=dict(oracle='timepar-field-dropped', field='v', form=form), what=f"{shown}: value in effect {tp.v!r}, supplied/expected {want_v!r}", data=data)
    want_u = cu if sup_unit is not None else old_unit
    if tp.unit != want_u:
        return dict(signature=dict(oracle='timepar-field-dropped', field='unit', form=form),
                    what=f"{shown}: unit in effect {tp.unit!r}, expected {want_u!r} (supplied {sup_unit!r}; default was {old_unit!r})", data=data)
    want_s = fields.get('self_dt') if fields.get('self_dt') is not None else old_sdt
    if tp.self_dt != want_s:
        return dict(signature=dict(oracle='timepar-field-dropped', field='self_dt', form=form), what=f"{shown}: self_dt in effect {tp.self_dt!r}, expected {want_s!r}", data=data)
    # (3) same as the explicit constructor
    if ref is None:
        return dict(signature=dict(oracle='timepar-forms-differ', form=form),
                    what=f"{shown} is accepted, but the explicit spelling {tpcls.__name__}({want_v}, {rkw}) raises {type(ref_err).__name__} ({str(ref_err)[:60]})", data=data)
    if snap(ref) != snap(tp):
        return dict(signature=dict(oracle='timepar-forms-differ', form=form), what=f"{shown} is in effect as {snap(tp)}, the explicit constructor gives {snap(ref)}", data=data)
    # (4) initialised inside a sim: the conversion factor re-derived from the documented unit lengths
    if simunit is not None and want_u in DOC_LENGTH:
        try:
            mref = sim_around(make(tpcls(want_v, **rkw)), simunit)
        except Exception:
            return None       # this class cannot be run stand-alone
        try:
            mm = sim_around(m, simunit)
        except Exception as e:
            return dict(signature=dict(oracle='timepar-forms-differ', form=form, stage='init'),
                        what=f"{shown}: sim.init() raises {type(e).__name__} ({str(e)[:60]}) but works with the explicit constructor spelling", data=data)
        t2, r2 = mm.pars[par], mref.pars[par]
        punit, pdt = t2.parent_unit, t2.parent_dt       # what the parameter was linked to (HIV: its own unit is 'year' but its parameters are linked to the sim's)
        if t2.unit != want_u or (punit in DOC_LENGTH and not np.isclose(t2.factor, DOC_LENGTH[want_u] * want_s / (DOC_LENGTH[punit] * pdt), rtol=1e-12, atol=0)):
            return dict(signature=dict(oracle='timepar-field-dropped', field='unit', form=form, stage='init'),
                        what=(f"{shown} in a sim with unit={punit!r}, dt={pdt}: unit in effect {t2.unit!r}, factor {t2.factor!r}; expected unit {want_u!r}, "
                              f"factor {DOC_LENGTH[want_u] * want_s / (DOC_LENGTH.get(punit, np.nan) * pdt)!r}"), data=data)
        same = (t2.values is None and r2.values is None) or (t2.values is not None and r2.values is not None and np.array_equal(np.asarray(t2.values), np.asarray(r2.values)))
        if not same or t2.factor != r2.factor:
            return dict(signature=dict(oracle='timepar-forms-differ', form=form, stage='init'),
                        what=f"{shown} after sim.init(): per-step value {t2.values!r} (factor {t2.factor!r}) vs {r2.values!r} (factor {r2.factor!r}) with the explicit constructor", data=data)
    return None


# ---------------------------------------------------------------------------
# correspondence: TimePar.set / constructor / unit table vs Model/ParsTime.lean over the regenerated facts

def render_unit(u):
    if u is None: return '-'
    if callable(u): return f'<fn:{u.__name__}>'
    if isinstance(u, str): return u
    return f'<{type(u).__name__}:{u!r}>'


def show_tp(tp):
    return f"ok {int(round(tp.v * 4096))} {render_unit(tp.unit)} {render_unit(tp.parent_unit)} {'-' if tp.parent_dt is None else int(tp.parent_dt)} {'-' if tp.self_dt is None else int(tp.self_dt)}"


def live_err(e):
    import sciris as sc
    if isinstance(e, KeyError): return 'E:KeyNotFound'      # sc.KeyNotFoundError for a str key of time_units, plain KeyError for a function key
    if isinstance(e, ValueError): return 'E:Value'
    if isinstance(e, TypeError): return 'E:Type'
    return 'E:Other:' + type(e).__name__


def round5_cases(ctx, ask):
    import starsim as ss
    B = _B()
    B.quiet()
    facts = (ctx.extracted.get('ParsTimePar') or {}).get('facts') or {}
    ctx.notes['timepar_set_steps'] = facts.get('set_steps')
    # the regenerated table vs the live mapping and vs the documented table frozen in this file
    live = {render_unit(k): render_unit(v) for k, v in ss.time.unit_mapping.items()}
    doc = {n: c for n, c in DOC_CANON.items()}; doc.update({f'<fn:{n}>': c for n, c in DOC_FN_UNITS.items()}); doc['-'] = '-'
    if live != doc:
        diff = sorted(set(live.items()) ^ set(doc.items()))[:6]
        ctx.broke('correspondence', 'C17.unit-table', f'live ss.time.unit_mapping differs from the documented table frozen in the harness: {diff}',
                  data=dict(kind='timepar-field', cls='SIS', probe=False, par='waning', form='list2', tok=20, u=str(diff[0][0]), sdt=2.0, pu='day', route='ctor'))
    if dict(ss.time.time_units) != DOC_LENGTH:
        ctx.broke('correspondence', 'C17.time-units', f'ss.time_units {dict(ss.time.time_units)} differs from the documented unit lengths {DOC_LENGTH}')
    units = sorted(DOC_CANON) + [getattr(ss, n) for n in sorted(DOC_FN_UNITS)] + [None]
    junk = [x for x in NOT_UNITS + [gen_not_unit(ctx.rng) for _ in range(6)] if not isinstance(x, str) or (x and ' ' not in x)] + NON_STRINGS
    for u in units + junk:
        try: impl = 'ok ' + render_unit(ss.time.unit_mapping[u])
        except KeyError: impl = 'E:Key'

        def cb(ml, impl=impl, u=u):
            ctx.count('r5_unitlookup')
            if ml[0] != impl:
                ctx.broke('correspondence', 'C17.unit-table', f'unit_mapping[{u!r}]: impl={impl} model={ml[0]}')
        ask([f'unitlookup {render_unit(u)}'], cb)
    classes = [ss.dur, ss.rate, ss.time_prob, ss.rate_prob, ss.beta]
    n = 0
    for tpcls in classes:
        for state in ('fresh', 'fresh-unit', 'live', 'live-same'):
            for u in units + junk:
                for field in ('unit', 'parent_unit'):
                    n += 1
                    form = ('list', 'dict', 'dict-force')[n % 3] if state.startswith('fresh') or n % 5 else 'dict-force'
                    if form == 'dict-force' and n % 4: form = 'dict'
                    ov = ctx.rng.randint(1, 3000); v = ctx.rng.randint(1, 3000); sdt = ctx.rng.choice([None, 1, 2])
                    give_v = ctx.rng.random() < 0.7
                    old = tpcls(ov / 4096.0, unit={'fresh': None, 'fresh-unit': 'day', 'live': 'day', 'live-same': 'year'}[state])
                    if state.startswith('live'): old.init(parent_unit='year', parent_dt=1.0)
                    before = f"{int(old.initialized)} {ov} {render_unit(old.unit)} {render_unit(old.parent_unit)} {'-' if old.parent_dt is None else int(old.parent_dt)} {'-' if old.self_dt is None else int(old.self_dt)}"
                    a = dict(v=v / 4096.0 if give_v else None, unit=u if field == 'unit' else None, parent_unit=u if field == 'parent_unit' else None,
                             parent_dt=None, self_dt=float(sdt) if sdt else None)
                    try:
                        if form == 'list': old.set(*[a['v'], a['unit'], a['parent_unit'], a['parent_dt'], a['self_dt']])
                        else: old.set(**{k: x for k, x in a.items() if x is not None}, **(dict(force=True) if form == 'dict-force' else {}))
                        impl = show_tp(old)
                    except Exception as e:
                        impl = live_err(e)
                    line = (f"tpset {before} | {v if give_v else '-'} {render_unit(a['unit'])} {render_unit(a['parent_unit'])} - {sdt if sdt else '-'} "
                            f"{1 if form == 'dict-force' else 0}")

                    def cb(ml, impl=impl, line=line, tpcls=tpcls, state=state, u=u, field=field, form=form):
                        ctx.case(('tpset', tpcls.__name__, state, render_unit(u), field, form), True,
                                 sample=dict(kind='timepar-set', line=line, impl=impl, model=ml[0]) if ctx.rng.random() < 0.01 else None)
                        ctx.count('r5_tpset')
                        same_verdict = ml[0] == impl or (state.startswith('live') and ml[0].startswith('E:') and impl.startswith('E:'))
                        # (on a live parameter the cached factor is recomputed with the raw value first: WHICH error time_units[...] gives
                        #  for a non-name - KeyNotFound / IndexError / TypeError for str / int / float keys of an objdict - is incidental)
                        if not same_verdict and len([b for b in ctx.broken if b['name'] == 'C17.timepar-set']) < 6:
                            ctx.broke('correspondence', 'C17.timepar-set', f'{tpcls.__name__}.set [{state}, {form}] `{line}`: impl={impl} model={ml[0]}',
                                      data=dict(kind='timepar-field', cls='SIS', probe=False, par='waning', form='dict-vu' if field == 'unit' else 'dict-pu', tok=20,
                                                u=enc_unit(u), sdt=2.0, pu='day', route='ctor'))
                    ask([line], cb)
                # the constructor
                v = ctx.rng.randint(1, 3000)
                try: impl = show_tp(tpcls(v / 4096.0, unit=u, self_dt=2.0))
                except Exception as e: impl = live_err(e)

                def cb2(ml, impl=impl, u=u, tpcls=tpcls):
                    ctx.count('r5_tpctor')
                    if ml[0] != impl and len([b for b in ctx.broken if b['name'] == 'C17.timepar-ctor']) < 4:
                        ctx.broke('correspondence', 'C17.timepar-ctor', f'{tpcls.__name__}(v, unit={u!r}, self_dt=2): impl={impl} model={ml[0]}')
                if state == 'fresh':
                    ask([f"tpctor {v} {render_unit(u)} - - 2"], cb2)


def round5_search(ctx, targets):
    B = _B()
    B.quiet()
    tps = timepar_targets(targets)
    ctx.notes['timepar_parameters'] = len(tps)
    valid_names = sorted(DOC_CANON)
    k = 0
    initable = []
    for cls, probe, par in tps:
        for form in FORMS:
            for family in ('name', 'name', 'name', 'not-a-unit', 'not-a-unit'):
                k += 1
                import starsim as ss
                if family == 'name':
                    r = ctx.rng.random()
                    u = ctx.rng.choice(valid_names) if r < 0.85 else getattr(ss, ctx.rng.choice(sorted(DOC_FN_UNITS))) if r < 0.95 else None
                else:
                    u = gen_not_unit(ctx.rng) if ctx.rng.random() < 0.8 else ctx.rng.choice(NON_STRINGS)
                route = ROUTES[(k + ctx.rng.randint(0, 3)) % len(ROUTES)]
                tok = 10 + ctx.rng.randint(0, 900)
                sdt = ctx.rng.choice([0.5, 2.0, 3.0]); pu = ctx.rng.choice(sorted(DOC_LENGTH))
                f = oracle_timepar_field(cls, par, form, tok, u, sdt, pu, route, probe)
                ctx.count('oracle_timepar_field')
                if f: ctx.fail(f['signature'], f['what'], f['data'])
        if not probe: initable.append((cls, probe, par))
    # initialised inside a sim (sampled; every form once)
    ctx.rng.shuffle(initable)
    n = ctx.budget(24, len(initable) * 3)
    done = 0
    for i in range(len(initable) * 3):
        if done >= n or not initable: break
        cls, probe, par = initable[i % len(initable)]
        form = FORMS[i % 6]        # the forms that supply a unit
        u = ctx.rng.choice([x for x in valid_names if DOC_CANON[x] in DOC_LENGTH])
        simunit = ctx.rng.choice([c for c in ('day', 'week', 'year') if c != DOC_CANON[u]])
        f = oracle_timepar_field(cls, par, form, 10 + ctx.rng.randint(0, 900), u, ctx.rng.choice([0.5, 2.0]), 'day', ROUTES[i % 3], probe, simunit=simunit)
        ctx.count('oracle_timepar_field_init'); done += 1
        if f: ctx.fail(f['signature'], f['what'], f['data'])


def replay(ctx, data):
    if data.get('kind') != 'timepar-field': return None
    B = _B()
    cls = B.resolve_cls(data['cls'], data.get('probe'))
    return bool(oracle_timepar_field(cls, data['par'], data['form'], data['tok'], dec_unit(data['u']), data['sdt'], data['pu'], data['route'],
                                     data.get('probe', False), simunit=data.get('simunit')))
