"""
C10 — Population bookkeeping stays consistent under births and deaths.

correspond(): (1) random operation sequences on a REAL ss.People attached to a minimal sim (grow with sizes around the
                  reallocation rule, with/without explicit slots; request_death incl. repeats and already-dead agents;
                  step_die; update_results; remove_dead; finish_step; late registration of a state) compared after every
                  operation with Model/People.lean: uid space, auids, (len_used, len_tot) of every registered state, the
                  storage of uid/slot/parent/alive/ti_dead, recorded n_alive/new_deaths.
              (2) generated demographic sims (Deaths, Pregnancy with maternal/neonatal death, SIR with deaths): every call
                  of People.grow/request_death/step_die/update_results/finish_step is recorded with its arguments and the
                  population after it, and the recorded history is replayed through the model.
search():     the invariants of the property evaluated directly on the real objects at every recorded call of generated
              demographic sims and of random operation sequences (no model).
"""
import numpy as np
from harness import impl
from harness.props.c11 import cv, nats, toks, TYPES, make_arr, err_kind

PROP = 'C10'
GENERATED = ['ArrConsts']
DRIVER = 'Drivers/C10.lean'
DRIVER_MODULES = ['StarsimModel.Model.People', 'StarsimModel.Model.Arr', 'StarsimModel.Model.Proto']
RULE = ('(1) operation sequences (30-45 ops) on a real ss.People: grow sizes around the 50% reallocation rule, death requests '
        '(active, repeated, already dead), death resolution, removal, results, clock ticks, late state registration; '
        '(2) recorded People call histories of generated sims with Deaths / Pregnancy (maternal + neonatal death) / SIR with deaths; '
        'distinct = distinct canonical op sequence; non-trivial = at least one reallocation-free grow, one reallocating grow and one removal')
TRUSTED = ['np.isin / np.unique as used by remove_dead; the monkey-patched recorders only observe (they call the original method first)']
ASSUMPTIONS = ['modules change life status only through People.request_death / step_die (direct writes to alive/ti_dead by a module are outside the model; the sim replay compares alive/ti_dead after every call and would flag them)']


class HarnessError(Exception):
    pass


# ---------------------------------------------------------------------------
# observation of a real People

def lens(a):
    return f'{int(a.len_used)}:{int(a.len_tot)}'


def observe(p, sim, written):
    core = {id(p.alive), id(p.ti_dead)}
    others = [a for k, a in p._states.items() if k not in core]
    return dict(n=int(p.uid.len_used), ti=int(sim.t.ti), au=[int(u) for u in p.auids],
                uid=(lens(p.uid), [cv(x) for x in np.asarray(p.uid.raw)]),
                slot=(lens(p.slot), [cv(x) for x in np.asarray(p.slot.raw)]),
                parent=(lens(p.parent), [cv(x) for x in np.asarray(p.parent.raw)]),
                alive=(lens(p.alive), [cv(x) for x in np.asarray(p.alive.raw)]),
                tidead=(lens(p.ti_dead), [cv(x) for x in np.asarray(p.ti_dead.raw)]),
                states=[lens(a) for a in others], rawlens=[len(a.raw) for a in others],
                nalive=[(t, int(sim.results.n_alive[t])) for t in written], newdeaths=[(t, int(sim.results.new_deaths[t])) for t in written])


def parse_model(line):
    parts = line.split(' ')
    out = dict(st=parts[0])
    for q in parts[1:]:
        if '=' in q:
            k, v = q.split('=', 1); out[k] = v
    return out


def lst(s):
    return [] if s == '-' else s.split(',')


def compare(obs, ml, sim_mode=False):
    """ observation vs model line; None when they agree """
    if ml == 'bad-op': return 'model rejected the operation line'
    m = parse_model(ml)
    if obs['st'] != m['st']:
        return f"outcome: impl={obs['st']} ({obs.get('msg', '')}) model={m['st']}"
    if obs['st'] != 'ok': return None
    o = obs['obs']
    if str(o['n']) != m['n']: return f"uid space: impl={o['n']} model={m['n']}"
    if str(o['ti']) != m['ti']: return f"ti: impl={o['ti']} model={m['ti']}"
    if nats(o['au']) != m['au']: return f"auids: impl={nats(o['au'])} model={m['au']}"
    names = ['uid', 'alive', 'tidead'] + ([] if sim_mode else ['slot', 'parent'])
    for nm in names:
        ln, raw = o[nm]
        mlu, mlt, mraw = m[nm].split(':', 2)
        if ln != f'{mlu}:{mlt}': return f'{nm}: (len_used:len_tot) impl={ln} model={mlu}:{mlt}'
        mraw = lst(mraw)
        if len(mraw) != len(raw) or any(a != '_' and a != b for a, b in zip(mraw, raw)):
            return f'{nm}: storage impl={toks(raw)} model={toks(mraw)}'
    if sim_mode:
        for nm in ('slot', 'parent'):
            mlu, mlt, _ = m[nm].split(':', 2)
            if o[nm][0] != f'{mlu}:{mlt}': return f'{nm}: (len_used:len_tot) impl={o[nm][0]} model={mlu}:{mlt}'
    if o['states'] != lst(m['states']): return f"registered states (len_used:len_tot): impl={o['states']} model={m['states']}"
    if any(int(s.split(':')[1]) != rl for s, rl in zip(o['states'], o['rawlens'])): return f"a state has len_tot != len(raw): {o['states']} vs {o['rawlens']}"
    for k in ('nalive', 'newdeaths'):
        want = ','.join(f'{t}:{v}' for t, v in o[k]) or '-'
        if want != m[k]: return f'{k}: impl={want} model={m[k]}'
    if 'died' in obs and nats(obs['died']) != m.get('died'): return f"step_die returned {nats(obs['died'])}, model {m.get('died')}"
    return None


# ---------------------------------------------------------------------------
# (1) operation sequences on a real People

class RealPeople:
    def __init__(self, case):
        import starsim as ss
        self.ss = ss
        specs = case['arrays']

        class Holder(ss.Module):
            def __init__(self):
                super().__init__(name='holder')
                self.define_states(*[make_arr(s) for s in specs])
            def step(self): pass

        sim = ss.Sim(n_agents=case['n0'], dur=120, demographics=Holder(), verbose=0, rand_seed=case.get('seed', 1))
        sim.init()
        self.sim = sim; self.p = sim.people
        self.written = []
        self.nlate = 0

    def init_line(self):
        return f"init {len(self.p.auids)} {len(self.p._states) - 2}"

    def exec(self, op):
        ss = self.ss; p = self.p; sim = self.sim
        extra = {}
        try:
            o = op[0]
            if o == 'grow':
                if op[2] is None: new = p.grow(op[1])
                else: new = p.grow(op[1], np.array(op[2], dtype=np.int64)) if op[3] == 'both' else p.grow(new_slots=np.array(op[2], dtype=np.int64))
                extra['new'] = [int(u) for u in new]
            elif o == 'request':
                p.request_death(ss.uids(np.array(op[1], dtype=np.int64)))
            elif o == 'stepdie':
                extra['died'] = [int(u) for u in p.step_die()]
            elif o == 'results':
                p.update_results()
                if sim.t.ti not in self.written: self.written.append(int(sim.t.ti))
            elif o == 'removedead':
                p.remove_dead()
            elif o == 'finish':
                p.finish_step(); sim.finish_step()
            elif o == 'register':
                a = make_arr(op[1])
                a.link_people(p)
                try:
                    a.init_vals()
                except Exception:
                    p._states.pop(id(a), None)
                    raise
            else:
                raise HarnessError(op)
            return dict(st='ok', obs=observe(p, sim, self.written), **extra)
        except HarnessError:
            raise
        except Exception as e:
            return dict(st=err_kind(e), msg=str(e)[:120], obs=observe(p, sim, self.written))

    @staticmethod
    def line(op):
        o = op[0]
        if o == 'grow': return f'grow {op[1]}' if op[2] is None else f'grow {len(op[2]) if op[3] != "both" else op[1]} {nats(op[2])}'
        if o == 'request': return f'request {nats(op[1])}'
        if o == 'register': return 'register'
        return o


def gen_header(rng):
    n0 = rng.choice([1, 2, 3, 4, 6, 8, 9, 12, 16, 24])
    arrays = []
    for i in range(rng.randint(2, 5)):
        t = rng.choice(TYPES)
        d = rng.choice([['unset'], ['const', {'float': 1.5, 'bool': True, 'state': False, 'int': 3}[t]]] + ([['affine', 0.0, 0.5], ['dist']] if t == 'float' else []))
        arrays.append(dict(name=f'{t[0]}{i}', type=t, default=d))
    return dict(n0=n0, arrays=arrays, seed=rng.randint(0, 999), ops=[])


def gen_op(rng, w):
    p = w.p
    n = int(p.uid.len_used); tot = int(p.uid.len_tot)
    au = [int(u) for u in p.auids]
    alive_au = [u for u in au if bool(p.alive.raw[u])]
    r = rng.random()
    if r < 0.20:
        spare = tot - n
        k = min(rng.choice([spare, spare + 1, 1, 1, 2, tot // 2, tot // 2 + 1, max(spare - 1, 0), 0, 3]), 40)
        q = rng.random()
        if q < 0.6 or k == 0: return ['grow', k, None, None]
        slots = [rng.randint(0, n + 5) for _ in range(k)]
        return ['grow', k, slots, rng.choice(['both', 'slots'])]
    if r < 0.45 and au:
        q = rng.random()
        if q < 0.1: us = list(au)
        elif q < 0.7 and alive_au: us = rng.sample(alive_au, rng.randint(1, max(1, len(alive_au) // 3)))
        else: us = [rng.randrange(n) for _ in range(rng.randint(1, 4))]          # any created agent, repeats, already dead
        if rng.random() < 0.3: us = us + us[:1]
        return ['request', us]
    if r < 0.60: return ['stepdie']
    if r < 0.70 and int(w.sim.t.ti) < 110: return ['results']
    if r < 0.78: return ['removedead']
    if r < 0.93 and int(w.sim.t.ti) < 110: return ['finish']
    if w.nlate < 3:
        w.nlate += 1
        t = rng.choice(TYPES)
        return ['register', dict(name=f'late{w.nlate}', type=t, default=rng.choice([['unset'], ['const', {'float': 2.5, 'bool': True, 'state': True, 'int': 1}[t]]]))]
    return ['stepdie']


def run_sequence(rng, nops):
    case = gen_header(rng)
    w = RealPeople(case)
    lines = [w.init_line()]
    log = [(None, dict(st='ok', obs=observe(w.p, w.sim, [])))]
    for _ in range(nops):
        op = gen_op(rng, w)
        obs = w.exec(op)
        case['ops'].append(op)
        lines.append(w.line(op)); log.append((op, obs))
        if obs['st'] != 'ok' and op[0] == 'grow':
            break     # People.grow raised half-way through the registry (only after a mis-sized late registration)
    return case, lines, log, w


# ---------------------------------------------------------------------------
# (2) recording People calls inside generated sims

SIM_FAMILIES = [
    dict(demographics=['deaths'], diseases=['sir']),
    dict(demographics=['pregnancy', 'deaths'], diseases=['sir']),
    dict(demographics=['pregnancy'], diseases=['sis']),
    dict(demographics=['pregnancy', 'deaths'], diseases=[]),
]


def gen_sim_cfg(rng, k):
    fam = SIM_FAMILIES[k % len(SIM_FAMILIES)]
    cfg = impl.gen_sim_config(rng, small=True, demographics=fam['demographics'], diseases=fam['diseases'] or ['sis'],
                              networks=[rng.choice(['random', 'mf'])], time=dict(unit='year', dt=rng.choice([1.0, 0.5]), start=2000, dur=rng.choice([6, 10, 14])))
    for d in cfg['demographics']:
        if d['type'] == 'deaths': d['death_rate'] = rng.choice([20, 60, 150, 300])
        if d['type'] == 'pregnancy':
            d['fertility_rate'] = rng.choice([60, 150, 400, 800])
            d['p_maternal_death'] = rng.choice([0, 0.1, 0.5]); d['p_neonatal_death'] = rng.choice([0, 0.3, 1.0])
    for d in cfg['diseases']:
        if d['type'] == 'sir': d['p_death'] = rng.choice([0.05, 0.3, 0.8]); d['init_prev'] = 0.3
    cfg['n_agents'] = rng.choice([40, 80, 150])
    return cfg


def record_sim(cfg, extra_module=None):
    """ run a sim with People.grow/request_death/step_die/update_results/finish_step recorded; returns the history """
    import starsim as ss
    P = ss.People
    hist = []; state = dict(sim=None, written=[], phase='pre')
    orig = {k: getattr(P, k) for k in ('grow', 'request_death', 'step_die', 'update_results', 'finish_step')}

    def snap(p):
        return observe(p, state['sim'], state['written'])

    def wrap(name):
        f = orig[name]
        def w(self, *a, **kw):
            if state['sim'] is None or self is not state['sim'].people:
                return f(self, *a, **kw)
            ti = int(state['sim'].t.ti)
            pre_alive = np.asarray(self.alive.raw[:self.uid.len_used]).copy() if name == 'step_die' else None
            out = f(self, *a, **kw)
            e = dict(op=name, ti=ti, phase=state['phase'])
            if name == 'grow':
                n = a[0] if a else kw.get('n'); slots = a[1] if len(a) > 1 else kw.get('new_slots')
                e['k'] = int(n if n is not None else len(slots)); e['slots'] = None if slots is None else [int(s) for s in np.asarray(slots)]
                e['new'] = [int(u) for u in np.asarray(out)]
            elif name == 'request_death':
                us = a[0] if a else kw.get('uids')
                e['uids'] = [int(u) for u in np.asarray(us.uids if hasattr(us, 'uids') and not isinstance(us, np.ndarray) else us).reshape(-1)]
            elif name == 'step_die':
                e['died'] = [int(u) for u in out]
                post = np.asarray(self.alive.raw[:self.uid.len_used])
                e['flipped'] = [int(u) for u in np.nonzero(pre_alive & ~post)[0]]
                e['revived'] = [int(u) for u in np.nonzero(~pre_alive & post[:len(pre_alive)])[0]]
                state['phase'] = 'post'
            elif name == 'update_results':
                if ti not in state['written']: state['written'].append(ti)
            e['obs'] = snap(self)
            if name == 'finish_step':
                state['phase'] = 'pre'
                e['obs']['ti'] = ti + 1          # the clock tick of Sim.finish_step follows immediately
            hist.append(e)
            return out
        return w

    for k in orig: setattr(P, k, wrap(k))
    try:
        extra = [extra_module()] if extra_module else None
        sim = impl.build_sim(cfg, extra_interventions=extra)
        sim.init()
        state['sim'] = sim
        start = observe(sim.people, sim, [])
        sim.run()
    finally:
        for k, f in orig.items(): setattr(P, k, f)
    return dict(start=start, hist=hist, sim=sim)


def sim_lines(rec):
    s = rec['start']
    m = len(s['states'])
    lines = [f"load {s['n']} {s['ti']} {nats(s['au'])} {toks(s['alive'][1])} {toks(s['tidead'][1])} {m}"]
    obs = [dict(st='ok', obs=s)]
    for e in rec['hist']:
        o = e['op']
        if o == 'grow': lines.append(f"grow {e['k']}" if e['slots'] is None else f"grow {e['k']} {nats(e['slots'])}")
        elif o == 'request_death': lines.append(f"request {nats(e['uids'])}")
        elif o == 'step_die': lines.append('stepdie')
        elif o == 'update_results': lines.append('results')
        elif o == 'finish_step': lines.append('finish')
        d = dict(st='ok', obs=e['obs'])
        if o == 'step_die': d['died'] = e['died']
        obs.append(d)
    return lines, obs


# ---------------------------------------------------------------------------

def correspond(ctx):
    facts = (ctx.extracted.get('ArrConsts') or {}).get('facts') or {}
    nseq = ctx.budget(100, 800)
    all_lines = []; per = []
    for k in range(nseq):
        try:
            case, lines, log, w = run_sequence(ctx.rng, 40)
        except Exception as e:
            import traceback
            ctx.broke('correspondence', 'C10.opseq', f'implementation harness raised {type(e).__name__}: {e}\n{traceback.format_exc()[-1200:]}')
            continue
        per.append(('seq', case, lines, log, len(all_lines))); all_lines += lines
    nsim = ctx.budget(8, 60)
    for k in range(nsim):
        cfg = gen_sim_cfg(ctx.rng, k)
        try:
            rec = record_sim(cfg)
        except Exception as e:
            import traceback
            ctx.broke('correspondence', 'C10.sim', f'recording a generated sim raised {type(e).__name__}: {e}\n{traceback.format_exc()[-1200:]}', data=cfg)
            continue
        lines, obs = sim_lines(rec)
        per.append(('sim', cfg, lines, obs, len(all_lines))); all_lines += lines
    out = ctx.drive(DRIVER, all_lines)
    nbroken = 0
    for kind, case, lines, log, off in per:
        ml = out[off:off + len(lines)]
        div = None; at = None
        for j, item in enumerate(log):
            obs = item[1] if kind == 'seq' else item
            d = compare(obs, ml[j], sim_mode=(kind == 'sim'))
            ctx.count(f'{kind}_op_' + lines[j].split()[0])
            if d is not None:
                div = d; at = j; break
        if kind == 'seq':
            ks = [op[0] for op, _ in log[1:]]
            ctx.case(tuple(lines), 'grow' in ks and ('removedead' in ks or 'finish' in ks), sample=dict(kind='op-sequence', n0=case['n0'], ops=lines[:12]))
        else:
            ctx.case(('sim', repr(case)), True, sample=dict(kind='sim-history', cfg=case, calls=len(lines)))
        if div is not None and nbroken < 3:
            nbroken += 1
            data = dict(kind='opseq', case=dict(case, ops=case['ops'][:at])) if kind == 'seq' else dict(kind='sim', cfg=case)
            ctx.broke('correspondence', f'C10.{kind}', f"real People diverges from Model/People.lean at call {at} `{lines[at]}`: {div}", data=data)
    ctx.notes['sim_families'] = [f"{'+'.join(f['demographics'])}|{'+'.join(f['diseases'])}" for f in SIM_FAMILIES]


# ---------------------------------------------------------------------------
# oracle: invariants on the real objects

class Tracker:
    """ Follows one population through recorded calls and checks the property's invariants (no model). """
    def __init__(self, start):
        self.prev = start
        self.ever_dead = set(u for u in range(start['n']) if start['alive'][1][u] == 'F')
        self.removed = set(range(start['n'])) - set(start['au'])
        self.created = 0; self.died = 0
        self.last_nalive = None
        self.requests_pre = {}     # ti -> uids requested before death resolution of that step
        self.requests_post = {}    # ti -> uids requested after it
        self.late_pending = set()
        self.fails = []

    def bad(self, oracle, what, **sig):
        self.fails.append((dict(oracle=oracle, **sig), what))

    def structural(self, o, where):
        n = o['n']
        if o['uid'][1][:n] != [str(i) for i in range(n)]:
            self.bad('dense-ids', f'{where}: uid storage {o["uid"][1][:n][:12]} is not 0..{n - 1}')
        if n < self.prev['n']:
            self.bad('dense-ids', f'{where}: the uid space shrank from {self.prev["n"]} to {n}')
        for nm in ('uid', 'slot', 'parent', 'alive', 'tidead'):
            lu, lt = map(int, o[nm][0].split(':'))
            if lu != n or lt < lu or lt != len(o[nm][1]):
                self.bad('aligned', f'{where}: people.{nm} has len_used={lu} len_tot={lt} len(raw)={len(o[nm][1])} but the uid space has {n} ids', array=f'people.{nm}')
        for i, (s, rl) in enumerate(zip(o['states'], o['rawlens'])):
            lu, lt = map(int, s.split(':'))
            if lu != n or lt < lu or lt != rl:
                self.bad('aligned', f'{where}: registered state #{i} has len_used={lu} len_tot={lt} len(raw)={rl} but the uid space has {n} ids', array='registered-state')
        au = o['au']
        if len(set(au)) != len(au): self.bad('active', f'{where}: auids has duplicates')
        if any(u >= n or u < 0 for u in au): self.bad('active', f'{where}: auids contains an id outside [0,{n})')
        back = self.removed & set(au)
        if back: self.bad('permanent', f'{where}: removed agents {sorted(back)[:5]} are active again')
        alive = o['alive'][1]
        rev = [u for u in self.ever_dead if u < len(alive) and alive[u] == 'T']
        if rev: self.bad('permanent', f'{where}: dead agents {rev[:5]} are alive again')
        for u in range(min(n, len(alive))):
            if alive[u] == 'F': self.ever_dead.add(u)

    def call(self, e):
        o = e['obs']; op = e['op']; ti = e['ti']
        where = f"after {op} at ti={ti}"
        self.structural(o, where)
        prev = self.prev
        if op == 'grow':
            k = e['k']
            if e['new'] != list(range(prev['n'], prev['n'] + k)): self.bad('dense-ids', f'{where}: grow({k}) returned {e["new"][:8]}, expected {prev["n"]}..{prev["n"] + k - 1}')
            if o['n'] != prev['n'] + k: self.bad('dense-ids', f'{where}: uid space {prev["n"]} -> {o["n"]} after grow({k})')
            if o['au'] != prev['au'] + list(range(prev['n'], prev['n'] + k)): self.bad('active', f'{where}: new agents were not appended to auids', site='People.grow')
            for nm in ('alive', 'tidead', 'parent'):
                if o[nm][1][:prev['n']] != prev[nm][1][:prev['n']]: self.bad('values-preserved', f'{where}: grow changed existing values of people.{nm}', array=nm)
            if any(x != 'T' for x in o['alive'][1][prev['n']:o['n']]): self.bad('values-preserved', f'{where}: new agents are not alive')
            self.created += k
        elif op == 'request_death':
            (self.requests_pre if e['phase'] == 'pre' else self.requests_post).setdefault(ti, set()).update(e['uids'])
            if e['phase'] == 'post': self.late_pending.update(u for u in e['uids'] if u in set(o['au']) and o['alive'][1][u] == 'T')
        elif op == 'step_die':
            if e['revived']: self.bad('permanent', f'{where}: step_die revived {e["revived"][:5]}')
            flipped = set(e['flipped'])
            if len(e['died']) != len(set(e['died'])): self.bad('multi-request', f'{where}: step_die lists an agent twice')
            pre = set(u for u in self.requests_pre.get(ti, ()) if u in set(prev['au']) and prev['alive'][1][u] == 'T')
            if not pre <= flipped: self.bad('death-timing', f'{where}: agents {sorted(pre - flipped)[:5]} requested before death resolution of this step are still alive')
            late = set(u for u in self.requests_post.get(ti - 1, ()) if u in set(prev['au']) and prev['alive'][1][u] == 'T')
            if not late <= flipped: self.bad('death-timing', f'{where}: agents {sorted(late - flipped)[:5]} requested after the previous death resolution are still alive')
            self.died_now = len(flipped); self.flipped_now = flipped; self.died += len(flipped)
        elif op == 'update_results':
            na = dict(o['nalive']).get(ti); nd = dict(o['newdeaths']).get(ti)
            alive_now = sum(1 for u in o['au'] if o['alive'][1][u] == 'T')
            if na != alive_now: self.bad('balance', f'{where}: n_alive[{ti}]={na} but {alive_now} active agents are alive')
            if self.last_nalive is not None:
                exp = self.last_nalive + self.created - self.died
                if na != exp: self.bad('balance', f'{where}: n_alive[{ti}]={na} != previous {self.last_nalive} + created {self.created} - died {self.died}')
            died_now = getattr(self, 'died_now', 0)
            if nd != died_now:
                fl = getattr(self, 'flipped_now', set())
                # agents that died in this step but whose stamp is not this step: are they all late requests?
                unrec = set(u for u in fl if o['tidead'][1][u] != str(ti))
                latecause = bool(unrec) and unrec <= self.late_pending and nd == died_now - len(unrec)
                self.bad('death-flow', f'{where}: new_deaths[{ti}]={nd} but {died_now} agents died in this step' +
                         (f' ({len(unrec)} of them were requested after the death-resolution phase of step {ti - 1} and stamped {ti - 1})' if latecause else ''),
                         cause='request-after-resolution' if latecause else 'other')
            self.late_pending -= getattr(self, 'flipped_now', set())
            self.last_nalive = na; self.created = 0; self.died = 0; self.died_now = 0; self.flipped_now = set()
        elif op == 'finish_step':
            alive = o['alive'][1]
            want = [u for u in prev['au'] if alive[u] == 'T']
            if o['au'] != want: self.bad('active', f'{where}: auids after removal {o["au"][:10]}… is not the living active agents {want[:10]}…', site='People.remove_dead')
            self.removed |= set(prev['au']) - set(o['au'])
        self.prev = o


def oracle_sim(cfg, extra_module=None):
    rec = record_sim(cfg, extra_module)
    tr = Tracker(rec['start'])
    for e in rec['hist']:
        tr.call(e)
        if len(tr.fails) > 12: break
    # end-of-run cross-check against the published results
    sim = rec['sim']
    dead_total = int(np.count_nonzero(~np.asarray(sim.people.alive.raw[:sim.people.uid.len_used]))) - sum(1 for x in rec['start']['alive'][1][:rec['start']['n']] if x == 'F')
    return tr.fails, dict(dead=dead_total, recorded=int(np.sum(sim.results.new_deaths.values if hasattr(sim.results.new_deaths, 'values') else sim.results.new_deaths)))


OPMAP = dict(grow='grow', request='request_death', stepdie='step_die', results='update_results', finish='finish_step')


def oracle_opseq(case):
    """ the same invariants on a stored operation sequence (removedead / register are checked structurally) """
    w = RealPeople(case)
    tr = Tracker(observe(w.p, w.sim, []))
    phase = 'pre'
    for op in case['ops']:
        ti = int(w.sim.t.ti)
        pre_alive = np.asarray(w.p.alive.raw[:w.p.uid.len_used]).copy()
        n_before = int(w.p.uid.len_used)
        obs = w.exec(op)
        o = obs['obs']
        if obs['st'] != 'ok':
            if op[0] == 'register':
                continue      # refused registration (IndexError): nothing was registered
            tr.bad('raises', f"People.{OPMAP.get(op[0], op[0])} raised {obs['st']} {obs.get('msg')}", op=op[0]); break
        if op[0] == 'register':
            lu, lt = map(int, o['states'][-1].split(':'))
            if lu != o['n']:
                tr.bad('late-registration', f"a state registered when {len(o['au'])} of {o['n']} agents are active has len_used={lu}, len_tot={lt}: it is sized by the active agents, not by the uid space", site='Arr.init_vals')
                break
            tr.prev = o; continue
        if op[0] == 'removedead':
            tr.structural(o, 'after remove_dead')
            want = [u for u in tr.prev['au'] if o['alive'][1][u] == 'T']
            if o['au'] != want: tr.bad('active', f'after remove_dead: auids {o["au"][:10]} is not the living active agents {want[:10]}', site='People.remove_dead')
            tr.removed |= set(tr.prev['au']) - set(o['au']); tr.prev = o; continue
        e = dict(op=OPMAP[op[0]], ti=ti, phase=phase, obs=o)
        if op[0] == 'grow':
            e['k'] = op[1] if (op[2] is None or op[3] == 'both') else len(op[2]); e['new'] = obs.get('new', [])
        elif op[0] == 'request': e['uids'] = op[1]
        elif op[0] == 'stepdie':
            post = np.asarray(w.p.alive.raw[:n_before])
            e['died'] = obs['died']; e['flipped'] = [int(u) for u in np.nonzero(pre_alive & ~post)[0]]; e['revived'] = [int(u) for u in np.nonzero(~pre_alive & post)[0]]
            phase = 'post'
        elif op[0] == 'finish': phase = 'pre'
        # in free-form sequences results/step_die may be called several times per step: only structural + per-call checks apply
        if op[0] == 'results':
            tr.structural(o, f'after update_results at ti={ti}')
            alive_now = sum(1 for u in o['au'] if o['alive'][1][u] == 'T')
            if dict(o['nalive']).get(ti) != alive_now: tr.bad('balance', f'n_alive[{ti}]={dict(o["nalive"]).get(ti)} but {alive_now} active agents are alive')
            tr.prev = o; continue
        tr.call(e)
    return tr.fails


def late_request_module():
    """ the three-line module of DESIGN section 6: a death requested from finish_step """
    import starsim as ss

    class LateKiller(ss.Intervention):
        def step(self): pass
        def finish_step(self):
            super().finish_step()
            if self.sim.ti == 3:
                self.sim.people.request_death(ss.uids([1, 2, 3]))
    return LateKiller()


def search(ctx):
    # generated demographic sims
    for k in range(ctx.budget(8, 60)):
        cfg = gen_sim_cfg(ctx.rng, k)
        try:
            fails, tot = oracle_sim(cfg)
        except Exception as e:
            ctx.fail(dict(oracle='raises', op='sim.run'), f'a generated demographic sim raised {type(e).__name__}: {e}', dict(kind='sim', cfg=cfg))
            continue
        ctx.count('oracle_sims'); ctx.count('oracle_sim_deaths', tot['dead'])
        for sig, what in fails:
            ctx.fail(sig, what, dict(kind='sim', cfg=cfg))
    # operation sequences
    for k in range(ctx.budget(40, 300)):
        try:
            case, lines, log, w = run_sequence(ctx.rng, 40)
        except Exception as e:
            ctx.fail(dict(oracle='raises', op='init'), f'a minimal sim could not be initialised: {type(e).__name__}: {e}', dict(kind='none'))
            continue
        ctx.count('oracle_sequences')
        for sig, what in oracle_opseq(case):
            ctx.fail(sig, what, dict(kind='opseq', case=case))
    # stored witnesses of the known findings
    for kf in ctx.known:
        if kf.get('replay'):
            for sig, what in replay_fails(kf['replay']):
                ctx.fail(sig, what, kf['replay'])


def replay_fails(data):
    if data.get('kind') == 'sim':
        return oracle_sim(data['cfg'])[0]
    if data.get('kind') == 'late-module':
        return oracle_sim(data['cfg'], late_request_module)[0]
    if data.get('kind') == 'opseq':
        return oracle_opseq(data['case'])
    return []


def replay(ctx, data):
    from harness.framework import sig_match
    fails = replay_fails(data)
    new = [(s, w) for s, w in fails if not any(k['kind'] == 'finding' and sig_match(k['signature'], s) for k in ctx.known)]
    for sig, what in fails[:8]:
        print('  [known finding]' if (sig, what) not in new else '  [violation]', sig, what)
    is_known_witness = any(k.get('replay') == data for k in ctx.known)
    return bool(new) or (is_known_witness and bool(fails))
